"""C09 tie + property oracle: pair-symmetric momentum equations.

Three parts (DESIGN.md section 6/C09):

A. translator validation — the generated Lean (`Gen/C09Equations.lean`, run at
   Float through the driver) against the Python `loop` bodies of the scratch
   build executed directly, bit for bit, on random scalars (`loop` level) and
   on random particle pairs with the precomputed symbols exec'd from
   `pysph.sph.equation.precomputed_symbols()` and a real `pysph.base.kernels`
   object (`pair` level; the Lean side sees the kernel as the table of the
   calls the Python side made).
B. model assumption `Radial` on the real kernel classes: W even in x,
   gradient odd in x and parallel to x.
C. the property's own predicate on the REAL compiled code: AccelerationEval
   (run-time code generation, real kernels, real NNPS classes) on random
   closed systems; |sum m a| <= 1e-12 sum m|a|, the angular analogue for the
   central terms, and summation density > 0.  Failures -> R.prop_fail with a
   replayable case.
"""
import collections
import json
import math
import multiprocessing as mp
import os
import random
import signal
import struct
import sys
import time
import traceback
import types

import numpy as np

import hcommon as H

H.assert_scratch_import()
sys.path.insert(0, os.path.join(os.path.dirname(os.path.abspath(__file__)),
                                '..', 'translate'))
import c09_equations2lean as T  # noqa: E402

from compyle.api import declare  # noqa: E402,F401
from pysph.base import kernels as KM  # noqa: E402
from pysph.base.utils import get_particle_array  # noqa: E402
from pysph.sph.equation import Equation, Group, precomputed_symbols  # noqa: E402

REPO = os.environ.get('PYSPH_VERIF_SCRATCH_REPO') or os.path.dirname(
    os.path.dirname(os.path.abspath(sys.modules['pysph'].__file__)))
TOL = 1e-12


# --------------------------------------------------------------------------
# equations: how to instantiate them on the real code

def _mods():
    import pysph.sph.wc.basic as wb
    import pysph.sph.basic_equations as be
    import pysph.sph.wc.transport_velocity as tv
    import pysph.sph.wc.edac as ed
    import pysph.sph.wc.viscosity as vi
    import pysph.sph.gas_dynamics.basic as gd
    import pysph.sph.solid_mech.basic as sm
    return {'pysph/sph/wc/basic.py': wb, 'pysph/sph/basic_equations.py': be,
            'pysph/sph/wc/transport_velocity.py': tv, 'pysph/sph/wc/edac.py': ed,
            'pysph/sph/wc/viscosity.py': vi, 'pysph/sph/gas_dynamics/basic.py': gd,
            'pysph/sph/solid_mech/basic.py': sm}


# (label, tag, constructor kwargs as a function of dim, central?)  per family
FAMILIES = {
    'wc': [
        ('WC_MomentumEquation', 'WC_MomentumEquation', lambda d: dict(c0=1.3, alpha=0.7, beta=1.1)),
        ('WC_MomentumEquation/tensile', 'WC_MomentumEquation', lambda d: dict(c0=1.3, alpha=0.7, beta=1.1, tensile_correction=True)),
        ('WC_MomentumEquationDeltaSPH', 'WC_MomentumEquationDeltaSPH', lambda d: dict(rho0=1.1, c0=1.3, alpha=0.4)),
        ('WC_PressureGradientUsingNumberDensity', 'WC_PressureGradientUsingNumberDensity', lambda d: {}),
    ],
    'bevi': [
        ('BE_MonaghanArtificialViscosity', 'BE_MonaghanArtificialViscosity', lambda d: dict(alpha=0.9, beta=1.2)),
        ('VI_LaminarViscosity', 'VI_LaminarViscosity', lambda d: dict(nu=0.3, eta=0.02)),
        ('VI_MonaghanSignalViscosityFluids', 'VI_MonaghanSignalViscosityFluids', lambda d: dict(alpha=0.5, h=0.1)),
        ('VI_ClearyArtificialViscosity', 'VI_ClearyArtificialViscosity', lambda d: dict(dim=d, alpha=0.8)),
        ('VI_LaminarViscosityDeltaSPH', 'VI_LaminarViscosityDeltaSPH', lambda d: dict(dim=d, rho0=1.1, nu=0.3)),
        ('BE_SummationDensity', 'BE_SummationDensity', lambda d: {}),
    ],
    'tv': [
        ('TV_MomentumEquationPressureGradient', 'TV_MomentumEquationPressureGradient', lambda d: dict(pb=0.7)),
        ('TV_MomentumEquationViscosity', 'TV_MomentumEquationViscosity', lambda d: dict(nu=0.3)),
        ('TV_MomentumEquationArtificialViscosity', 'TV_MomentumEquationArtificialViscosity', lambda d: dict(c0=1.3, alpha=0.2)),
        ('TV_MomentumEquationArtificialStress', 'TV_MomentumEquationArtificialStress', lambda d: {}),
        ('TV_SummationDensity', 'TV_SummationDensity', lambda d: {}),
    ],
    'ed': [
        ('ED_MomentumEquation', 'ED_MomentumEquation', lambda d: dict(c0=1.3)),
        # pair-symmetric only for a uniform average pressure (see Props/C09):
        # the arrays carry a uniform pavg
        ('ED_MomentumEquationPressureGradient/uniform-pavg', 'ED_MomentumEquationPressureGradient', lambda d: dict(pb=0.6)),
    ],
    'gd': [
        ('GD_Monaghan92Accelerations', 'GD_Monaghan92Accelerations', lambda d: dict(alpha=1.0, beta=2.0)),
        ('GD_ADKEAccelerations', 'GD_ADKEAccelerations', lambda d: dict(alpha=1.0, beta=2.0, g1=0.2, g2=0.4, k=1.0, eps=0.5)),
        ('GD_MPMAccelerations', 'GD_MPMAccelerations', lambda d: dict(beta=2.0)),
        # the non-default switches (alpha1/alpha2 differ from particle to
        # particle here, as they do once the switch has evolved them)
        ('GD_MPMAccelerations/update-alpha', 'GD_MPMAccelerations',
         lambda d: dict(beta=2.0, update_alpha1=True, update_alpha2=True)),
    ],
    'sm': [
        ('SM_MomentumEquationWithStress', 'SM_MomentumEquationWithStress', lambda d: {}),
    ],
}
TAGINFO = {t[0]: t for t in T.EQUATIONS}      # tag -> (tag, file, cls, kind, central)

EXTRA_PROPS = ('V pavg uhat vhat what auhat avhat awhat dt_cfl dt_force s00 s01 s02 s11 '
               's12 s22 r00 r01 r02 r11 r12 r22 e ae div omega alpha1 alpha2 del2e am '
               'aalpha1 aalpha2').split()
RANDOM_PROPS = {  # name -> (lo, hi)
    'm': (0.5, 2), 'rho': (0.5, 2), 'p': (-1, 2), 'cs': (1, 2), 'u': (-1, 1),
    'v': (-1, 1), 'w': (-1, 1), 'V': (0.5, 2), 'uhat': (-1, 1), 'vhat': (-1, 1),
    'what': (-1, 1), 's00': (-1, 1), 's01': (-1, 1), 's02': (-1, 1),
    's11': (-1, 1), 's12': (-1, 1), 's22': (-1, 1), 'r00': (-1, 1),
    'r01': (-1, 1), 'r02': (-1, 1), 'r11': (-1, 1), 'r12': (-1, 1),
    'r22': (-1, 1), 'e': (0.5, 2), 'div': (-1, 1), 'omega': (0.5, 2),
    'alpha1': (0, 1), 'alpha2': (0, 1),
}


class C09Zero(Equation):
    """harness equation: start every measured equation from zero"""
    def initialize(self, d_idx, d_au, d_av, d_aw, d_auhat, d_avhat, d_awhat):
        d_au[d_idx] = 0.0
        d_av[d_idx] = 0.0
        d_aw[d_idx] = 0.0
        d_auhat[d_idx] = 0.0
        d_avhat[d_idx] = 0.0
        d_awhat[d_idx] = 0.0


class C09Copy(Equation):
    """harness equation: record what the measured equation left behind"""
    def __init__(self, dest, sources, k, n):
        self.k = k
        self.n = n
        super(C09Copy, self).__init__(dest, sources)

    def initialize(self, d_idx, d_au, d_av, d_aw, d_auhat, d_avhat, d_awhat,
                   d_rho, d_c09acc):
        i = declare('int')
        i = 7*(d_idx*self.n + self.k)
        d_c09acc[i] = d_au[d_idx]
        d_c09acc[i+1] = d_av[d_idx]
        d_c09acc[i+2] = d_aw[d_idx]
        d_c09acc[i+3] = d_auhat[d_idx]
        d_c09acc[i+4] = d_avhat[d_idx]
        d_c09acc[i+5] = d_awhat[d_idx]
        d_c09acc[i+6] = d_rho[d_idx]


# --------------------------------------------------------------------------
# C. system-level oracle on the real compiled code

H_STYLES = 6
H_RATIOS = [1.0, 2.0, 3.5, 5.0, 8.0]      # largest h of one array / largest h of another


def gen_array(rng, dim, n, dx, style, a=0, ratios=None):
    """one random particle array as a dict of numpy arrays"""
    d = {}
    d['x'] = rng.uniform(0, 1, n)
    d['y'] = rng.uniform(0, 1, n) if dim > 1 else np.zeros(n)
    d['z'] = rng.uniform(0, 1, n) if dim > 2 else np.zeros(n)
    if style == 0:
        d['h'] = dx * rng.uniform(1.0, 1.6, n)         # per-particle h
    elif style == 1:
        d['h'] = np.ones(n) * dx * 1.3                 # uniform h
    elif style == 2:
        d['h'] = dx * rng.choice([0.8, 1.2, 2.0], n)   # strongly varying h
    elif style == 3:
        d['h'] = dx * 0.6 * 4.0 ** rng.uniform(0, 1, n)    # log-uniform over a ratio of 4
    elif style == 4:
        d['h'] = dx * [0.7, 1.5, 1.0][a % 3] * rng.uniform(1.0, 1.15, n)   # one resolution per array
    else:
        # arrays of very different resolution (a fine fluid and a few coarse
        # particles / a coarse boundary): ratios[a] times the fine h
        d['h'] = dx * (ratios[a] if ratios else 1.0) * rng.uniform(1.0, 1.15, n)
    for p, (lo, hi) in RANDOM_PROPS.items():
        d[p] = rng.uniform(lo, hi, n)
    if dim < 3:
        d['w'] = np.zeros(n)
        d['what'] = np.zeros(n)
    if dim < 2:
        d['v'] = np.zeros(n)
        d['vhat'] = np.zeros(n)
    d['pavg'] = np.ones(n) * 0.37
    return d


def gen_system(seed, dim, sizes, wdeltap, hstyle=None, hscale=1.0, hratios=None):
    """random closed system as plain dicts (JSON-able)"""
    rng = np.random.RandomState(seed % (2 ** 31))
    ntot = sum(sizes)
    if hratios:
        ntot = max(sizes)          # the spacing of the fine array
    dx = hscale / ntot ** (1.0 / dim)
    style = rng.randint(0, 3)
    if hstyle is not None:
        style = hstyle
    arrs = []
    for a, n in enumerate(sizes):
        d = gen_array(rng, dim, n, dx, style, a, hratios)
        arrs.append({k: [float(x) for x in v] for k, v in d.items()})
    return {'dim': dim, 'arrays': arrs, 'wdeltap': wdeltap, 'n_exp': 4.0,
            'dx': dx, 'hstyle': int(style), 'hratios': hratios}


def build_arrays(system, neq):
    pas = []
    for a, d in enumerate(system['arrays']):
        base = {k: np.array(d[k]) for k in ('x', 'y', 'z', 'h', 'm', 'rho', 'p', 'cs', 'u', 'v', 'w')}
        pa = get_particle_array(name='a%d' % a, **base)
        for p in EXTRA_PROPS:
            pa.add_property(p)
            if p in d:
                pa.get_carray(p).get_npy_array()[:] = d[p]
        pa.add_property('c09acc', stride=7 * neq)
        pa.add_property('c09id')      # which real particle an image is an image of
        pa.get_carray('c09id').get_npy_array()[:] = np.arange(pa.get_number_of_particles())
        pa.add_constant('wdeltap', system['wdeltap'])
        pa.add_constant('n', system['n_exp'])
        pas.append(pa)
    return pas


def make_eval(pas, family, kernel, dim):
    from pysph.sph.acceleration_eval import AccelerationEval
    from pysph.sph.sph_compiler import SPHCompiler
    mods = _mods()
    names = [p.name for p in pas]
    eqs = FAMILIES[family]
    groups = []
    for k, (label, tag, kw) in enumerate(eqs):
        _, f, cname, kind, central = TAGINFO[tag]
        cls = getattr(mods[f], cname)
        g = [C09Zero(dest=d, sources=None) for d in names]
        g += [cls(dest=d, sources=names, **kw(dim)) for d in names]
        groups.append(Group(equations=g, name='c09_%s_%d' % (family, k)))
        groups.append(Group(equations=[C09Copy(dest=d, sources=None, k=k, n=len(eqs))
                                       for d in names], name='c09_%s_copy%d' % (family, k)))
    ae = AccelerationEval(particle_arrays=pas, equations=groups, kernel=kernel)
    comp = SPHCompiler(ae, integrator=None)
    comp.compile()
    return ae


def measure(pas, family):
    """per equation label: the quantities of the property statement"""
    eqs = FAMILIES[family]
    out = {}
    for k, (label, tag, kw) in enumerate(eqs):
        tot = np.zeros(3)
        tothat = np.zeros(3)
        ab = abhat = 0.0
        ang = np.zeros(3)
        angabs = 0.0
        rhomin = math.inf
        for pa in pas:
            acc = pa.get('c09acc').reshape(-1, len(eqs), 7)[:, k, :]
            m = pa.get('m')
            X = np.c_[pa.get('x'), pa.get('y'), pa.get('z')]
            A = acc[:, :3]
            tot += (m[:, None] * A).sum(axis=0)
            tothat += (m[:, None] * acc[:, 3:6]).sum(axis=0)
            ab += float((m * np.linalg.norm(A, axis=1)).sum())
            abhat += float((m * np.linalg.norm(acc[:, 3:6], axis=1)).sum())
            ang += (m[:, None] * np.cross(X, A)).sum(axis=0)
            angabs += float((m * np.linalg.norm(X, axis=1) * np.linalg.norm(A, axis=1)).sum())
            if len(m):
                rhomin = min(rhomin, float(acc[:, 6].min()))
        out[label] = {'lin': float(np.abs(tot).max()), 'lin_scale': ab,
                      'hat': float(np.abs(tothat).max()), 'hat_scale': abhat,
                      'ang': float(np.abs(ang).max()), 'ang_scale': angabs,
                      'rhomin': rhomin,
                      'finite': bool(np.isfinite(tot).all() and np.isfinite(tothat).all())}
    return out


def judge(label, tag, m, periodic=False):
    """the property statement; returns list of (what, demand, observed).  In a
    periodic box (a torus) the sums are over the real particles, the images
    being part of the closed system, and there is no angular momentum."""
    _, f, cname, kind, central = TAGINFO[tag]
    central = central and not periodic
    bad = []
    if kind == 'density':
        if not (m['rhomin'] > 0):
            bad.append(('density', 'summation density > 0 for every particle '
                        '(each sees itself)', 'min rho = %r' % m['rhomin']))
        return bad
    if not m['finite']:
        bad.append(('nonfinite', 'finite accelerations', 'nan/inf in sum m a'))
        return bad
    if not (m['lin'] <= TOL * m['lin_scale']):
        bad.append(('linear', '|sum m a| <= 1e-12 * sum m|a| = %.3e' % (TOL * m['lin_scale']),
                    '|sum m a| = %.3e' % m['lin']))
    if not (m['hat'] <= TOL * m['hat_scale']):
        bad.append(('linear-hat', '|sum m ahat| <= 1e-12 * sum m|ahat| = %.3e' % (TOL * m['hat_scale']),
                    '|sum m ahat| = %.3e' % m['hat']))
    if central and not (m['ang'] <= TOL * m['ang_scale']):
        bad.append(('angular', '|sum m x cross a| <= 1e-12 * sum m|x||a| = %.3e' % (TOL * m['ang_scale']),
                    '|sum m x cross a| = %.3e' % m['ang']))
    return bad



# --------------------------------------------------------------------------
# the neighbour-search layer: classes x their public options x cache x
# histories on one reused NNPS object / AccelerationEval

# class -> {option: values}; every value of every option is used on every run
# (plan_nn).  Not exercised: ExtendedSpatialHashNNPS(approximate=True)
# (documented as an approximation of the search sphere), test_parallel
# (OpenMP), domain managers, GPU classes, and DictBoxSortNNPS: it implements
# only the Python-level get_nearest_particles_no_cache, not the nogil
# find_nearest_neighbors the generated evaluator calls, so AccelerationEval
# sees no neighbour at all with it (every sum is trivially zero; reported as a
# side finding, nothing of the property can be observed through it).
NNPS_MATRIX = collections.OrderedDict([
    ('LinkedListNNPS', {}),
    ('BoxSortNNPS', {}),
    ('SpatialHashNNPS', {'table_size': [131072, 61, 7]}),
    ('ExtendedSpatialHashNNPS', {'H': [1, 2, 3, 4], 'table_size': [131072, 17]}),
    ('CellIndexingNNPS', {}),
    ('ZOrderNNPS', {}),
    ('ExtendedZOrderNNPS', {'H': [1, 2, 3], 'asymmetric': [False, True]}),
    ('StratifiedHashNNPS', {'H': [1, 2, 3], 'num_levels': [1, 2, 3, 4],
                            'table_size': [131072, 131072, 37]}),
    ('StratifiedSFCNNPS', {'num_levels': [1, 2, 3]}),
    ('OctreeNNPS', {'leaf_max_particles': [10, 1, 3, 40]}),
    ('CompressedOctreeNNPS', {'leaf_max_particles': [10, 1, 3, 40]}),
])
NO_FIXED_H = ()
NO_CACHE = ()

HIST_KINDS = ['single', 'again', 'move', 'shrink-grow', 'shrink-grow-more',
              'grow-shrink', 'shrink-shrink-grow', 'grow-grow', 'empty-refill',
              'random']


def gen_history(rng, kind, sizes):
    """list of operations applied between evaluations on the SAME objects;
    every operation is followed by nnps.update_domain(); nnps.update() and an
    evaluation that is judged like the first one"""
    narr = len(sizes)
    cur = list(sizes)

    def op(name, frac=0.0, arr=None):
        a = rng.randrange(narr) if arr is None else arr
        o = {'op': name, 'arr': a, 'seed': rng.randrange(2 ** 30)}
        if name == 'remove':
            o['n'] = min(cur[a], max(1, int(round(frac * sizes[a]))))
            o['how'] = rng.choice(['random', 'front', 'back', 'stride'])
            cur[a] -= o['n']
        elif name == 'add':
            o['n'] = max(1, int(round(frac * sizes[a])))
            cur[a] += o['n']
        return o

    f = rng.uniform(0.1, 0.6)
    if kind == 'single':
        return []
    if kind == 'again':
        return [op('noop')]
    if kind == 'move':
        return [op('move'), op('move')][:rng.choice([1, 2])]
    if kind == 'shrink-grow':           # back to at most the first size
        a = rng.randrange(narr)
        return [op('remove', f, a), op('add', f * rng.uniform(0.3, 1.0), a)]
    if kind == 'shrink-grow-more':      # beyond the first size
        a = rng.randrange(narr)
        return [op('remove', f, a), op('add', f * rng.uniform(1.1, 2.0), a)]
    if kind == 'grow-shrink':
        a = rng.randrange(narr)
        return [op('add', f, a), op('remove', f * rng.uniform(0.5, 1.5), a)]
    if kind == 'shrink-shrink-grow':
        a = rng.randrange(narr)
        return [op('remove', f * 0.5, a), op('remove', f * 0.5, a), op('add', f, a)]
    if kind == 'grow-grow':
        a = rng.randrange(narr)
        return [op('add', f, a), op('add', f, a)]
    if kind == 'empty-refill':
        if narr < 2:                    # a system without any particle is not a case
            a = 0
            return [op('remove', 0.9, a), op('add', 0.9, a)]
        a = rng.randrange(narr)
        return [op('remove', 1.0, a), op('add', rng.uniform(0.3, 1.2), a)]
    ops = []
    for _ in range(rng.randint(2, 4)):
        ops.append(op(rng.choice(['remove', 'add', 'move', 'noop', 'remove', 'add']),
                      rng.uniform(0.05, 0.5)))
    return ops


def apply_op(system, pas, o):
    """one population / state change on the live particle arrays"""
    pa = pas[o['arr']]
    rng = np.random.RandomState(o['seed'])
    n = pa.get_number_of_particles(real=True)     # images (if any) follow the real ones
    dim = system['dim']
    if o['op'] == 'noop':
        return
    if o['op'] == 'remove':
        k = min(o['n'], n)
        if o['how'] == 'front':
            idx = np.arange(k)
        elif o['how'] == 'back':
            idx = np.arange(n - k, n)
        elif o['how'] == 'stride':
            idx = np.arange(0, n, max(1, n // max(k, 1)))[:k]
        else:
            idx = rng.choice(n, k, replace=False)
        pa.remove_particles(np.asarray(idx, dtype=int))
    elif o['op'] == 'add':
        d = gen_array(rng, dim, o['n'], system['dx'], system['hstyle'], o['arr'],
                      system.get('hratios'))
        pa.add_particles(**d)
    elif o['op'] == 'move':
        dx = system['dx']
        for c in ('x', 'y', 'z')[:dim]:
            v = pa.get_carray(c).get_npy_array()[:n]
            v += rng.uniform(-0.7, 0.7, n) * dx
        h = pa.get_carray('h').get_npy_array()[:n]
        if system['hstyle'] != 1:
            h *= rng.choice([1.0, 1.0, 0.8, 1.3], n)
        else:
            h *= rng.choice([0.8, 1.3])
    else:
        raise ValueError('unknown history operation %r' % (o,))


BOX = 1.0       # the periodic box is [0, BOX] on every periodic axis


def nbr_asymmetry(nnps, pas, k):
    """mechanism 1 of the property on the real search with a domain manager:
    whenever real particle i has (an image of) particle j as an interacting
    neighbour (r < k*(h_i + h_j)/2, where the kernel gradient is non-zero), j
    has (an image of) i as one, equally often.  Images are traced back to the
    real particle through the copied property c09id.  Returns None or a
    description of the first unmatched pair."""
    from cyarray.api import UIntArray
    narr = len(pas)
    nbrs = UIntArray()
    nreal = [pa.get_number_of_particles(real=True) for pa in pas]
    dat = []
    for pa in pas:
        x, y, z, h, oid = pa.get('x', 'y', 'z', 'h', 'c09id', only_real_particles=False)
        dat.append((np.c_[x, y, z], h, np.asarray(oid, dtype=np.int64)))
    seen = {}
    npair = 0
    for d in range(narr):
        Xd, hd, _ = dat[d]
        for s_ in range(narr):
            Xs, hs, ids = dat[s_]
            I, J = [], []
            for i in range(nreal[d]):
                nnps.get_nearest_particles(s_, d, i, nbrs)
                j = np.array(nbrs.get_npy_array(), dtype=np.int64)
                I.append(np.full(len(j), i, dtype=np.int64))
                J.append(j)
            I = np.concatenate(I) if I else np.zeros(0, dtype=np.int64)
            J = np.concatenate(J) if J else np.zeros(0, dtype=np.int64)
            if len(J) and (J.max() >= len(hs)):
                return {'what': 'neighbour index %d of array %d out of range %d' % (J.max(), s_, len(hs))}
            r = np.sqrt(((Xd[I] - Xs[J]) ** 2).sum(axis=1))
            keep = r < k * 0.5 * (hd[I] + hs[J]) * (1 - 1e-9)
            code = I[keep] * max(nreal[s_], 1) + ids[J[keep]]
            u, c = np.unique(code, return_counts=True)
            seen[(d, s_)] = (u, c)
            npair += int(keep.sum())
    for d in range(narr):
        for s_ in range(d, narr):
            u, c = seen[(d, s_)]
            v, e = seen[(s_, d)]
            # (j, i) of the reverse direction as (i, j)
            jj, ii = v // max(nreal[d], 1), v % max(nreal[d], 1)
            w = ii * max(nreal[s_], 1) + jj
            o = np.argsort(w)
            w, e = w[o], e[o]
            if len(u) == len(w) and (u == w).all() and (c == e).all():
                continue
            fw = dict(zip(u.tolist(), c.tolist()))
            bw = dict(zip(w.tolist(), e.tolist()))
            nbad = 0
            ex = None
            for key in set(fw) | set(bw):
                if fw.get(key, 0) != bw.get(key, 0):
                    nbad += 1
                    if ex is None:
                        ex = key
            i, j = ex // max(nreal[s_], 1), ex % max(nreal[s_], 1)
            return {'what': 'particle %d of array %d has (images of) particle %d of array %d as interacting '
                            'neighbour %d time(s), the reverse holds %d time(s); %d such pairs of %d' % (
                                i, d, j, s_, fw.get(ex, 0), bw.get(ex, 0), nbad, npair),
                    'h': [float(dat[d][1][i]), float(dat[s_][1][j])],
                    'xi': [float(t) for t in dat[d][0][i]], 'xj': [float(t) for t in dat[s_][0][j]]}
    return None


class Staged(Exception):
    def __init__(self, stage, exc):
        Exception.__init__(self, '%s: %s: %s' % (stage, type(exc).__name__, str(exc)[:300]))
        self.stage = stage


def run_config(ae_cache, family, kname, cfg):
    """cfg: dict(dim, sizes, seed, nnps, cache, wdeltap [, fixed_h, sort_gids,
    knobs, kernel_radius, hstyle, hscale, history, system]); returns
    (list of per-round measurements, initial system)"""
    from pysph.base import nnps as NN
    dim = cfg['dim']
    system = cfg.get('system') or gen_system(cfg['seed'], dim, cfg['sizes'], cfg['wdeltap'],
                                             cfg.get('hstyle'), cfg.get('hscale', 1.0),
                                             cfg.get('hratios'))
    try:
        pas = build_arrays(system, len(FAMILIES[family]))
        kernel = getattr(KM, kname)(dim=dim)
        ae = make_eval(pas, family, kernel, dim)
    except Exception as e:      # noqa
        raise Staged('compile', e)
    if cfg.get('sort_gids'):
        # valid gids, so that the neighbours really are sorted by gid (with the
        # default gid of UINT_MAX sort_gids falls back to the index)
        off = 0
        for pa in pas:
            n = pa.get_number_of_particles()
            pa.get_carray('gid').get_npy_array()[:] = np.arange(off, off + n)[::-1]
            off += n
    # fixed_h only says that h does not change with time; it must not change
    # the (symmetric) neighbour criterion
    kw = dict(cache=cfg['cache'], sort_gids=bool(cfg.get('sort_gids', False)))
    if cfg['nnps'] not in NO_FIXED_H:
        kw['fixed_h'] = bool(cfg.get('fixed_h', False))
    if cfg.get('kernel_radius'):
        kw['radius_scale'] = kernel.radius_scale      # what Application / SPHEvaluator pass
    kw.update(cfg.get('knobs') or {})
    rounds = []
    dom = cfg.get('domain')
    k_nn = kw.get('radius_scale', 2.0)

    def in_scope():
        # one image per side is all a DomainManager makes: the search radius
        # must not exceed the period
        if not dom:
            return True
        hmax = max([float(pa.get('h').max()) for pa in pas if pa.get_number_of_particles(real=True)] or [0.0])
        return k_nn * hmax <= 0.98 * BOX

    def hmaxs():
        # what _compute_cell_size_for_binning reads: h.maximum of each whole
        # array (images of the previous round included), before the update
        if not dom or any(pa.get_number_of_particles() == 0 for pa in pas):
            return None
        return [float(pa.get('h', only_real_particles=False).max()) for pa in pas]

    def ghost_tie(hm):
        """input line for Model/PeriodicGhosts and what the real manager made"""
        out = []
        if hm is None or sum(pa.get_number_of_particles(real=True) for pa in pas) > 3000:
            return out
        per = list(dom['periodic']) + [False] * 3
        per = [bool(per[0]), bool(per[1]) and dim > 1, bool(per[2]) and dim > 2]
        for a, pa in enumerate(pas):
            nr = pa.get_number_of_particles(real=True)
            x, y, z, oid = pa.get('x', 'y', 'z', 'c09id', only_real_particles=False)
            line = 'ghosts box=%s per=%s par=%s hmax=%s x=%s y=%s z=%s' % (
                H.flist([0.0, BOX, 0.0, BOX, 0.0, BOX]), ','.join('1' if b else '0' for b in per),
                H.flist([float(dom['n_layers']), k_nn]), H.flist(hm),
                H.flist(x[:nr]), H.flist(y[:nr]), H.flist(z[:nr]))
            made = sorted((int(oid[i]), H.fbits(x[i]), H.fbits(y[i]), H.fbits(z[i]))
                          for i in range(nr, len(x)))
            out.append({'line': line, 'made': made, 'arr': a, 'nreal': nr})
        return out

    def observe(hm=None):
        m = measure(pas, family)
        if dom:
            m['_gt'] = ghost_tie(hm)
        if dom and not (cfg.get('knobs') or {}).get('asymmetric'):
            m['_nbr'] = nbr_asymmetry(nnps, pas, min(k_nn, kernel.radius_scale))
        if dom:
            m['_ghosts'] = [pa.get_number_of_particles() - pa.get_number_of_particles(real=True)
                            for pa in pas]
        return m

    if not in_scope():
        raise Staged('harness', ValueError('generator: search radius exceeds the period in round 0'))
    try:
        if dom:
            per = list(dom['periodic']) + [False] * 3
            kw['domain'] = NN.DomainManager(
                xmin=0.0, xmax=BOX, ymin=0.0, ymax=BOX, zmin=0.0, zmax=BOX,
                periodic_in_x=bool(per[0]), periodic_in_y=bool(per[1]) and dim > 1,
                periodic_in_z=bool(per[2]) and dim > 2, n_layers=float(dom['n_layers']))
        hm = hmaxs()
        nnps = getattr(NN, cfg['nnps'])(dim=dim, particles=pas, **kw)
        nnps.update()
        ae.set_nnps(nnps)
        ae.compute(0.0, 0.1)
        rounds.append(observe(hm))
    except Exception as e:      # noqa
        raise Staged('round-0', e)
    for r, o in enumerate(cfg.get('history') or []):
        try:
            apply_op(system, pas, o)
            if not in_scope():
                break               # (a 'move' grew h beyond what one image per side covers)
            for pa in pas:
                n = pa.get_number_of_particles()
                pa.get_carray('c09id').get_npy_array()[:] = np.arange(n)
            if cfg.get('sort_gids') and o['op'] == 'add':
                off = 0
                for pa in pas:
                    n = pa.get_number_of_particles()
                    pa.get_carray('gid').get_npy_array()[:] = np.arange(off, off + n)[::-1]
                    off += n
            hm = hmaxs()
            nnps.update_domain()
            nnps.update()
            ae.compute(0.0, 0.1)
            rounds.append(observe(hm))
        except Exception as e:      # noqa
            raise Staged('round-%d' % (r + 1), e)
    return rounds, system


def gen_cache_case(rng, cname):
    """one history on one caching NNPS object for the model tie (JSON-able)"""
    dim = rng.choice([1, 2, 2, 3])
    narr = rng.choice([1, 1, 2])
    sizes = [rng.randint(3, {1: 14, 2: 30, 3: 40}[dim]) for _ in range(narr)]
    knobs = {}
    for k, vals in NNPS_MATRIX[cname].items():
        knobs[k] = rng.choice(vals)
    kinds = [k for k in HIST_KINDS if k != 'single']
    hist = gen_history(rng, rng.choice(kinds + ['shrink-grow', 'shrink-shrink-grow']), sizes)
    dst = rng.randrange(narr)
    return {'nnps': cname, 'knobs': knobs, 'dim': dim, 'sizes': sizes, 'dst': dst,
            'src': rng.randrange(narr), 'seed': rng.randrange(2 ** 30), 'history': hist,
            'hstyle': rng.choice([0, 1, 2, 3]), 'junk': rng.choice([0, 1, 7, 4294967295]),
            'qseed': rng.randrange(2 ** 30), 'layer': 'cache-tie', 'cache': True}


def run_cache_case(cfg):
    """the real NeighborCache through a history: per round the search's own
    lists (get_nearest_particles_no_cache on the same object) and what the
    cache hands out for a sequence of queries; returns the model's input line
    and the lists handed out"""
    from pysph.base import nnps as NN
    from cyarray.api import UIntArray
    dim = cfg['dim']
    system = gen_system(cfg['seed'], dim, cfg['sizes'], 1.0, cfg['hstyle'], 1.0)
    pas = []
    for a, d in enumerate(system['arrays']):
        pas.append(get_particle_array(name='a%d' % a, **{k: np.array(d[k]) for k in
                                                          ('x', 'y', 'z', 'h', 'm', 'rho')}))
    narr = len(pas)
    dst, src = cfg['dst'], cfg['src']
    nn = getattr(NN, cfg['nnps'])(dim=dim, particles=pas, cache=True, **cfg['knobs'])
    n0 = pas[dst].get_number_of_particles()
    qrng = random.Random(cfg['qseed'])
    nbrs = UIntArray()
    toks = ['cachehist', 'junk=%d' % cfg['junk'], 'n0=%d' % n0,
            'rounds=%d' % (len(cfg['history']) + 1)]
    served = []
    for r in range(len(cfg['history']) + 1):
        if r > 0:
            o = cfg['history'][r - 1]
            if o['op'] in ('remove', 'add'):
                # positions only: the tie is about the cache, not the equations
                pa = pas[o['arr']]
                rs = np.random.RandomState(o['seed'])
                n = pa.get_number_of_particles()
                if o['op'] == 'remove':
                    k = min(o['n'], n)
                    pa.remove_particles(np.asarray(rs.choice(n, k, replace=False), dtype=int))
                else:
                    d = gen_array(rs, dim, o['n'], system['dx'], system['hstyle'], o['arr'])
                    pa.add_particles(**{k: d[k] for k in ('x', 'y', 'z', 'h', 'm', 'rho')})
            else:
                apply_op(system, pas, o)
            nn.update_domain()
            nn.update()
        npd = pas[dst].get_number_of_particles()
        off, flat = [0], []
        for d in range(npd):
            nn.get_nearest_particles_no_cache(src, dst, d, nbrs, False)
            flat += sorted(int(x) for x in nbrs.get_npy_array())
            off.append(len(flat))
        nn.set_context(src, dst)
        ops, out = [], []
        nq = qrng.randint(1, 2 * npd + 2) if npd else 0
        for _ in range(nq):
            if qrng.random() < 0.12:
                ops.append(-1)
                nn.cache[dst * narr + src].find_all_neighbors()
            else:
                d = qrng.randrange(npd)
                ops.append(d)
                nn.get_nearest_particles(src, dst, d, nbrs)
                out.append(sorted(int(x) for x in nbrs.get_npy_array()))
        if not nq and qrng.random() < 0.5:
            ops.append(-1)
            nn.cache[dst * narr + src].find_all_neighbors()
        toks += ['np%d=%d' % (r, npd), 'off%d=%s' % (r, H.ilist(off)),
                 'nb%d=%s' % (r, H.ilist(flat)), 'ops%d=%s' % (r, H.ilist(ops))]
        served.append(out)
    return {'line': ' '.join(toks), 'served': served}


def run_one(family, kname, cfg):
    """records of one configuration (one per equation), or one error record"""
    if family == 'cache-tie':
        try:
            rec = run_cache_case(cfg)
        except Exception as e:      # noqa
            return [{'family': family, 'kernel': kname, 'cfg': cfg, 'stage': 'round',
                     'error': '%s: %s' % (type(e).__name__, str(e)[:300])}]
        return [dict(rec, family=family, kernel=kname, cfg=cfg, tie=True)]
    try:
        rounds, system = run_config(None, family, kname, cfg)
    except Staged as e:
        return [{'family': family, 'kernel': kname, 'cfg': cfg, 'error': str(e),
                 'stage': e.stage}]
    except Exception as e:      # noqa
        return [{'family': family, 'kernel': kname, 'cfg': cfg, 'stage': 'harness',
                 'error': '%s: %s' % (type(e).__name__, traceback.format_exc()[-600:])}]
    recs = []
    periodic = bool(cfg.get('domain'))
    first = True
    for label, tag, kw in FAMILIES[family]:
        bad, worst = [], None
        for r, meas in enumerate(rounds):
            b = judge(label, tag, meas[label], periodic)
            if first and meas.get('_nbr'):
                # the neighbour relation itself (reported once per configuration)
                b = b + [('neighbour-asymmetry',
                          'i has (an image of) j as interacting neighbour exactly as often as j has '
                          '(an image of) i (real + periodic-image particles, ghosts per array %s)' %
                          meas.get('_ghosts'), json.dumps(meas['_nbr']))]
            if b and not bad:
                bad = [(what, 'round %d: %s' % (r, demand), observed) for what, demand, observed in b]
                worst = dict(meas[label], round=r)
        m = worst or dict(rounds[-1][label], round=len(rounds) - 1)
        m['scale_all_rounds'] = float(sum(x[label]['lin_scale'] for x in rounds))
        rec = {'family': family, 'kernel': kname, 'cfg': cfg, 'label': label,
               'tag': tag, 'm': m, 'bad': bad, 'rounds': len(rounds)}
        if bad:
            rec['system'] = system
        if periodic and first:
            rec['ghost_tie'] = [dict(g, round=r) for r, m_ in enumerate(rounds) for g in m_.get('_gt') or []]
        if periodic:
            rec['ghosts'] = [m_.get('_ghosts') for m_ in rounds]
            rec['planned_rounds'] = 1 + len(cfg.get('history') or [])
        recs.append(rec)
        first = False
    return recs


def _child(task, w):
    """one worker process = one generated module (family, kernel, #arrays) and
    all its configurations; every finished configuration is reported at once so
    that the parent knows which one a crash or a hang belongs to"""
    try:
        try:
            os.setsid()                 # own process group: compilers die with us
        except OSError:
            pass
        devnull = os.open(os.devnull, os.O_WRONLY)
        os.dup2(devnull, 1)             # compiler chatter
        family, kname, narr, cfgs = task
        for i, cfg in enumerate(cfgs):
            w.send(('start', i))
            w.send(('recs', i, run_one(family, kname, cfg)))
        w.send(('done',))
        w.close()
    finally:
        os._exit(0)


T_FIRST = int(os.environ.get('C09_T_FIRST', '900'))    # first configuration: includes the compile
T_CFG = int(os.environ.get('C09_T_CFG', '240'))


class Runner(object):
    """runs tasks in forked children with per-configuration progress; a child
    that dies or stops answering costs exactly the configuration it was
    running (reported), the rest of its task is re-queued"""

    def __init__(self, tasks, nproc):
        self.queue = collections.deque(
            sorted(tasks, key=lambda t: -t[2] * len(FAMILIES.get(t[0], ())) * (1 + len(t[3]))))
        self.nproc = max(1, nproc)
        self.live = {}
        self.ctx = mp.get_context('fork')
        self.ntasks = len(tasks)
        self.t0 = time.time()
        self.stats = {'crash': 0, 'timeout': 0}

    def _start(self, task):
        r, w = self.ctx.Pipe(duplex=False)
        p = self.ctx.Process(target=_child, args=(task, w))
        p.daemon = True
        p.start()
        w.close()
        self.live[r] = {'p': p, 'task': task, 'cur': None, 'done': -1,
                        't': time.time(), 'first': True}

    @staticmethod
    def _reap(p, r):
        try:
            os.killpg(p.pid, signal.SIGKILL)
        except (OSError, ProcessLookupError):
            pass
        if p.is_alive():
            p.kill()
        p.join(30)
        try:
            r.close()
        except OSError:
            pass

    def _lost(self, st, status, why):
        family, kname, narr, cfgs = st['task']
        i = st['cur'] if st['cur'] is not None else st['done'] + 1
        out = []
        if i < len(cfgs):
            self.stats[status] += 1
            out.append({'family': family, 'kernel': kname, 'cfg': cfgs[i], 'error': why,
                        'stage': status})
            if i + 1 < len(cfgs):
                self.queue.append((family, kname, narr, cfgs[i + 1:]))
        return out

    def start(self):
        """first batch of children (they compile while the parent does parts A
        and B; their messages wait in the pipes)"""
        while self.queue and len(self.live) < self.nproc:
            self._start(self.queue.popleft())
        return self

    def run(self):
        """generator of records"""
        from multiprocessing.connection import wait
        for st in self.live.values():
            st['t'] = time.time()
        while self.queue or self.live:
            while self.queue and len(self.live) < self.nproc:
                self._start(self.queue.popleft())
            for r in wait(list(self.live), timeout=1.0):
                st = self.live[r]
                try:
                    msg = r.recv()
                except (EOFError, OSError):
                    msg = None
                if msg is None:
                    del self.live[r]
                    st['p'].join(20)
                    code = st['p'].exitcode
                    self._reap(st['p'], r)
                    for rec in self._lost(st, 'crash', 'worker process died: %s' % _signame(code)):
                        yield rec
                    continue
                st['t'] = time.time()
                if msg[0] == 'start':
                    st['cur'] = msg[1]
                elif msg[0] == 'recs':
                    st['cur'] = None
                    st['done'] = msg[1]
                    st['first'] = False
                    for rec in msg[2]:
                        yield rec
                elif msg[0] == 'done':
                    del self.live[r]
                    st['p'].join(20)
                    self._reap(st['p'], r)
            now = time.time()
            for r, st in list(self.live.items()):
                tmo = T_FIRST if st['first'] else T_CFG
                if now - st['t'] > tmo:
                    del self.live[r]
                    self._reap(st['p'], r)
                    for rec in self._lost(st, 'timeout',
                                          'no answer within %d s: worker killed' % tmo):
                        yield rec


def _signame(code):
    if code is None:
        return 'no exit status'
    if code < 0:
        try:
            return 'killed by %s' % signal.Signals(-code).name
        except ValueError:
            return 'killed by signal %d' % -code
    return 'exit status %d' % code


KERNELS_ALL = ['CubicSpline', 'Gaussian', 'QuinticSpline', 'WendlandQuintic',
               'SuperGaussian', 'WendlandQuinticC4', 'WendlandQuinticC6']
KERNELS_1D = ['WendlandQuinticC2_1D', 'WendlandQuinticC4_1D', 'WendlandQuinticC6_1D']
NNPS_OK = ['LinkedListNNPS', 'BoxSortNNPS', 'SpatialHashNNPS']
NNPS_SINGLE = ['ZOrderNNPS', 'CellIndexingNNPS', 'OctreeNNPS', 'StratifiedHashNNPS']


def kernel_dims(kname):
    if kname.endswith('_1D'):
        return [1]
    if kname == 'QuinticSpline':
        return [2]          # the class supports 2D only... checked at run time
    return [1, 2, 3]


def nn_variants(rng):
    """(class, options) such that every value of every option of every class
    occurs, each class with its defaults too"""
    out = []
    for cname, knobs in NNPS_MATRIX.items():
        out.append((cname, {}))
        names = sorted(knobs)
        if not names:
            continue
        width = max(len(knobs[k]) for k in names)
        cols = {}
        for k in names:
            vals = list(knobs[k])
            rng.shuffle(vals)
            cols[k] = vals
        # `width` rows cover every value once; two more shifted passes pair the
        # values of different options differently
        for shift in range(3):
            for i in range(width):
                kn = {}
                for j, k in enumerate(names):
                    v = cols[k]
                    kn[k] = v[(i + shift * j) % len(v)]
                if (cname, kn) not in out:
                    out.append((cname, kn))
    return out


def plan_nn(rng, tier, slots, narr_of, wide=False):
    """the neighbour-search layer: a list of configurations per slot (slot =
    one generated module of the main plan, which they share); classes x
    options x cache on/off x history kinds, all covered on every run"""
    variants = nn_variants(rng)
    reps = 2 if tier == 'quick' and not wide else 4
    jobs = []
    for rep in range(reps):
        for cname, kn in variants:
            for cache in (False, True):
                if cache and cname in NO_CACHE:
                    continue
                jobs.append((cname, kn, cache))
    rng.shuffle(jobs)
    # history kinds: population-changing ones for the caching objects above all
    kinds_pop = [k for k in HIST_KINDS if k not in ('single', 'again', 'move')]
    kinds_sg = ['shrink-grow', 'shrink-grow-more', 'shrink-shrink-grow', 'empty-refill']
    need_sg = {c for c in NNPS_MATRIX if c not in NO_CACHE}    # once per class at least
    out = {s: [] for s in slots}
    order = list(slots)
    rng.shuffle(order)
    for n, (cname, kn, cache) in enumerate(jobs):
        slot = order[n % len(order)]
        fam, kname, narr = slot
        dims = [d for d in (1, 2, 3) if _dim_ok(kname, d)]
        d = rng.choice(dims + [x for x in dims if x > 1])
        n0 = {1: 90, 2: 300, 3: 500}[d]
        ntot = int(n0 * rng.uniform(0.5, 1.2))
        w = [rng.uniform(0.3, 1.0) for _ in range(narr)]
        sizes = [max(4, int(ntot * x / sum(w))) for x in w]
        if cache and cname in need_sg:
            need_sg.discard(cname)
            kind = rng.choice(kinds_sg)
        elif rng.random() < 0.75:
            kind = kinds_pop[(n // 2) % len(kinds_pop)]
        else:
            kind = rng.choice(['single', 'again', 'move'])
        hstyle = rng.choice([0, 2, 3, 4, 2, 3]) if rng.random() < 0.85 else 1
        cfg = {'dim': d, 'sizes': sizes, 'seed': rng.randrange(2 ** 30), 'nnps': cname,
               'knobs': kn, 'cache': cache,
               'fixed_h': rng.random() < 0.25 and kind in ('single', 'again'),
               'sort_gids': rng.random() < 0.25,
               'kernel_radius': rng.random() < 0.7,
               'hstyle': hstyle, 'hscale': rng.choice([0.7, 1.0, 1.3]),
               'wdeltap': rng.choice([0.8, 1.7, -1.0]),
               'hist_kind': kind, 'history': gen_history(rng, kind, sizes), 'layer': 'nnps'}
        out[slot].append(cfg)
    return out


N_LAYERS = [2.0, 1.0, 3.0, 1.5]


def plan_domain(rng, tier, slots, wide=False):
    """the domain-manager layer: a periodic box (1-3 periodic axes, every
    n_layers value) x every NNPS class (defaults and option values) x cache x
    2-3 mutually interacting arrays whose resolutions differ by a ratio 1..8
    (a fine fluid with a few coarse particles), or one array with strongly
    varying h, through histories on the same NNPS / DomainManager objects.
    The images are part of the closed system: sums over the real particles."""
    variants = nn_variants(rng)
    jobs = []
    for cname in NNPS_MATRIX:
        vs = [kn for c, kn in variants if c == cname and kn]
        if tier == 'quick' and not wide:
            jobs += [(cname, {}), (cname, {}), (cname, rng.choice(vs) if vs else {})]
        else:
            jobs += [(cname, {})] * 3 + [(cname, kn) for kn in vs] * 2
    rng.shuffle(jobs)
    multi = [s_ for s_ in slots if s_[2] >= 2]
    single = [s_ for s_ in slots if s_[2] == 1]
    rng.shuffle(multi)
    rng.shuffle(single)
    kinds = ['single', 'move', 'again', 'shrink-grow', 'random', 'grow-shrink', 'move',
             'empty-refill', 'single', 'grow-grow', 'shrink-grow-more']
    out = {s_: [] for s_ in slots}
    for n, (cname, kn) in enumerate(jobs):
        if multi and (n % 5 != 4 or not single):
            slot = multi[n % len(multi)]
        else:
            slot = single[n % len(single)]
        fam, kname, narr = slot
        dims = [d for d in (1, 2, 3) if _dim_ok(kname, d)]
        d = rng.choice(dims + [x for x in dims if x == 2] * 2)
        kernel_radius = rng.random() < 0.8
        k = getattr(KM, kname)(dim=d).radius_scale if kernel_radius else 2.0
        nf = int({1: 200, 2: 700, 3: 1100}[d] * rng.uniform(0.8, 1.3))
        hscale = rng.choice([0.7, 1.0]) if d < 3 else 0.7
        axes = [rng.random() < 0.6 for _ in range(d)]
        if not any(axes):
            axes[rng.randrange(d)] = True
        cfg = {'dim': d, 'seed': rng.randrange(2 ** 30), 'nnps': cname, 'knobs': kn,
               'cache': rng.random() < 0.5, 'fixed_h': False, 'sort_gids': rng.random() < 0.15,
               'kernel_radius': kernel_radius, 'hscale': hscale,
               'wdeltap': rng.choice([0.8, 1.7, -1.0]), 'layer': 'nnps',
               'domain': {'periodic': axes + [False] * (3 - d),
                          'n_layers': N_LAYERS[n % len(N_LAYERS)]}}
        if narr == 1:
            cfg['sizes'] = [nf]
            cfg['hstyle'] = rng.choice([2, 3, 0])
        else:
            # largest supported ratio: the coarse search radius (with the
            # growth one 'move' may cause) stays below the period
            cap = 0.98 * BOX / (k * 1.15 * 1.3 * hscale / nf ** (1.0 / d))
            allowed = [r_ for r_ in H_RATIOS if r_ <= cap]
            if cap < H_RATIOS[-1]:
                allowed.append(math.floor(cap * 10) / 10.0)
            ratios = [1.0] + [rng.choice(allowed[1:] + allowed[-2:]) for _ in range(narr - 1)]
            sizes = [max(5, min(nf, int(nf / r_ ** d * rng.uniform(1.0, 3.0)))) if r_ > 1.0 else nf
                     for r_ in ratios]
            if narr == 3 and rng.random() < 0.5:
                sizes[2] = max(5, sizes[2] // 2)
            o = list(range(narr))
            rng.shuffle(o)
            cfg['sizes'] = [sizes[i] for i in o]
            cfg['hratios'] = [ratios[i] for i in o]
            cfg['hstyle'] = 5
        kind = kinds[n % len(kinds)]
        cfg['hist_kind'] = kind
        cfg['history'] = gen_history(rng, kind, cfg['sizes'])
        out[slot].append(cfg)
    return out


def plan(seed, tier, wide=False):
    rng = random.Random(seed * 104729 + 9)
    tasks = []
    if tier == 'quick' and not wide:
        ks = rng.sample(KERNELS_ALL, 4)
        narrs = {ks[0]: [1], ks[1]: [2], ks[2]: [1], ks[3]: [2]}
        three = {ks[0]: ['wc', 'tv', 'gd'], ks[1]: ['bevi', 'ed', 'sm']}
    else:
        ks = KERNELS_ALL + KERNELS_1D
        narrs = {k: [1, 2, 3] if not k.endswith('_1D') else [1, 2] for k in ks}
        three = {}
    for kname in ks:
        for fam in FAMILIES:
            ns = list(narrs[kname]) + ([3] if fam in three.get(kname, []) else [])
            for narr in ns:
                cfgs = []
                dims = [d for d in [1, 2, 3] if _dim_ok(kname, d)]
                nn_list = NNPS_OK + (NNPS_SINGLE[:2] if narr == 1 else [])
                reps = 1 if tier == 'quick' and not wide else 3
                for rep in range(reps):
                    for d in dims:
                        for nn in nn_list:
                            n0 = {1: 24, 2: 40, 3: 60}[d]
                            sizes = [max(3, int(n0 * rng.uniform(0.4, 1.0) / narr))
                                     for _ in range(narr)]
                            cfgs.append({'dim': d, 'sizes': sizes,
                                         'seed': rng.randrange(2 ** 30),
                                         'nnps': nn, 'cache': rng.random() < 0.5, 'fixed_h': rng.random() < 0.4, 'sort_gids': rng.random() < 0.4,
                                         'wdeltap': rng.choice([0.8, 1.7, -1.0])})
                tasks.append((fam, kname, narr, cfgs))
    # the neighbour-search layer shares the generated modules of the plan above
    rng2 = random.Random(seed * 7919 + 13 + (1 if wide else 0))
    extra = plan_nn(rng2, tier, [t[:3] for t in tasks], None, wide)
    rng3 = random.Random(seed * 15485863 + 29 + (1 if wide else 0))
    extra_d = plan_domain(rng3, tier, [t[:3] for t in tasks], wide)
    tasks = [(f, k, n, cfgs + extra[(f, k, n)] + extra_d[(f, k, n)]) for f, k, n, cfgs in tasks]
    # the model tie of the neighbour cache: one task per NNPS class
    ncase = (6 if tier == 'quick' else 40) * (2 if wide else 1)
    for cname in NNPS_MATRIX:
        if cname in NO_CACHE:
            continue
        tasks.append(('cache-tie', cname, 0, [gen_cache_case(rng2, cname) for _ in range(ncase)]))
    only = os.environ.get('C09_ONLY')          # debugging aid: fam:kernel:narr
    if only:
        f, k, n = only.split(':')
        tasks = [t for t in tasks if t[0] in f.split(',') and t[1] == k and t[2] == int(n)]
    return tasks


def _dim_ok(kname, d):
    try:
        getattr(KM, kname)(dim=d)
        return True
    except Exception:      # noqa
        return False


def start_system(tasks, nproc=int(os.environ.get("C09_NPROC", "16"))):
    """every task (one generated module each) goes to a worker process"""
    return Runner(tasks, nproc).start()


def fail_key(rec, what):
    """class of failing input: failures of the neighbour-search layer (a
    non-default option, the cache, a history) are named after the NNPS class"""
    cfg = rec['cfg']
    if cfg.get('layer') == 'nnps':
        k = 'C09:nnps:%s:%s' % (cfg['nnps'], what)
        if cfg.get('domain'):
            k += ':periodic'
        if cfg.get('cache'):
            k += ':cache'
        if cfg.get('history') and rec.get('m', {}).get('round', 1) > 0:
            k += ':history'
        return k
    return 'C09:%s:%s' % (rec['label'], what)


def show_served(served):
    return '|'.join(';'.join(H.ilist(l) for l in rd) if rd else '-' for rd in served)


def check_cache_tie(R, ties):
    """model `NbrCacheHist.runHist` vs the real NeighborCache objects"""
    if not ties or not os.path.exists(H.vlib.driver_path('C09')):
        return
    out = H.run_model('C09', [t['line'] for t in ties])
    if len(out) != len(ties):
        raise SystemExit('model driver answered %d lines for %d' % (len(out), len(ties)))
    for t, ans in zip(ties, out):
        cfg = t['cfg']
        impl = 'ok ' + show_served(t['served'])
        hist = [o['op'] for o in cfg['history']]
        shrunk = any(a == 'remove' and 'add' in hist[i + 1:] for i, a in enumerate(hist))
        R.case('tie:' + t['line'], any(len(l) > 1 for rd in t['served'] for l in rd), None)
        R.count('cache-tie:' + cfg['nnps'])
        R.count('cache-tie:rounds', len(t['served']))
        R.count('cache-tie:queries', sum(len(rd) for rd in t['served']))
        if shrunk:
            R.count('cache-tie:shrink-then-grow')
        R.d['traces_validated_against_impl'] += 1
        if ans.strip() != impl:
            R.disagree({'cfg': cfg, 'line': t['line'][:3000]}, ans[:1500], impl[:1500],
                       'neighbour-cache-history:%s' % cfg['nnps'])


def check_ghost_tie(R, items):
    """model `PeriodicGhosts.ghostsOfArray` (Float) vs the images the real
    DomainManager appended, as sets of (real particle, x, y, z) bit for bit"""
    if not items or not os.path.exists(H.vlib.driver_path('C09')):
        return
    out = H.run_model('C09', [g['line'] for cfg, g in items])
    if len(out) != len(items):
        raise SystemExit('model driver answered %d lines for %d' % (len(out), len(items)))
    for (cfg, g), ans in zip(items, out):
        toks = ans.split(' ')
        model = None
        if toks[0] == 'ok' and len(toks) == 3:
            ids = [] if toks[1] == '_' else [int(t) for t in toks[1].split(',')]
            fl = [] if toks[2] == '_' else toks[2].split(',')
            if len(fl) == 3 * len(ids):
                model = sorted((i, fl[3 * n], fl[3 * n + 1], fl[3 * n + 2]) for n, i in enumerate(ids))
        made = [tuple(t) for t in g['made']]
        R.case('ghost-tie:%s:%d:%d:%d' % (cfg['seed'], g['round'], g['arr'], len(made)),
               len(made) > 0, None)
        R.count('ghost-tie:arrays')
        R.count('ghost-tie:images', len(made))
        R.d['traces_validated_against_impl'] += 1
        if model != made:
            ex = None
            if model is not None:
                diff = sorted(set(model) ^ set(made))
                ex = {'only-model' if diff[0] in set(model) else 'only-impl': diff[0],
                      'differing': len(diff)} if diff else 'multiplicities differ'
            R.disagree({'cfg': cfg, 'round': g['round'], 'array': g['arr'], 'nreal': g['nreal'],
                        'first-difference': ex, 'line': g['line'][:600]},
                       ans[:300] if model is None else '%d images' % len(model),
                       '%d images' % len(made), 'periodic-ghosts:%s' % cfg['nnps'])


def collect_system(R, runner):
    nfail = 0
    nsys = 0
    per_cfg = {}
    ties = []
    gties = []
    for rec in runner.run():
        cfg = rec['cfg']
        layer = cfg.get('layer') == 'nnps'
        if rec.get('tie'):
            ties.append(rec)
            continue
        if 'error' in rec:
            if rec['stage'] in ('compile', 'harness'):
                for st in runner.live.values():
                    st['p'].kill()
                raise SystemExit('system-level run failed (machinery): %r' % rec)
            # the property demands accelerations for every closed system, every
            # neighbour algorithm: an exception, a crash or a hang is a failure
            nfail += 1
            what = {'crash': 'crash', 'timeout': 'timeout'}.get(rec['stage'], 'raises')
            fam0 = FAMILIES.get(rec['family'], [('-', '-')])[0]
            case = {'part': 'system', 'family': rec['family'], 'kernel': rec['kernel'],
                    'cfg': cfg, 'label': fam0[0], 'tag': fam0[1]}
            R.prop_fail('C09:nnps:%s:%s' % (cfg['nnps'], what), case,
                        'accelerations with sum m a = 0 from %s(%s), cache=%s, history %s' % (
                            cfg['nnps'], cfg.get('knobs') or {}, cfg['cache'],
                            [o['op'] for o in cfg.get('history') or []]),
                        rec['error'])
            R.count('sysN:failed-run:' + what)
            continue
        for g in rec.get('ghost_tie') or []:
            gties.append((cfg, g))
        fp = json.dumps([rec['family'], rec['kernel'], cfg['dim'], cfg['sizes'],
                         cfg['seed'], cfg['nnps'], rec['label'], cfg.get('knobs'),
                         cfg.get('hist_kind')])
        m = rec['m']
        nontrivial = m['scale_all_rounds'] > 0 or TAGINFO[rec['tag']][3] == 'density'
        R.case(fp, nontrivial,
               {'part': 'system', 'family': rec['family'], 'kernel': rec['kernel'],
                'cfg': cfg, 'equation': rec['label'], 'measured': m}
               if R.d['evaluations'] % 997 == 0 else None)
        pre = 'sysN:' if layer else 'sys:'
        R.count(pre + 'eq:' + rec['label'])
        R.count(pre + 'kernel:' + rec['kernel'])
        R.count(pre + 'nnps:' + cfg['nnps'])
        R.count(pre + 'dim:%d' % cfg['dim'])
        R.count(pre + 'narr:%d' % len(cfg['sizes']))
        if layer:
            ck = json.dumps([rec['family'], rec['kernel'], cfg['seed'], cfg['nnps']])
            if ck not in per_cfg:
                per_cfg[ck] = 1
                R.count('sysN:cfg:cache=%d' % bool(cfg['cache']))
                R.count('sysN:cfg:history:' + cfg['hist_kind'])
                R.count('sysN:cfg:rounds', rec['rounds'])
                R.count('sysN:cfg:hstyle:%d' % cfg['hstyle'])
                for k, v in sorted((cfg.get('knobs') or {}).items()):
                    R.count('sysN:cfg:%s:%s=%s' % (cfg['nnps'], k, v))
                if not cfg.get('knobs'):
                    R.count('sysN:cfg:%s:defaults' % cfg['nnps'])
                dom = cfg.get('domain')
                if dom:
                    R.count('domain:cfg')
                    R.count('domain:nnps:' + cfg['nnps'])
                    R.count('domain:periodic-axes:%d-of-%d' % (sum(map(bool, dom['periodic'])), cfg['dim']))
                    R.count('domain:n_layers:%s' % dom['n_layers'])
                    R.count('domain:narr:%d' % len(cfg['sizes']))
                    hr = cfg.get('hratios')
                    R.count('domain:h-ratio:%s' % ('one-array' if not hr else
                                                   '>3' if max(hr) > 3 else '>1' if max(hr) > 1 else '1'))
                    if hr and max(hr) > 2 * dom['n_layers'] - 1:
                        R.count('domain:h-ratio-beyond-2*n_layers-1')
                    R.count('domain:rounds-judged', rec['rounds'])
                    R.count('domain:rounds-planned', rec.get('planned_rounds', rec['rounds']))
                    g = rec.get('ghosts') or []
                    if not any(x and sum(x) for x in g):
                        R.count('domain:no-image-created')
        R.d['traces_validated_against_impl'] += rec['rounds']
        nsys += 1
        if not nontrivial:
            R.count(pre + 'trivial:' + cfg['nnps'])
        for what, demand, observed in rec['bad']:
            nfail += 1
            # the full initial system only with the first failures (replay
            # regenerates it from cfg['seed'] otherwise)
            c = dict(cfg, system=rec['system']) if nfail <= 4 else cfg
            case = {'part': 'system', 'family': rec['family'], 'kernel': rec['kernel'],
                    'cfg': c, 'label': rec['label'], 'tag': rec['tag']}
            R.prop_fail(fail_key(rec, what), case, demand, observed)
    check_cache_tie(R, ties)
    check_ghost_tie(R, gties)
    R.note('system-level oracle: %d generated modules, %d (configuration, equation) runs, '
           '%d crashed, %d timed out, %.0f s wall' % (
               runner.ntasks, nsys, runner.stats['crash'], runner.stats['timeout'],
               time.time() - runner.t0))
    return nfail


# --------------------------------------------------------------------------
# A. translator validation

def _f(rng, lo, hi):
    return rng.uniform(lo, hi)


class LogKernel:
    """wraps a real pysph kernel object, records the calls"""
    def __init__(self, k):
        self.k = k
        self.kw, self.kg, self.kd, self.kh = [], [], [], []

    def KERNEL(self, xij, rij, h):
        w = self.k.kernel(list(xij), rij, h)
        self.kw += [rij, h, w]
        return w

    def GRADIENT(self, xij, rij, h, out):
        g = [0.0, 0.0, 0.0]
        self.k.gradient(list(xij), rij, h, g)
        self.kg += [rij, h] + g
        out[0], out[1], out[2] = g

    def DWDQ(self, rij, h):
        v = self.k.dwdq(rij, h)
        self.kd += [rij, h, v]
        return v

    def GRADH(self, xij, rij, h):
        v = self.k.gradient_h(list(xij), rij, h)
        self.kh += [rij, h, v]
        return v


def py_precomputed(meta, pa, pb, lk):
    """exec the code strings of the real precomputed_symbols() for the pair"""
    ctx = precomputed_symbols()
    ns = {'sqrt': math.sqrt, 'd_idx': 0, 's_idx': 0,
          'KERNEL': lk.KERNEL, 'GRADIENT': lk.GRADIENT, 'DWDQ': lk.DWDQ,
          'GRADH': lk.GRADH, 'DELTAP': lk.k.get_deltap()}
    for sym in meta['precomputed']:
        cb = ctx[sym]
        for nm, default in cb.context.items():
            if nm in meta['precomputed']:      # the symbol's declared default
                ns[nm] = list(default) if isinstance(default, (list, tuple)) else default
    for f, v in pa.items():
        ns['d_' + f] = [v]
    for f, v in pb.items():
        ns['s_' + f] = [v]
    for sym in meta['precomputed']:
        exec(ctx[sym].code, ns)
    return ns


def rand_particle(rng, fields, near=None):
    p = {}
    for f in fields:
        if f in ('x', 'y', 'z'):
            p[f] = rng.uniform(-0.5, 0.5)
        elif f == 'h':
            p[f] = rng.uniform(0.8, 1.6)
        elif f in ('m', 'rho', 'V', 'cs', 'e', 'omega'):
            p[f] = rng.uniform(0.5, 2.0)
        elif f == 'c_wdeltap':
            p[f] = rng.choice([0.8, 1.7, -1.0, 0.0])
        elif f == 'c_n':
            p[f] = rng.choice([4.0, 2.0, 3.5])
        else:
            p[f] = rng.uniform(-1.0, 1.0)
    if near is not None:
        r = rng.random()
        if r < 0.08:            # coincident particles (RIJ < 1e-8 branch)
            for f in ('x', 'y', 'z'):
                p[f] = near[f]
        elif r < 0.2:           # approaching pair more likely
            for f, g in (('u', 'x'), ('v', 'y'), ('w', 'z')):
                p[f] = near[f] + (p[g] - near[g]) * rng.uniform(0.1, 2)
        p['c_wdeltap'] = near['c_wdeltap']
        p['c_n'] = near['c_n']
    return p


def self_values(rng, e):
    sf = [rng.choice([rng.uniform(0.05, 2.0), float(rng.randint(1, 3))]) for _ in e['sf']]
    sb = [rng.random() < 0.5 for _ in e['sb']]
    return sf, sb


def py_loop(cls, e, sf, sb, acc, d, dc, s, pre):
    """run the real Python `loop` body; returns the accumulated d_* values"""
    ns = types.SimpleNamespace()
    for nm, v in zip(e['sf'], sf):
        setattr(ns, nm, v)
    for nm, v in zip(e['sb'], sb):
        setattr(ns, nm, v)
    kw = {'d_idx': 0, 's_idx': 0}
    for nm, v in zip(e['acc'], acc):
        kw[nm] = [v]
    for nm, v in zip(e['d_ro'], d):
        kw[nm] = [v]
    for nm, v in zip(e['dc'], dc):
        kw[nm] = [v]
    for nm, v in zip(e['s'], s):
        kw[nm] = [v]
    i = 0
    for nm in e['pre_s']:
        kw[nm] = pre[i]
        i += 1
    for nm in e['pre_v']:
        kw[nm] = list(pre[i:i + 3])
        i += 3
    args = [kw[a] for a in e['args']]
    cls.loop(ns, *args)
    return [kw[nm][0] for nm in e['acc']]


def same(a, b, ulps=0):
    if a != a and b != b:
        return True
    if ulps == 0:
        return struct.pack('>d', a) == struct.pack('>d', b)
    if a == b:
        return True
    ia = struct.unpack('>q', struct.pack('>d', a))[0]
    ib = struct.unpack('>q', struct.pack('>d', b))[0]
    return abs(ia - ib) <= ulps


def validate_translator(R, meta, seed, ncase):
    rng = random.Random(seed * 31337 + 5)
    mods = _mods()
    fields = meta['pfields']
    names = H.run_model('C09', ['names'])[0].split(' ')
    if names[0] != 'ok' or names[1].split(',') != fields:
        raise SystemExit('driver was built from a different Gen file than the '
                         'translator produces for this tree: %r' % names[:2])
    prenames = names[2].split(',')
    knames = [k for k in KERNELS_ALL]
    lines, expect = [], []
    for e in meta['handled']:
        cls = getattr(mods[e['file']], e['cls'])
        ulps = 2 if e['uses'].get('pow') else 0
        for c in range(ncase):
            sf, sb = self_values(rng, e)
            acc = [rng.choice([0.0, rng.uniform(-1, 1)]) for _ in e['acc']]
            # ---- loop level: independent random scalars
            d = [rng.uniform(0.5, 2) if nm[2:] in ('m', 'rho', 'V', 'cs') else rng.uniform(-1, 1)
                 for nm in e['d_ro']]
            dc = [rng.choice([0.8, -1.0, 4.0]) for _ in e['dc']]
            s = [rng.uniform(0.5, 2) if nm[2:] in ('m', 'rho', 'V', 'cs') else rng.uniform(-1, 1)
                 for nm in e['s']]
            pre = []
            for nm in e['pre_s']:
                pre.append(rng.uniform(0.3, 2.0) if nm not in ('R2IJ', 'RIJ')
                           else rng.choice([rng.uniform(0.01, 2.0), 0.0, 1e-13, 5e-9]))
            for nm in e['pre_v']:
                pre += [rng.uniform(-1, 1) for _ in range(3)]
            try:
                want = py_loop(cls, e, sf, sb, list(acc), d, dc, s, pre)
            except ZeroDivisionError:
                want = None
            if want is not None:
                lines.append('loop tag=%s sf=%s sb=%s acc=%s d=%s dc=%s s=%s pre=%s' % (
                    e['tag'], H.flist(sf), ','.join('1' if b else '0' for b in sb) or '_',
                    H.flist(acc), H.flist(d), H.flist(dc), H.flist(s), H.flist(pre)))
                expect.append((e, 'loop', want, ulps,
                               {'tag': e['tag'], 'sf': sf, 'sb': sb, 'acc': acc, 'd': d,
                                'dc': dc, 's': s, 'pre': pre}))
            # ---- pair level: particles + real kernel
            pa = rand_particle(rng, fields)
            pb = rand_particle(rng, fields, near=pa)
            kname = rng.choice(knames)
            dim = rng.choice([d_ for d_ in (1, 2, 3) if _dim_ok(kname, d_)])
            lk = LogKernel(getattr(KM, kname)(dim=dim))
            try:
                ns = py_precomputed(meta, pa, pb, lk)
                prev = []
                for nm in e['pre_s']:
                    prev.append(ns[nm])
                for nm in e['pre_v']:
                    prev += list(ns[nm])
                want = py_loop(cls, e, sf, sb, list(acc),
                               [pa[nm[2:]] for nm in e['d_ro']],
                               [pa['c_' + nm[2:]] for nm in e['dc']],
                               [pb[nm[2:]] for nm in e['s']], prev)
            except ZeroDivisionError:
                continue
            lines.append('pair tag=%s sf=%s sb=%s acc=%s a=%s b=%s kw=%s kg=%s kd=%s kh=%s deltap=%s' % (
                e['tag'], H.flist(sf), ','.join('1' if b else '0' for b in sb) or '_',
                H.flist(acc), H.flist([pa[f] for f in fields]), H.flist([pb[f] for f in fields]),
                H.flist(lk.kw), H.flist(lk.kg), H.flist(lk.kd), H.flist(lk.kh),
                H.fbits(lk.k.get_deltap())))
            expect.append((e, 'pair', want, ulps,
                           {'tag': e['tag'], 'sf': sf, 'sb': sb, 'acc': acc, 'a': pa,
                            'b': pb, 'kernel': kname, 'dim': dim}))
            if c % 4 == 0:
                # every precomputed symbol of the pair
                wantp = []
                for nm in prenames:
                    if nm[-2:] in ('_0', '_1', '_2') and nm[:-2] in T.VEC_SYMS:
                        wantp.append(ns[nm[:-2]][int(nm[-1])])
                    else:
                        wantp.append(ns[nm])
                lines.append('pre a=%s b=%s kw=%s kg=%s kd=%s kh=%s deltap=%s' % (
                    H.flist([pa[f] for f in fields]), H.flist([pb[f] for f in fields]),
                    H.flist(lk.kw), H.flist(lk.kg), H.flist(lk.kd), H.flist(lk.kh),
                    H.fbits(lk.k.get_deltap())))
                expect.append((dict(e, tag='precomputed'), 'pre', wantp, 0,
                               {'tag': 'precomputed', 'acc': [math.nan] * len(wantp),
                                'a': pa, 'b': pb, 'kernel': kname, 'dim': dim}))
    out = H.run_model('C09', lines)
    if len(out) != len(lines):
        raise SystemExit('model driver answered %d lines for %d' % (len(out), len(lines)))
    nbad = 0
    for (e, level, want, ulps, case), ln, ans in zip(expect, lines, out):
        ok = ans.startswith('ok ')
        got = None
        if ok:
            toks = ans[3:].strip()
            got = [H.bits2f(t) for t in toks.split(',')] if toks != '_' else []
            ok = len(got) == len(want) and all(same(g, w, ulps) for g, w in zip(got, want))
        changed = level == 'pre' or any(not same(w, a0) for w, a0 in zip(want, case['acc']))
        R.case(ln, changed, {'part': 'translator', 'level': level, 'case': case,
                             'python': want, 'lean': got}
               if R.d['evaluations'] % 499 == 0 else None)
        R.count('tr:%s:%s' % (level, e['tag']))
        R.d['traces_validated_against_impl'] += 1
        if not ok:
            nbad += 1
            R.disagree({'level': level, 'case': case, 'line': ln[:2000]},
                       ans[:400], [H.fbits(w) for w in want],
                       'translator-validation:%s:%s' % (level, e['tag']))
    return nbad


# --------------------------------------------------------------------------
# B. the `Radial` assumption on the real kernel classes

def check_kernel_shape(R, seed, n):
    rng = random.Random(seed + 77)
    for kname in KERNELS_ALL + KERNELS_1D:
        for d in (1, 2, 3):
            if not _dim_ok(kname, d):
                continue
            k = getattr(KM, kname)(dim=d)
            for c in range(n):
                h = rng.uniform(0.5, 2.0)
                x = [rng.uniform(-1.5, 1.5) * h if i < d else 0.0 for i in range(3)]
                r = math.sqrt(x[0] * x[0] + x[1] * x[1] + x[2] * x[2])
                mx = [-v for v in x]
                g1, g2 = [0.0] * 3, [0.0] * 3
                k.gradient(list(x), r, h, g1)
                k.gradient(list(mx), r, h, g2)
                w1, w2 = k.kernel(list(x), r, h), k.kernel(list(mx), r, h)
                ok = same(w1, w2) and all(same(a, -b) for a, b in zip(g1, g2))
                # parallel to x
                sc = max(abs(v) for v in g1) * max(abs(v) for v in x)
                for i in range(3):
                    for j in range(i + 1, 3):
                        if abs(g1[i] * x[j] - g1[j] * x[i]) > 1e-14 * sc:
                            ok = False
                R.case('kshape:%s:%d:%d' % (kname, d, c), r > 0, None)
                R.count('kernel-shape:' + kname)
                if not ok:
                    R.disagree({'kernel': kname, 'dim': d, 'x': x, 'r': r, 'h': h},
                               'W even, grad odd and parallel to x',
                               {'W': [w1, w2], 'g(x)': g1, 'g(-x)': g2},
                               'kernel-shape')


# --------------------------------------------------------------------------

def replay(R, rp):
    case = rp['case']
    if case.get('part') != 'system':
        print('replay: not a system-level case')
        return 0
    cfg = case['cfg']
    print('kernel %s, dim %d, arrays %s, %s(%s) cache=%s fixed_h=%s sort_gids=%s, history %s' % (
        case['kernel'], cfg['dim'], cfg['sizes'], cfg['nnps'], cfg.get('knobs') or {},
        cfg['cache'], cfg.get('fixed_h', False), cfg.get('sort_gids', False),
        [(o['op'], o.get('n')) for o in cfg.get('history') or []]))
    if cfg.get('domain'):
        print('periodic box [0, %g] on axes %s, n_layers=%s, h ratios of the arrays %s' % (
            BOX, cfg['domain']['periodic'], cfg['domain']['n_layers'], cfg.get('hratios')))
    # in a child: a crash or a hang of the implementation is an answer too
    runner = Runner([(case['family'], case['kernel'], len(cfg['sizes']), [cfg])], 1)
    recs = list(runner.run())
    nbad = 0
    for rec in recs:
        if 'error' in rec:
            print('DEMAND   accelerations for this closed system')
            print('OBSERVED', rec['error'])
            nbad += 1
            continue
        if rec['bad']:
            print('equation %s, measured on the real code: %s' % (rec['label'], json.dumps(rec['m'])))
        for what, demand, observed in rec['bad']:
            print('DEMAND  ', demand)
            print('OBSERVED', observed)
            nbad += 1
    if not nbad:
        print('all %d equations of the module conserve in all rounds' % len(recs))
    return 1 if nbad else 0


def corpus_tasks():
    """minimised past failures (seeded defects the executed oracle once
    missed), run first on every run: a multi-level StratifiedHashNNPS with a
    sub-division option > 1 on three h populations, and shrink-then-grow
    histories on caching NNPS objects"""
    def hist(n1, nrem, nadd):
        return [{'op': 'remove', 'arr': 0, 'seed': 11, 'n': nrem, 'how': 'stride'},
                {'op': 'add', 'arr': 0, 'seed': 12, 'n': nadd}]
    base = {'dim': 2, 'fixed_h': False, 'sort_gids': False, 'kernel_radius': True,
            'hscale': 1.0, 'wdeltap': 0.8, 'layer': 'nnps'}
    cfgs = [
        dict(base, sizes=[600], seed=3, nnps='StratifiedHashNNPS', cache=False, hstyle=2,
             knobs={'H': 3, 'num_levels': 3}, hist_kind='single', history=[]),
        dict(base, sizes=[400], seed=4, nnps='LinkedListNNPS', cache=True, hstyle=0,
             knobs={}, hist_kind='shrink-grow', history=hist(400, 120, 120)),
        dict(base, sizes=[300], seed=5, nnps='ZOrderNNPS', cache=True, hstyle=3,
             knobs={}, hist_kind='shrink-grow-more', history=hist(300, 100, 180)),
    ]
    # a periodic box with a fine and a coarse array (h ratio beyond
    # 2*n_layers - 1): the image layer has to be sized by the global cell size
    per = dict(base, sizes=[500, 14], seed=6, nnps='LinkedListNNPS', cache=False, hstyle=5,
               hratios=[1.0, 5.0], knobs={}, hist_kind='single', history=[],
               domain={'periodic': [True, True, False], 'n_layers': 2.0})
    per2 = dict(per, seed=7, sizes=[9, 400], hratios=[4.0, 1.0], nnps='ZOrderNNPS', cache=True,
                hist_kind='move', history=[{'op': 'move', 'arr': 1, 'seed': 13}],
                domain={'periodic': [False, True, False], 'n_layers': 1.5})
    return [('wc', 'CubicSpline', 1, cfgs), ('wc', 'CubicSpline', 2, [per, per2])]


def merge_tasks(first, rest):
    """tasks of the same generated module become one task (one compile)"""
    out, pos = [], {}
    for f, k, n, cfgs in list(first) + list(rest):
        if (f, k, n) in pos:
            i = pos[(f, k, n)]
            out[i] = (f, k, n, out[i][3] + list(cfgs))
        else:
            pos[(f, k, n)] = len(out)
            out.append((f, k, n, list(cfgs)))
    return out


def main():
    a = H.args()
    R = H.Result(
        'cases = (A) one generated loop/pair function evaluated at Float vs the Python '
        'loop body on one random input, (B) one kernel-shape probe, (C) one equation '
        'evaluated by the real AccelerationEval on one random closed system '
        '(kernel, dim, NNPS class with its options, cache on/off, 1-3 arrays) in every round of '
        'one history on the same NNPS object (particles removed / added / moved between '
        'evaluations); distinct = distinct input line / configuration; non-trivial = the body '
        'changed an accumulator (A), r > 0 (B), sum m|a| > 0 in some round (C)')
    if a.replay:
        sys.exit(replay(R, json.load(open(a.replay))))
    t0 = time.time()
    # the system-level oracle needs nothing from the translator: start it first
    tasks = merge_tasks(corpus_tasks(), plan(a.seed, a.tier))
    try:
        info = T.analyse(REPO)
        meta = T.public_meta(info)
    except T.TErr as e:
        meta = None
        R.note('translator failed on the current source: %s' % e)
    if meta is not None:
        R.note('equations handled by the translator: ' +
               ', '.join('%s (%s.%s)' % (e['tag'], e['file'], e['cls']) for e in meta['handled']))
        R.note('equations classified out of scope (not claimed): ' +
               '; '.join('%s.%s: %s' % tuple(x) for x in meta['out_of_scope']))
        if meta['failed']:
            R.note('equations the translator could NOT handle: ' +
                   '; '.join('%s %s.%s: %s' % tuple(x) for x in meta['failed']))
        R.count('handled-equations', len(meta['handled']))
        R.count('out-of-scope-equations', len(meta['out_of_scope']))
        R.count('translator-failures', len(meta['failed']))
    translator_broken = any(b.startswith('translator:') for b in a.broken.split(',') if b)
    started = start_system(tasks)
    # meanwhile (the workers are separate processes) parts A and B
    if meta is not None and not translator_broken and \
            os.path.exists(H.vlib.driver_path('C09')) and 'lake-build' not in a.broken:
        try:
            validate_translator(R, meta, a.seed, 40 if a.tier == 'quick' else 400)
        except SystemExit as e:
            if a.broken:
                R.note('translator validation skipped: %s' % e)
            else:
                raise
    check_kernel_shape(R, a.seed, 20 if a.tier == 'quick' else 200)
    collect_system(R, started)
    if (a.broken or R.d['disagreements']) and not R.d['property_failures']:
        # wider failing-input search on the real code
        t1 = time.time()
        wide = plan(a.seed + 1, a.tier, wide=True)
        if a.tier == 'quick':
            rr = random.Random(a.seed)
            wide = [t for t in wide if t[2] <= 2]
            rr.shuffle(wide)
            wide = wide[:64]
        n0 = R.d['evaluations']
        collect_system(R, start_system(wide))
        R.d['search'] = {'extra_modules': len(wide), 'extra_cases': R.d['evaluations'] - n0,
                         'found': len(R.d['property_failures']),
                         'wall_s': round(time.time() - t1)}
    R.note('harness wall %.0f s' % (time.time() - t0))
    R.write(a.out)


if __name__ == '__main__':
    main()
