"""C09 tie + property oracle: pair-symmetric momentum equations.

Three parts (DESIGN.md section 6/C09):

A. translator validation — the generated Lean (`Gen/C09Equations.lean`, run at
   Float through the driver) against the Python `loop` bodies of the scratch
   build executed directly, bit for bit, on random scalars (`loop` level) and
   on random particle pairs with the precomputed symbols exec'd from
   `pysph.sph.equation.precomputed_symbols()` and a real `pysph.base.kernels`
   object (`pair` level; the Lean side sees the kernel as the table of the
   calls the Python side made).
B. model assumption `Radial` on the real kernel classes: W even in x,
   gradient odd in x and parallel to x.
C. the property's own predicate on the REAL compiled code: AccelerationEval
   (run-time code generation, real kernels, real NNPS classes) on random
   closed systems; |sum m a| <= 1e-12 sum m|a|, the angular analogue for the
   central terms, and summation density > 0.  Failures -> R.prop_fail with a
   replayable case.
"""
import concurrent.futures
import inspect
import json
import math
import os
import random
import struct
import sys
import time
import types

import numpy as np

import hcommon as H

H.assert_scratch_import()
sys.path.insert(0, os.path.join(os.path.dirname(os.path.abspath(__file__)),
                                '..', 'translate'))
import c09_equations2lean as T  # noqa: E402

from compyle.api import declare  # noqa: E402,F401
from pysph.base import kernels as KM  # noqa: E402
from pysph.base.utils import get_particle_array  # noqa: E402
from pysph.sph.equation import Equation, Group, precomputed_symbols  # noqa: E402

REPO = os.environ.get('PYSPH_VERIF_SCRATCH_REPO') or os.path.dirname(
    os.path.dirname(os.path.abspath(sys.modules['pysph'].__file__)))
TOL = 1e-12


# --------------------------------------------------------------------------
# equations: how to instantiate them on the real code

def _mods():
    import pysph.sph.wc.basic as wb
    import pysph.sph.basic_equations as be
    import pysph.sph.wc.transport_velocity as tv
    import pysph.sph.wc.edac as ed
    import pysph.sph.wc.viscosity as vi
    import pysph.sph.gas_dynamics.basic as gd
    import pysph.sph.solid_mech.basic as sm
    return {'pysph/sph/wc/basic.py': wb, 'pysph/sph/basic_equations.py': be,
            'pysph/sph/wc/transport_velocity.py': tv, 'pysph/sph/wc/edac.py': ed,
            'pysph/sph/wc/viscosity.py': vi, 'pysph/sph/gas_dynamics/basic.py': gd,
            'pysph/sph/solid_mech/basic.py': sm}


# (label, tag, constructor kwargs as a function of dim, central?)  per family
FAMILIES = {
    'wc': [
        ('WC_MomentumEquation', 'WC_MomentumEquation', lambda d: dict(c0=1.3, alpha=0.7, beta=1.1)),
        ('WC_MomentumEquation/tensile', 'WC_MomentumEquation', lambda d: dict(c0=1.3, alpha=0.7, beta=1.1, tensile_correction=True)),
        ('WC_MomentumEquationDeltaSPH', 'WC_MomentumEquationDeltaSPH', lambda d: dict(rho0=1.1, c0=1.3, alpha=0.4)),
        ('WC_PressureGradientUsingNumberDensity', 'WC_PressureGradientUsingNumberDensity', lambda d: {}),
    ],
    'bevi': [
        ('BE_MonaghanArtificialViscosity', 'BE_MonaghanArtificialViscosity', lambda d: dict(alpha=0.9, beta=1.2)),
        ('VI_LaminarViscosity', 'VI_LaminarViscosity', lambda d: dict(nu=0.3, eta=0.02)),
        ('VI_MonaghanSignalViscosityFluids', 'VI_MonaghanSignalViscosityFluids', lambda d: dict(alpha=0.5, h=0.1)),
        ('VI_ClearyArtificialViscosity', 'VI_ClearyArtificialViscosity', lambda d: dict(dim=d, alpha=0.8)),
        ('VI_LaminarViscosityDeltaSPH', 'VI_LaminarViscosityDeltaSPH', lambda d: dict(dim=d, rho0=1.1, nu=0.3)),
        ('BE_SummationDensity', 'BE_SummationDensity', lambda d: {}),
    ],
    'tv': [
        ('TV_MomentumEquationPressureGradient', 'TV_MomentumEquationPressureGradient', lambda d: dict(pb=0.7)),
        ('TV_MomentumEquationViscosity', 'TV_MomentumEquationViscosity', lambda d: dict(nu=0.3)),
        ('TV_MomentumEquationArtificialViscosity', 'TV_MomentumEquationArtificialViscosity', lambda d: dict(c0=1.3, alpha=0.2)),
        ('TV_MomentumEquationArtificialStress', 'TV_MomentumEquationArtificialStress', lambda d: {}),
        ('TV_SummationDensity', 'TV_SummationDensity', lambda d: {}),
    ],
    'ed': [
        ('ED_MomentumEquation', 'ED_MomentumEquation', lambda d: dict(c0=1.3)),
        # pair-symmetric only for a uniform average pressure (see Props/C09):
        # the arrays carry a uniform pavg
        ('ED_MomentumEquationPressureGradient/uniform-pavg', 'ED_MomentumEquationPressureGradient', lambda d: dict(pb=0.6)),
    ],
    'gd': [
        ('GD_Monaghan92Accelerations', 'GD_Monaghan92Accelerations', lambda d: dict(alpha=1.0, beta=2.0)),
        ('GD_ADKEAccelerations', 'GD_ADKEAccelerations', lambda d: dict(alpha=1.0, beta=2.0, g1=0.2, g2=0.4, k=1.0, eps=0.5)),
        ('GD_MPMAccelerations', 'GD_MPMAccelerations', lambda d: dict(beta=2.0)),
        # the non-default switches (alpha1/alpha2 differ from particle to
        # particle here, as they do once the switch has evolved them)
        ('GD_MPMAccelerations/update-alpha', 'GD_MPMAccelerations',
         lambda d: dict(beta=2.0, update_alpha1=True, update_alpha2=True)),
    ],
    'sm': [
        ('SM_MomentumEquationWithStress', 'SM_MomentumEquationWithStress', lambda d: {}),
    ],
}
TAGINFO = {t[0]: t for t in T.EQUATIONS}      # tag -> (tag, file, cls, kind, central)

EXTRA_PROPS = ('V pavg uhat vhat what auhat avhat awhat dt_cfl dt_force s00 s01 s02 s11 '
               's12 s22 r00 r01 r02 r11 r12 r22 e ae div omega alpha1 alpha2 del2e am '
               'aalpha1 aalpha2').split()
RANDOM_PROPS = {  # name -> (lo, hi)
    'm': (0.5, 2), 'rho': (0.5, 2), 'p': (-1, 2), 'cs': (1, 2), 'u': (-1, 1),
    'v': (-1, 1), 'w': (-1, 1), 'V': (0.5, 2), 'uhat': (-1, 1), 'vhat': (-1, 1),
    'what': (-1, 1), 's00': (-1, 1), 's01': (-1, 1), 's02': (-1, 1),
    's11': (-1, 1), 's12': (-1, 1), 's22': (-1, 1), 'r00': (-1, 1),
    'r01': (-1, 1), 'r02': (-1, 1), 'r11': (-1, 1), 'r12': (-1, 1),
    'r22': (-1, 1), 'e': (0.5, 2), 'div': (-1, 1), 'omega': (0.5, 2),
    'alpha1': (0, 1), 'alpha2': (0, 1),
}


class C09Zero(Equation):
    """harness equation: start every measured equation from zero"""
    def initialize(self, d_idx, d_au, d_av, d_aw, d_auhat, d_avhat, d_awhat):
        d_au[d_idx] = 0.0
        d_av[d_idx] = 0.0
        d_aw[d_idx] = 0.0
        d_auhat[d_idx] = 0.0
        d_avhat[d_idx] = 0.0
        d_awhat[d_idx] = 0.0


class C09Copy(Equation):
    """harness equation: record what the measured equation left behind"""
    def __init__(self, dest, sources, k, n):
        self.k = k
        self.n = n
        super(C09Copy, self).__init__(dest, sources)

    def initialize(self, d_idx, d_au, d_av, d_aw, d_auhat, d_avhat, d_awhat,
                   d_rho, d_c09acc):
        i = declare('int')
        i = 7*(d_idx*self.n + self.k)
        d_c09acc[i] = d_au[d_idx]
        d_c09acc[i+1] = d_av[d_idx]
        d_c09acc[i+2] = d_aw[d_idx]
        d_c09acc[i+3] = d_auhat[d_idx]
        d_c09acc[i+4] = d_avhat[d_idx]
        d_c09acc[i+5] = d_awhat[d_idx]
        d_c09acc[i+6] = d_rho[d_idx]


# --------------------------------------------------------------------------
# C. system-level oracle on the real compiled code

def gen_system(seed, dim, sizes, wdeltap):
    """random closed system as plain dicts (JSON-able)"""
    rng = np.random.RandomState(seed % (2 ** 31))
    ntot = sum(sizes)
    dx = 1.0 / ntot ** (1.0 / dim)
    style = rng.randint(0, 3)
    arrs = []
    for a, n in enumerate(sizes):
        d = {}
        d['x'] = rng.uniform(0, 1, n)
        d['y'] = rng.uniform(0, 1, n) if dim > 1 else np.zeros(n)
        d['z'] = rng.uniform(0, 1, n) if dim > 2 else np.zeros(n)
        if style == 0:
            d['h'] = dx * rng.uniform(1.0, 1.6, n)         # per-particle h
        elif style == 1:
            d['h'] = np.ones(n) * dx * 1.3                 # uniform h
        else:
            d['h'] = dx * rng.choice([0.8, 1.2, 2.0], n)   # strongly varying h
        for p, (lo, hi) in RANDOM_PROPS.items():
            d[p] = rng.uniform(lo, hi, n)
        if dim < 3:
            d['w'] = np.zeros(n)
            d['what'] = np.zeros(n)
        if dim < 2:
            d['v'] = np.zeros(n)
            d['vhat'] = np.zeros(n)
        d['pavg'] = np.ones(n) * 0.37
        arrs.append({k: [float(x) for x in v] for k, v in d.items()})
    return {'dim': dim, 'arrays': arrs, 'wdeltap': wdeltap, 'n_exp': 4.0}


def build_arrays(system, neq):
    pas = []
    for a, d in enumerate(system['arrays']):
        base = {k: np.array(d[k]) for k in ('x', 'y', 'z', 'h', 'm', 'rho', 'p', 'cs', 'u', 'v', 'w')}
        pa = get_particle_array(name='a%d' % a, **base)
        for p in EXTRA_PROPS:
            pa.add_property(p)
            if p in d:
                pa.get_carray(p).get_npy_array()[:] = d[p]
        pa.add_property('c09acc', stride=7 * neq)
        pa.add_constant('wdeltap', system['wdeltap'])
        pa.add_constant('n', system['n_exp'])
        pas.append(pa)
    return pas


def make_eval(pas, family, kernel, dim):
    from pysph.sph.acceleration_eval import AccelerationEval
    from pysph.sph.sph_compiler import SPHCompiler
    mods = _mods()
    names = [p.name for p in pas]
    eqs = FAMILIES[family]
    groups = []
    for k, (label, tag, kw) in enumerate(eqs):
        _, f, cname, kind, central = TAGINFO[tag]
        cls = getattr(mods[f], cname)
        g = [C09Zero(dest=d, sources=None) for d in names]
        g += [cls(dest=d, sources=names, **kw(dim)) for d in names]
        groups.append(Group(equations=g, name='c09_%s_%d' % (family, k)))
        groups.append(Group(equations=[C09Copy(dest=d, sources=None, k=k, n=len(eqs))
                                       for d in names], name='c09_%s_copy%d' % (family, k)))
    ae = AccelerationEval(particle_arrays=pas, equations=groups, kernel=kernel)
    comp = SPHCompiler(ae, integrator=None)
    comp.compile()
    return ae


def measure(pas, family):
    """per equation label: the quantities of the property statement"""
    eqs = FAMILIES[family]
    out = {}
    for k, (label, tag, kw) in enumerate(eqs):
        tot = np.zeros(3)
        tothat = np.zeros(3)
        ab = abhat = 0.0
        ang = np.zeros(3)
        angabs = 0.0
        rhomin = math.inf
        for pa in pas:
            acc = pa.get('c09acc').reshape(-1, len(eqs), 7)[:, k, :]
            m = pa.get('m')
            X = np.c_[pa.get('x'), pa.get('y'), pa.get('z')]
            A = acc[:, :3]
            tot += (m[:, None] * A).sum(axis=0)
            tothat += (m[:, None] * acc[:, 3:6]).sum(axis=0)
            ab += float((m * np.linalg.norm(A, axis=1)).sum())
            abhat += float((m * np.linalg.norm(acc[:, 3:6], axis=1)).sum())
            ang += (m[:, None] * np.cross(X, A)).sum(axis=0)
            angabs += float((m * np.linalg.norm(X, axis=1) * np.linalg.norm(A, axis=1)).sum())
            if len(m):
                rhomin = min(rhomin, float(acc[:, 6].min()))
        out[label] = {'lin': float(np.abs(tot).max()), 'lin_scale': ab,
                      'hat': float(np.abs(tothat).max()), 'hat_scale': abhat,
                      'ang': float(np.abs(ang).max()), 'ang_scale': angabs,
                      'rhomin': rhomin,
                      'finite': bool(np.isfinite(tot).all() and np.isfinite(tothat).all())}
    return out


def judge(label, tag, m):
    """the property statement; returns list of (what, demand, observed)"""
    _, f, cname, kind, central = TAGINFO[tag]
    bad = []
    if kind == 'density':
        if not (m['rhomin'] > 0):
            bad.append(('density', 'summation density > 0 for every particle '
                        '(each sees itself)', 'min rho = %r' % m['rhomin']))
        return bad
    if not m['finite']:
        bad.append(('nonfinite', 'finite accelerations', 'nan/inf in sum m a'))
        return bad
    if not (m['lin'] <= TOL * m['lin_scale']):
        bad.append(('linear', '|sum m a| <= 1e-12 * sum m|a| = %.3e' % (TOL * m['lin_scale']),
                    '|sum m a| = %.3e' % m['lin']))
    if not (m['hat'] <= TOL * m['hat_scale']):
        bad.append(('linear-hat', '|sum m ahat| <= 1e-12 * sum m|ahat| = %.3e' % (TOL * m['hat_scale']),
                    '|sum m ahat| = %.3e' % m['hat']))
    if central and not (m['ang'] <= TOL * m['ang_scale']):
        bad.append(('angular', '|sum m x cross a| <= 1e-12 * sum m|x||a| = %.3e' % (TOL * m['ang_scale']),
                    '|sum m x cross a| = %.3e' % m['ang']))
    return bad


def run_config(ae_cache, family, kname, cfg):
    """cfg: dict(dim, sizes, seed, nnps, cache, wdeltap [, system])"""
    from pysph.base import nnps as NN
    dim = cfg['dim']
    system = cfg.get('system') or gen_system(cfg['seed'], dim, cfg['sizes'], cfg['wdeltap'])
    pas = build_arrays(system, len(FAMILIES[family]))
    kernel = getattr(KM, kname)(dim=dim)
    ae = make_eval(pas, family, kernel, dim)
    if cfg.get('sort_gids'):
        # valid gids, so that the neighbours really are sorted by gid (with the
        # default gid of UINT_MAX sort_gids falls back to the index)
        off = 0
        for pa in pas:
            n = pa.get_number_of_particles()
            pa.get_carray('gid').get_npy_array()[:] = np.arange(off, off + n)[::-1]
            off += n
    # fixed_h only says that h does not change with time; it must not change
    # the (symmetric) neighbour criterion
    nnps = getattr(NN, cfg['nnps'])(dim=dim, particles=pas, cache=cfg['cache'],
                                    fixed_h=bool(cfg.get('fixed_h', False)),
                                    sort_gids=bool(cfg.get('sort_gids', False)))
    nnps.update()
    ae.set_nnps(nnps)
    ae.compute(0.0, 0.1)
    return measure(pas, family), system


def sys_task(task):
    """one worker task = one generated module (family, kernel, #arrays) and
    all its configurations; returns list of records"""
    family, kname, narr, cfgs = task
    devnull = os.open(os.devnull, os.O_WRONLY)
    os.dup2(devnull, 1)          # compiler chatter
    t0 = time.time()
    recs = []
    for cfg in cfgs:
        try:
            meas, system = run_config(None, family, kname, cfg)
        except Exception as e:      # noqa
            recs.append({'family': family, 'kernel': kname, 'cfg': cfg,
                         'error': '%s: %s' % (type(e).__name__, str(e)[:300])})
            continue
        for label, tag, kw in FAMILIES[family]:
            bad = judge(label, tag, meas[label])
            rec = {'family': family, 'kernel': kname, 'cfg': cfg, 'label': label,
                   'tag': tag, 'm': meas[label], 'bad': bad}
            if bad:
                rec['system'] = system
            recs.append(rec)
    return recs, time.time() - t0


KERNELS_ALL = ['CubicSpline', 'Gaussian', 'QuinticSpline', 'WendlandQuintic',
               'SuperGaussian', 'WendlandQuinticC4', 'WendlandQuinticC6']
KERNELS_1D = ['WendlandQuinticC2_1D', 'WendlandQuinticC4_1D', 'WendlandQuinticC6_1D']
NNPS_OK = ['LinkedListNNPS', 'BoxSortNNPS', 'SpatialHashNNPS']
# the z-order family has a known multi-array defect (C01 finding F1): it is
# exercised with one array only
NNPS_SINGLE = ['ZOrderNNPS', 'CellIndexingNNPS', 'OctreeNNPS', 'StratifiedHashNNPS']


def kernel_dims(kname):
    if kname.endswith('_1D'):
        return [1]
    if kname == 'QuinticSpline':
        return [2]          # the class supports 2D only... checked at run time
    return [1, 2, 3]


def plan(seed, tier, wide=False):
    rng = random.Random(seed * 104729 + 9)
    tasks = []
    if tier == 'quick' and not wide:
        ks = rng.sample(KERNELS_ALL, 4)
        narrs = {ks[0]: [1], ks[1]: [2], ks[2]: [1], ks[3]: [2]}
        three = {ks[0]: ['wc', 'tv', 'gd'], ks[1]: ['bevi', 'ed', 'sm']}
    else:
        ks = KERNELS_ALL + KERNELS_1D
        narrs = {k: [1, 2, 3] if not k.endswith('_1D') else [1, 2] for k in ks}
        three = {}
    for kname in ks:
        for fam in FAMILIES:
            ns = list(narrs[kname]) + ([3] if fam in three.get(kname, []) else [])
            for narr in ns:
                cfgs = []
                dims = [d for d in [1, 2, 3] if _dim_ok(kname, d)]
                nn_list = NNPS_OK + (NNPS_SINGLE[:2] if narr == 1 else [])
                reps = 1 if tier == 'quick' and not wide else 3
                for rep in range(reps):
                    for d in dims:
                        for nn in nn_list:
                            n0 = {1: 24, 2: 40, 3: 60}[d]
                            sizes = [max(3, int(n0 * rng.uniform(0.4, 1.0) / narr))
                                     for _ in range(narr)]
                            cfgs.append({'dim': d, 'sizes': sizes,
                                         'seed': rng.randrange(2 ** 30),
                                         'nnps': nn, 'cache': rng.random() < 0.5, 'fixed_h': rng.random() < 0.4, 'sort_gids': rng.random() < 0.4,
                                         'wdeltap': rng.choice([0.8, 1.7, -1.0])})
                tasks.append((fam, kname, narr, cfgs))
    only = os.environ.get('C09_ONLY')          # debugging aid: fam:kernel:narr
    if only:
        f, k, n = only.split(':')
        tasks = [t for t in tasks if t[0] in f.split(',') and t[1] == k and t[2] == int(n)]
    return tasks


def _dim_ok(kname, d):
    try:
        getattr(KM, kname)(dim=d)
        return True
    except Exception:      # noqa
        return False


def start_system(tasks, nproc=int(os.environ.get("C09_NPROC", "16"))):
    """submit every task (one generated module each) to worker processes"""
    tasks = sorted(tasks, key=lambda t: -t[2] * len(FAMILIES[t[0]]))   # longest first
    ex = concurrent.futures.ProcessPoolExecutor(max_workers=nproc)
    return ex, [ex.submit(sys_task, t) for t in tasks], time.time()


def collect_system(R, started):
    ex, futs, t0 = started
    nfail = 0
    for fut in futs:
        recs, dt = fut.result()
        for rec in recs:
            if 'error' in rec:
                ex.shutdown(wait=False, cancel_futures=True)
                raise SystemExit('system-level run failed (machinery): %r' % rec)
            cfg = rec['cfg']
            fp = json.dumps([rec['family'], rec['kernel'], cfg['dim'], cfg['sizes'],
                             cfg['seed'], cfg['nnps'], rec['label']])
            m = rec['m']
            nontrivial = m['lin_scale'] > 0 or TAGINFO[rec['tag']][3] == 'density'
            R.case(fp, nontrivial,
                   {'part': 'system', 'family': rec['family'], 'kernel': rec['kernel'],
                    'cfg': cfg, 'equation': rec['label'], 'measured': m}
                   if R.d['evaluations'] % 997 == 0 else None)
            R.count('sys:eq:' + rec['label'])
            R.count('sys:kernel:' + rec['kernel'])
            R.count('sys:nnps:' + cfg['nnps'])
            R.count('sys:dim:%d' % cfg['dim'])
            R.count('sys:narr:%d' % len(cfg['sizes']))
            R.d['traces_validated_against_impl'] += 1
            for what, demand, observed in rec['bad']:
                nfail += 1
                case = {'part': 'system', 'family': rec['family'], 'kernel': rec['kernel'],
                        'cfg': dict(cfg, system=rec['system']), 'label': rec['label'],
                        'tag': rec['tag']}
                R.prop_fail('C09:%s:%s' % (rec['label'], what), case, demand, observed)
    ex.shutdown()
    R.note('system-level oracle: %d generated modules, %.0f s wall' % (len(futs), time.time() - t0))
    return nfail


# --------------------------------------------------------------------------
# A. translator validation

def _f(rng, lo, hi):
    return rng.uniform(lo, hi)


class LogKernel:
    """wraps a real pysph kernel object, records the calls"""
    def __init__(self, k):
        self.k = k
        self.kw, self.kg, self.kd, self.kh = [], [], [], []

    def KERNEL(self, xij, rij, h):
        w = self.k.kernel(list(xij), rij, h)
        self.kw += [rij, h, w]
        return w

    def GRADIENT(self, xij, rij, h, out):
        g = [0.0, 0.0, 0.0]
        self.k.gradient(list(xij), rij, h, g)
        self.kg += [rij, h] + g
        out[0], out[1], out[2] = g

    def DWDQ(self, rij, h):
        v = self.k.dwdq(rij, h)
        self.kd += [rij, h, v]
        return v

    def GRADH(self, xij, rij, h):
        v = self.k.gradient_h(list(xij), rij, h)
        self.kh += [rij, h, v]
        return v


def py_precomputed(meta, pa, pb, lk):
    """exec the code strings of the real precomputed_symbols() for the pair"""
    ctx = precomputed_symbols()
    ns = {'sqrt': math.sqrt, 'd_idx': 0, 's_idx': 0,
          'KERNEL': lk.KERNEL, 'GRADIENT': lk.GRADIENT, 'DWDQ': lk.DWDQ,
          'GRADH': lk.GRADH, 'DELTAP': lk.k.get_deltap()}
    for sym in meta['precomputed']:
        cb = ctx[sym]
        for nm, default in cb.context.items():
            if nm in meta['precomputed']:      # the symbol's declared default
                ns[nm] = list(default) if isinstance(default, (list, tuple)) else default
    for f, v in pa.items():
        ns['d_' + f] = [v]
    for f, v in pb.items():
        ns['s_' + f] = [v]
    for sym in meta['precomputed']:
        exec(ctx[sym].code, ns)
    return ns


def rand_particle(rng, fields, near=None):
    p = {}
    for f in fields:
        if f in ('x', 'y', 'z'):
            p[f] = rng.uniform(-0.5, 0.5)
        elif f == 'h':
            p[f] = rng.uniform(0.8, 1.6)
        elif f in ('m', 'rho', 'V', 'cs', 'e', 'omega'):
            p[f] = rng.uniform(0.5, 2.0)
        elif f == 'c_wdeltap':
            p[f] = rng.choice([0.8, 1.7, -1.0, 0.0])
        elif f == 'c_n':
            p[f] = rng.choice([4.0, 2.0, 3.5])
        else:
            p[f] = rng.uniform(-1.0, 1.0)
    if near is not None:
        r = rng.random()
        if r < 0.08:            # coincident particles (RIJ < 1e-8 branch)
            for f in ('x', 'y', 'z'):
                p[f] = near[f]
        elif r < 0.2:           # approaching pair more likely
            for f, g in (('u', 'x'), ('v', 'y'), ('w', 'z')):
                p[f] = near[f] + (p[g] - near[g]) * rng.uniform(0.1, 2)
        p['c_wdeltap'] = near['c_wdeltap']
        p['c_n'] = near['c_n']
    return p


def self_values(rng, e):
    sf = [rng.choice([rng.uniform(0.05, 2.0), float(rng.randint(1, 3))]) for _ in e['sf']]
    sb = [rng.random() < 0.5 for _ in e['sb']]
    return sf, sb


def py_loop(cls, e, sf, sb, acc, d, dc, s, pre):
    """run the real Python `loop` body; returns the accumulated d_* values"""
    ns = types.SimpleNamespace()
    for nm, v in zip(e['sf'], sf):
        setattr(ns, nm, v)
    for nm, v in zip(e['sb'], sb):
        setattr(ns, nm, v)
    kw = {'d_idx': 0, 's_idx': 0}
    for nm, v in zip(e['acc'], acc):
        kw[nm] = [v]
    for nm, v in zip(e['d_ro'], d):
        kw[nm] = [v]
    for nm, v in zip(e['dc'], dc):
        kw[nm] = [v]
    for nm, v in zip(e['s'], s):
        kw[nm] = [v]
    i = 0
    for nm in e['pre_s']:
        kw[nm] = pre[i]
        i += 1
    for nm in e['pre_v']:
        kw[nm] = list(pre[i:i + 3])
        i += 3
    args = [kw[a] for a in e['args']]
    cls.loop(ns, *args)
    return [kw[nm][0] for nm in e['acc']]


def same(a, b, ulps=0):
    if a != a and b != b:
        return True
    if ulps == 0:
        return struct.pack('>d', a) == struct.pack('>d', b)
    if a == b:
        return True
    ia = struct.unpack('>q', struct.pack('>d', a))[0]
    ib = struct.unpack('>q', struct.pack('>d', b))[0]
    return abs(ia - ib) <= ulps


def validate_translator(R, meta, seed, ncase):
    rng = random.Random(seed * 31337 + 5)
    mods = _mods()
    fields = meta['pfields']
    names = H.run_model('C09', ['names'])[0].split(' ')
    if names[0] != 'ok' or names[1].split(',') != fields:
        raise SystemExit('driver was built from a different Gen file than the '
                         'translator produces for this tree: %r' % names[:2])
    prenames = names[2].split(',')
    knames = [k for k in KERNELS_ALL]
    lines, expect = [], []
    for e in meta['handled']:
        cls = getattr(mods[e['file']], e['cls'])
        ulps = 2 if e['uses'].get('pow') else 0
        for c in range(ncase):
            sf, sb = self_values(rng, e)
            acc = [rng.choice([0.0, rng.uniform(-1, 1)]) for _ in e['acc']]
            # ---- loop level: independent random scalars
            d = [rng.uniform(0.5, 2) if nm[2:] in ('m', 'rho', 'V', 'cs') else rng.uniform(-1, 1)
                 for nm in e['d_ro']]
            dc = [rng.choice([0.8, -1.0, 4.0]) for _ in e['dc']]
            s = [rng.uniform(0.5, 2) if nm[2:] in ('m', 'rho', 'V', 'cs') else rng.uniform(-1, 1)
                 for nm in e['s']]
            pre = []
            for nm in e['pre_s']:
                pre.append(rng.uniform(0.3, 2.0) if nm not in ('R2IJ', 'RIJ')
                           else rng.choice([rng.uniform(0.01, 2.0), 0.0, 1e-13, 5e-9]))
            for nm in e['pre_v']:
                pre += [rng.uniform(-1, 1) for _ in range(3)]
            try:
                want = py_loop(cls, e, sf, sb, list(acc), d, dc, s, pre)
            except ZeroDivisionError:
                want = None
            if want is not None:
                lines.append('loop tag=%s sf=%s sb=%s acc=%s d=%s dc=%s s=%s pre=%s' % (
                    e['tag'], H.flist(sf), ','.join('1' if b else '0' for b in sb) or '_',
                    H.flist(acc), H.flist(d), H.flist(dc), H.flist(s), H.flist(pre)))
                expect.append((e, 'loop', want, ulps,
                               {'tag': e['tag'], 'sf': sf, 'sb': sb, 'acc': acc, 'd': d,
                                'dc': dc, 's': s, 'pre': pre}))
            # ---- pair level: particles + real kernel
            pa = rand_particle(rng, fields)
            pb = rand_particle(rng, fields, near=pa)
            kname = rng.choice(knames)
            dim = rng.choice([d_ for d_ in (1, 2, 3) if _dim_ok(kname, d_)])
            lk = LogKernel(getattr(KM, kname)(dim=dim))
            try:
                ns = py_precomputed(meta, pa, pb, lk)
                prev = []
                for nm in e['pre_s']:
                    prev.append(ns[nm])
                for nm in e['pre_v']:
                    prev += list(ns[nm])
                want = py_loop(cls, e, sf, sb, list(acc),
                               [pa[nm[2:]] for nm in e['d_ro']],
                               [pa['c_' + nm[2:]] for nm in e['dc']],
                               [pb[nm[2:]] for nm in e['s']], prev)
            except ZeroDivisionError:
                continue
            lines.append('pair tag=%s sf=%s sb=%s acc=%s a=%s b=%s kw=%s kg=%s kd=%s kh=%s deltap=%s' % (
                e['tag'], H.flist(sf), ','.join('1' if b else '0' for b in sb) or '_',
                H.flist(acc), H.flist([pa[f] for f in fields]), H.flist([pb[f] for f in fields]),
                H.flist(lk.kw), H.flist(lk.kg), H.flist(lk.kd), H.flist(lk.kh),
                H.fbits(lk.k.get_deltap())))
            expect.append((e, 'pair', want, ulps,
                           {'tag': e['tag'], 'sf': sf, 'sb': sb, 'acc': acc, 'a': pa,
                            'b': pb, 'kernel': kname, 'dim': dim}))
            if c % 4 == 0:
                # every precomputed symbol of the pair
                wantp = []
                for nm in prenames:
                    if nm[-2:] in ('_0', '_1', '_2') and nm[:-2] in T.VEC_SYMS:
                        wantp.append(ns[nm[:-2]][int(nm[-1])])
                    else:
                        wantp.append(ns[nm])
                lines.append('pre a=%s b=%s kw=%s kg=%s kd=%s kh=%s deltap=%s' % (
                    H.flist([pa[f] for f in fields]), H.flist([pb[f] for f in fields]),
                    H.flist(lk.kw), H.flist(lk.kg), H.flist(lk.kd), H.flist(lk.kh),
                    H.fbits(lk.k.get_deltap())))
                expect.append((dict(e, tag='precomputed'), 'pre', wantp, 0,
                               {'tag': 'precomputed', 'acc': [math.nan] * len(wantp),
                                'a': pa, 'b': pb, 'kernel': kname, 'dim': dim}))
    out = H.run_model('C09', lines)
    if len(out) != len(lines):
        raise SystemExit('model driver answered %d lines for %d' % (len(out), len(lines)))
    nbad = 0
    for (e, level, want, ulps, case), ln, ans in zip(expect, lines, out):
        ok = ans.startswith('ok ')
        got = None
        if ok:
            toks = ans[3:].strip()
            got = [H.bits2f(t) for t in toks.split(',')] if toks != '_' else []
            ok = len(got) == len(want) and all(same(g, w, ulps) for g, w in zip(got, want))
        changed = level == 'pre' or any(not same(w, a0) for w, a0 in zip(want, case['acc']))
        R.case(ln, changed, {'part': 'translator', 'level': level, 'case': case,
                             'python': want, 'lean': got}
               if R.d['evaluations'] % 499 == 0 else None)
        R.count('tr:%s:%s' % (level, e['tag']))
        R.d['traces_validated_against_impl'] += 1
        if not ok:
            nbad += 1
            R.disagree({'level': level, 'case': case, 'line': ln[:2000]},
                       ans[:400], [H.fbits(w) for w in want],
                       'translator-validation:%s:%s' % (level, e['tag']))
    return nbad


# --------------------------------------------------------------------------
# B. the `Radial` assumption on the real kernel classes

def check_kernel_shape(R, seed, n):
    rng = random.Random(seed + 77)
    for kname in KERNELS_ALL + KERNELS_1D:
        for d in (1, 2, 3):
            if not _dim_ok(kname, d):
                continue
            k = getattr(KM, kname)(dim=d)
            for c in range(n):
                h = rng.uniform(0.5, 2.0)
                x = [rng.uniform(-1.5, 1.5) * h if i < d else 0.0 for i in range(3)]
                r = math.sqrt(x[0] * x[0] + x[1] * x[1] + x[2] * x[2])
                mx = [-v for v in x]
                g1, g2 = [0.0] * 3, [0.0] * 3
                k.gradient(list(x), r, h, g1)
                k.gradient(list(mx), r, h, g2)
                w1, w2 = k.kernel(list(x), r, h), k.kernel(list(mx), r, h)
                ok = same(w1, w2) and all(same(a, -b) for a, b in zip(g1, g2))
                # parallel to x
                sc = max(abs(v) for v in g1) * max(abs(v) for v in x)
                for i in range(3):
                    for j in range(i + 1, 3):
                        if abs(g1[i] * x[j] - g1[j] * x[i]) > 1e-14 * sc:
                            ok = False
                R.case('kshape:%s:%d:%d' % (kname, d, c), r > 0, None)
                R.count('kernel-shape:' + kname)
                if not ok:
                    R.disagree({'kernel': kname, 'dim': d, 'x': x, 'r': r, 'h': h},
                               'W even, grad odd and parallel to x',
                               {'W': [w1, w2], 'g(x)': g1, 'g(-x)': g2},
                               'kernel-shape')


# --------------------------------------------------------------------------

def replay(R, rp):
    case = rp['case']
    if case.get('part') != 'system':
        print('replay: not a system-level case')
        return 0
    cfg = case['cfg']
    meas, system = run_config(None, case['family'], case['kernel'], cfg)
    bad = judge(case['label'], case['tag'], meas[case['label']])
    print('equation %s, kernel %s, dim %d, nnps %s, arrays %s' % (
        case['label'], case['kernel'], cfg['dim'], cfg['nnps'], cfg['sizes']))
    print('measured on the real code:', json.dumps(meas[case['label']]))
    for what, demand, observed in bad:
        print('DEMAND  ', demand)
        print('OBSERVED', observed)
    return 1 if bad else 0


def corpus_tasks():
    """minimised past failures; run first (none recorded on the clean tree)"""
    return []


def main():
    a = H.args()
    R = H.Result(
        'cases = (A) one generated loop/pair function evaluated at Float vs the Python '
        'loop body on one random input, (B) one kernel-shape probe, (C) one equation '
        'evaluated by the real AccelerationEval on one random closed system '
        '(kernel, dim, NNPS class, 1-3 arrays); distinct = distinct input line / '
        'configuration; non-trivial = the body changed an accumulator (A), r > 0 (B), '
        'sum m|a| > 0 (C)')
    if a.replay:
        sys.exit(replay(R, json.load(open(a.replay))))
    t0 = time.time()
    # the system-level oracle needs nothing from the translator: start it first
    tasks = corpus_tasks() + plan(a.seed, a.tier)
    try:
        info = T.analyse(REPO)
        meta = T.public_meta(info)
    except T.TErr as e:
        meta = None
        R.note('translator failed on the current source: %s' % e)
    if meta is not None:
        R.note('equations handled by the translator: ' +
               ', '.join('%s (%s.%s)' % (e['tag'], e['file'], e['cls']) for e in meta['handled']))
        R.note('equations classified out of scope (not claimed): ' +
               '; '.join('%s.%s: %s' % tuple(x) for x in meta['out_of_scope']))
        if meta['failed']:
            R.note('equations the translator could NOT handle: ' +
                   '; '.join('%s %s.%s: %s' % tuple(x) for x in meta['failed']))
        R.count('handled-equations', len(meta['handled']))
        R.count('out-of-scope-equations', len(meta['out_of_scope']))
        R.count('translator-failures', len(meta['failed']))
    translator_broken = any(b.startswith('translator:') for b in a.broken.split(',') if b)
    started = start_system(tasks)
    # meanwhile (the workers are separate processes) parts A and B
    if meta is not None and not translator_broken and \
            os.path.exists(H.vlib.driver_path('C09')) and 'lake-build' not in a.broken:
        try:
            validate_translator(R, meta, a.seed, 40 if a.tier == 'quick' else 400)
        except SystemExit as e:
            if a.broken:
                R.note('translator validation skipped: %s' % e)
            else:
                raise
    check_kernel_shape(R, a.seed, 20 if a.tier == 'quick' else 200)
    collect_system(R, started)
    if (a.broken or R.d['disagreements']) and not R.d['property_failures']:
        # wider failing-input search on the real code
        t1 = time.time()
        wide = plan(a.seed + 1, a.tier, wide=True)
        if a.tier == 'quick':
            rr = random.Random(a.seed)
            wide = [t for t in wide if t[2] <= 2]
            rr.shuffle(wide)
            wide = wide[:64]
        n0 = R.d['evaluations']
        collect_system(R, start_system(wide))
        R.d['search'] = {'extra_modules': len(wide), 'extra_cases': R.d['evaluations'] - n0,
                         'found': len(R.d['property_failures']),
                         'wall_s': round(time.time() - t1)}
    R.note('harness wall %.0f s' % (time.time() - t0))
    R.write(a.out)


if __name__ == '__main__':
    main()
