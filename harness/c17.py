"""C17 correspondence + property oracle: spatial re-ordering.

impl : <NNPS>.get_spatially_ordered_indices, NNPS.spatially_order_particles,
       Solver.reorder_particles               (scratch build of /repo)
model: lean PysphVerif.Model.Reorder through model_c17 (integers, exact)
oracle: the property statement evaluated with numpy directly on the real
       arrays: index list is a permutation; multiset of whole particles
       unchanged (all properties, every stride component); Local particles
       are exactly the first num_real_particles slots; neighbour queries after
       the update that follows are exact against brute force.

Histories on ONE search structure (round 2, seeds A2/B2): between the
re-orderings of a case the arrays are edited -- particles added
(add_particles / append_parray) and removed, so that the particle count is
not the one the NNPS object saw when it was constructed, also through the
ghosts a periodic DomainManager makes in its first update(); properties
(scalar and strided, every C type) added (add_property / ensure_properties /
append_parray of an array with extra properties) and removed -- then the
structure is updated and the arrays re-ordered again.  Every particle carries
a unique id that is copied into every component of every property except
x, y, z, h, tag, so a property that did not travel with its particle shows.
All oracles run after every re-ordering, for the CURRENT particle count and
the CURRENT property set.

The cell id / key / octant of each particle (geometry, C01's subject) is
recomputed here from the positions and the public geometry of the search
structure (xmin, cell_size, ncells_per_dim, octree node boxes) with the same
double operations, and handed to the model.
"""
import json
import math
import os
import random
import subprocess
import sys

# the octree builders use OpenMP; spinning waits on a busy machine cost
# seconds per build.  (Read by libgomp when pysph's extensions are loaded.)
os.environ.setdefault('OMP_WAIT_POLICY', 'passive')
os.environ.setdefault('OMP_NUM_THREADS', '3')

import numpy as np  # noqa: E402

import hcommon as H

H.assert_scratch_import()
from cyarray.api import LongArray, UIntArray  # noqa: E402
from pysph.base.utils import get_particle_array  # noqa: E402
from pysph.base import nnps as NN  # noqa: E402
from pysph.base.nnps_base import NNPS as NNPSBase  # noqa: E402
from pysph.base.nnps_base import DomainManager  # noqa: E402
from pysph.base.octree import Octree, CompressedOctree  # noqa: E402
from pysph.solver.solver import Solver  # noqa: E402

# family of the traversal that each class's get_spatially_ordered_indices is
FAMILY = {
    'LinkedListNNPS': 'll', 'BoxSortNNPS': 'll',
    'ZOrderNNPS': 'sort', 'ExtendedZOrderNNPS': 'sort',
    'StratifiedSFCNNPS': 'sort',
    'OctreeNNPS': 'oct', 'CompressedOctreeNNPS': 'oct',
    'CellIndexingNNPS': 'ci',
}
SCALE = 1024.0     # doubles on the grid k/1024 travel as integers


def discover():
    """every CPU NNPS class whose get_spatially_ordered_indices is not the
    NotImplemented base method"""
    out = []
    for nm in sorted(dir(NN)):
        c = getattr(NN, nm)
        if not (isinstance(c, type) and issubclass(c, NNPSBase)):
            continue
        if 'GPU' in nm or c is NNPSBase or nm == 'NNPS':
            continue
        m = getattr(c, 'get_spatially_ordered_indices', None)
        if m is None:
            continue
        if m is getattr(NNPSBase, 'get_spatially_ordered_indices'):
            continue
        # cpdef overrides are distinct method descriptors; SpatialHash etc.
        # inherit the base one.
        out.append(nm)
    return out


# ---------------------------------------------------------------- cases

# properties that may be added to / removed from an array AFTER the search
# structure was made: (name, C type, stride)
LATE = [('T', 'double', 1), ('V3', 'double', 3), ('Q', 'int', 1),
        ('W2', 'float', 2), ('K', 'long', 1), ('G4', 'unsigned int', 4),
        # names of the construction-time extras, possibly with another shape
        ('A', 'double', 3), ('A', 'double', 1), ('S', 'int', 2),
        ('L', 'long', 1), ('U', 'unsigned int', 4), ('F', 'float', 2),
        ('F', 'float', 1), ('D9', 'double', 9), ('S', 'long', 3)]
# never edited / never rewritten with the particle's id
GEOM = ('x', 'y', 'z', 'h', 'tag')


def gen_edits(rng, dim, ext, narr, rounds, periodic):
    """what happens to the arrays before each re-ordering of the history"""
    out = []
    for r in range(rounds):
        ops = []
        if rng.random() < (0.55 if r == 0 else 0.8):
            for _ in range(rng.choice([1, 1, 2, 2, 3])):
                ai = rng.randrange(narr)
                kind = rng.choice(['add', 'add', 'append', 'remove', 'remove',
                                   'addprop', 'addprop', 'ensure', 'rmprop'])
                if kind in ('add', 'append'):
                    m = rng.choice([1, 1, 2, 3, 5, 8, 13])
                    pts = [[rng.randrange(ext) if k < dim else 0
                            for k in range(3)] for _ in range(m)]
                    op = {'op': kind, 'a': ai, 'pts': pts,
                          'h': [rng.choice([8, 12, 16]) for _ in range(m)],
                          'tag': [rng.choice([0, 0, 0, 1] if periodic else
                                             [0, 0, 0, 1, 2])
                                  for _ in range(m)]}
                    if kind == 'append' and rng.random() < 0.6:
                        op['new'] = [list(rng.choice(LATE))]
                    ops.append(op)
                elif kind == 'remove':
                    ops.append({'op': 'remove', 'a': ai,
                                'frac': rng.choice([0.1, 0.3, 0.5, 0.9]),
                                'seed': rng.randrange(1 << 20)})
                elif kind == 'addprop':
                    ops.append({'op': 'addprop', 'a': ai,
                                'prop': list(rng.choice(LATE))})
                elif kind == 'ensure':
                    ops.append({'op': 'ensure', 'a': ai,
                                'props': [list(q) for q in
                                          rng.sample(LATE[:6], rng.choice([1, 2, 3]))]})
                else:
                    ops.append({'op': 'rmprop', 'a': ai,
                                'name': rng.choice(LATE)[0]})
        out.append({'ops': ops, 'update': rng.random() < 0.6})
    return out


def gen_case(rng, cls, big=False, history=None):
    if history is None:
        history = rng.random() < 0.5
    periodic = history and rng.random() < 0.3
    dim = rng.choice([1, 2, 2, 3, 3])
    if periodic and dim == 3 and not big:
        dim = 2
    narr = rng.choice([1, 1, 2, 2, 3])
    style = rng.choice(['uniform', 'uniform', 'clustered', 'lattice',
                        'coincident'])
    hstyle = rng.choice(['const', 'const', 'two', 'var'])
    ext = rng.choice([64, 128, 256, 256])        # extent in units of 1/64
    if periodic:
        ext = rng.choice([128, 256])
    arrays = []
    for a in range(narr):
        n = rng.choice([1, 2, 3, 5, 9, 17, 30, 45] + ([80, 150] if big else [60]))
        if periodic:
            n = min(n, 45)
        if rng.random() < 0.05:
            n = rng.choice([1, 2])
        pts = []
        if style == 'clustered':
            cen = [[rng.randrange(ext) for _ in range(3)] for _ in range(3)]
        for i in range(n):
            if style == 'uniform':
                p = [rng.randrange(ext) for _ in range(3)]
            elif style == 'clustered':
                c = rng.choice(cen)
                p = [min(ext - 1, max(0, c[k] + rng.randrange(-12, 13)))
                     for k in range(3)]
            elif style == 'lattice':
                p = [8 * rng.randrange(ext // 8) for _ in range(3)]
            else:
                p = [rng.randrange(ext) for _ in range(3)]
                if pts and rng.random() < 0.3:
                    p = list(rng.choice(pts))
            pts.append(p)
        for p in pts:
            for k in range(dim, 3):
                p[k] = 0
        if hstyle == 'const':
            hv = rng.choice([8, 12, 16, 24])
            hs = [hv] * n
        elif hstyle == 'two':
            h1, h2 = rng.choice([(8, 16), (12, 24), (6, 24)])
            hs = [rng.choice([h1, h2]) for _ in range(n)]
        else:
            hs = [rng.choice([6, 8, 10, 12, 16, 20, 24]) for _ in range(n)]
        tagstyle = rng.choice(['local', 'ghosts', 'ghosts', 'mixed', 'mostly-ghost'])
        if periodic:
            # the domain manager owns the Ghost tag (it removes and re-makes
            # all Ghost particles in every update): Local / Remote only
            tagstyle = rng.choice(['local', 'remote'])
        if tagstyle == 'remote':
            tags = [0 if rng.random() < 0.8 else 1 for _ in range(n)]
        elif tagstyle == 'local':
            tags = [0] * n
        elif tagstyle == 'ghosts':
            tags = [0 if rng.random() < 0.7 else 2 for _ in range(n)]
        elif tagstyle == 'mixed':
            tags = [rng.choice([0, 0, 0, 1, 2]) for _ in range(n)]
        else:
            tags = [rng.choice([0, 2, 2, 1]) for _ in range(n)]
        extra = []
        for nm, ty, st in (('A', 'double', 3), ('S', 'int', 2),
                           ('L', 'long', 1), ('U', 'unsigned int', 4),
                           ('F', 'float', 2), ('D9', 'double', 9)):
            if rng.random() < 0.5:
                extra.append([nm, ty, st])
        arrays.append({'name': 'a%d' % a, 'pts': pts, 'h': hs, 'tag': tags,
                       'extra': extra})
    opts = {}
    if cls in ('OctreeNNPS', 'CompressedOctreeNNPS'):
        opts['leaf_max_particles'] = rng.choice([2, 4, 10, 10])
        opts['test_parallel'] = rng.random() < 0.5
    if cls == 'ExtendedZOrderNNPS':
        opts['H'] = rng.choice([2, 3, 3])
    if cls == 'StratifiedSFCNNPS':
        opts['num_levels'] = rng.choice([1, 1, 2, 3])
    if cls in ('LinkedListNNPS',):
        opts['fixed_h'] = rng.random() < 0.3
    opts['cache'] = rng.random() < 0.3
    rounds = rng.choice([1, 2, 3])
    if history:
        rounds = rng.choice([2, 3, 3, 4])
    moves = []
    for r in range(rounds):
        if r > 0 and rng.random() < 0.6:
            moves.append(rng.randrange(1 << 30))
        else:
            moves.append(None)
    case = {'cls': cls, 'dim': dim, 'arrays': arrays, 'opts': opts,
            'radius_scale': rng.choice([2.0, 2.0, 3.0, 1.0]),
            'rounds': rounds, 'moves': moves, 'ext': ext}
    if history:
        case['edits'] = gen_edits(rng, dim, ext, narr, rounds, periodic)
    if periodic:
        per = [k < dim and rng.random() < 0.7 for k in range(3)]
        if not any(per):
            per[0] = True
        case['domain'] = {'periodic': per}
        case['radius_scale'] = rng.choice([2.0, 2.0, 1.0])
        for a in arrays:        # a couple of cells across the box
            a['h'] = [min(v, 12) for v in a['h']]
    return case


def bad_positions(cls, dim, opts, pts_per_array):
    """inputs outside what the classes are defined for (C01 territory, and
    memory-unsafe to execute): CellIndexing takes log2 of the x/y extent in
    cells; the compressed octree never stops subdividing coincident points;
    the linked list writes head[] out of bounds for a zero-extent cloud in
    1D/2D."""
    allpts = [tuple(p) for a in pts_per_array for p in a]
    if cls in ('LinkedListNNPS', 'BoxSortNNPS') and dim < 3 and \
            len(set(allpts)) < 2 and \
            not os.environ.get('C17_RUN_COINCIDENT'):
        # NNPS._compute_bounds pads a zero-extent cloud by 0.5 in all three
        # directions; in 1D/2D the cell index of the unused directions is
        # then >= 1 and _bin writes head[] out of bounds (reported as
        # finding C17:ll-coincident-lowdim).
        return True
    if cls == 'CellIndexingNNPS':
        for k in range(2):
            if len(set(p[k] for p in allpts)) < 2:
                return True
    if cls in ('CompressedOctreeNNPS', 'OctreeNNPS'):
        lm = opts.get('leaf_max_particles', 10)
        for a in pts_per_array:
            cnt = {}
            for p in a:
                cnt[tuple(p)] = cnt.get(tuple(p), 0) + 1
            if cnt and max(cnt.values()) >= lm:
                return True
    return False


def degenerate(case):
    return bad_positions(case['cls'], case['dim'], case['opts'],
                         [a['pts'] for a in case['arrays']])


def refill(pa):
    """every property except the geometry and the tag carries the particle's
    unique id (`oid`): component k of property P of particle q is
    16*oid[q] + k.  Exact in every C type used (float: oid < 2^20)."""
    n = pa.get_number_of_particles()
    oid = pa.get_carray('oid').get_npy_array().astype(np.int64)
    for nm in pa.properties:
        if nm in GEOM or nm == 'oid':
            continue
        st = int(pa.stride.get(nm, 1))
        arr = pa.get_carray(nm).get_npy_array()
        arr[:] = np.repeat(oid, st) * 16 + np.tile(np.arange(st), n)


def torn(snap, n):
    """names of the properties whose value is not the one of the particle
    (`oid`) in the slot"""
    oid = snap['oid'][1].astype(np.int64)
    bad = []
    for nm in sorted(snap):
        if nm in GEOM or nm == 'oid':
            continue
        st, d = snap[nm]
        if len(d) != n * st:
            bad.append(nm + '(length %d, expected %d)' % (len(d), n * st))
            continue
        want = oid[:, None] * 16 + np.arange(st)[None, :]
        w = np.nonzero((np.asarray(d).reshape(n, st) != want).any(axis=1))[0]
        if len(w):
            k = int(w[0])
            bad.append('%s (stride %d): %d of %d slots, e.g. slot %d holds '
                       'particle %d but %s=%s'
                       % (nm, st, len(w), n, k, int(oid[k]), nm,
                          np.asarray(d).reshape(n, st)[k].tolist()))
    return bad


def build(case):
    pas = []
    for a in case['arrays']:
        n = len(a['pts'])
        P = np.array(a['pts'], dtype=float).reshape(n, 3) / 64.0
        pa = get_particle_array(
            name=a['name'], x=P[:, 0].copy(), y=P[:, 1].copy(),
            z=P[:, 2].copy(), h=np.array(a['h'], dtype=float) / 64.0,
            tag=np.array(a['tag'], dtype=np.int32))
        pa.add_property('oid', type='int')
        for nm, ty, st in a['extra']:
            pa.add_property(nm, type=ty, stride=st)
        # get_particle_array aligned the array: identify particles by their
        # slot now
        pa.get_carray('oid').get_npy_array()[:] = np.arange(n)
        refill(pa)
        pas.append(pa)
    return pas


def make_domain(case):
    d = case.get('domain')
    if not d:
        return None
    L = case['ext'] / 64.0
    per = d['periodic']
    return DomainManager(xmin=0.0, xmax=L, ymin=0.0, ymax=L, zmin=0.0, zmax=L,
                         periodic_in_x=bool(per[0]), periodic_in_y=bool(per[1]),
                         periodic_in_z=bool(per[2]))


def pts_of(pa):
    g = lambda k: np.round(pa.get_carray(k).get_npy_array() * 64.0)  # noqa
    return [list(t) for t in zip(g('x').astype(int).tolist(),
                                 g('y').astype(int).tolist(),
                                 g('z').astype(int).tolist())]


def tmp_array(pa, op, oids, new):
    """an array with the properties of `pa` (+ `new`) holding the particles
    of an add/append operation"""
    m = len(op['pts'])
    P = np.array(op['pts'], dtype=float).reshape(m, 3) / 64.0
    t = get_particle_array(
        name='tmp', x=P[:, 0].copy(), y=P[:, 1].copy(), z=P[:, 2].copy(),
        h=np.array(op['h'], dtype=float) / 64.0,
        tag=np.array(op['tag'], dtype=np.int32))
    for nm in pa.properties:
        if nm not in t.properties:
            t.add_property(nm, type=pa.properties[nm].get_c_type(),
                           stride=int(pa.stride.get(nm, 1)))
    for nm, ty, st in new:
        if nm not in t.properties:
            t.add_property(nm, type=ty, stride=st)
    t.get_carray('oid').get_npy_array()[:] = oids
    return t


def apply_op(case, op, pas, nxt, R):
    """one edit of the history on the real arrays; returns
    (applied, size changed, property set changed)"""
    ai = op['a']
    pa = pas[ai]
    n = pa.get_number_of_particles()
    kind = op['op']
    per = bool(case.get('domain'))
    # the clouds the structure will be rebuilt on: in a periodic box the
    # Ghost particles are removed and made anew by the next domain update
    live = [[(not per) or t != 2 for t in
             p.get_carray('tag').get_npy_array().tolist()] for p in pas]
    cand = [[q for q, l in zip(pts_of(p), lv) if l]
            for p, lv in zip(pas, live)]
    if kind in ('add', 'append'):
        m = len(op['pts'])
        cand[ai] = cand[ai] + [list(q) for q in op['pts']]
        if bad_positions(case['cls'], case['dim'], case['opts'], cand):
            R.count('edit-skipped-degenerate')
            return False, False, False
        oids = np.arange(nxt[ai], nxt[ai] + m)
        nxt[ai] += m
        if kind == 'add':
            P = np.array(op['pts'], dtype=float).reshape(m, 3) / 64.0
            pa.add_particles(x=P[:, 0].copy(), y=P[:, 1].copy(),
                             z=P[:, 2].copy(),
                             h=np.array(op['h'], dtype=float) / 64.0,
                             tag=np.array(op['tag'], dtype=np.int32),
                             oid=oids.astype(np.int32))
            return True, True, False
        new = [q for q in op.get('new', []) if q[0] not in pa.properties]
        pa.append_parray(tmp_array(pa, op, oids, new))
        return True, True, bool(new)
    if kind == 'remove':
        rr = random.Random(op['seed'])
        m = max(0, min(n - 1, int(round(op['frac'] * n))))
        sel = sorted(rr.sample(range(n), m)) if m else []
        cand[ai] = [q for k, q in enumerate(pts_of(pa))
                    if k not in set(sel) and live[ai][k]]
        if not sel or not cand[ai] or bad_positions(case['cls'], case['dim'], case['opts'],
                                    cand):
            R.count('edit-skipped-degenerate')
            return False, False, False
        pa.remove_particles(np.array(sel, dtype=np.int64))
        return True, True, False
    if kind == 'addprop':
        nm, ty, st = op['prop']
        if nm in pa.properties:
            return False, False, False
        pa.add_property(nm, type=ty, stride=st)
        return True, False, True
    if kind == 'ensure':
        new = [q for q in op['props'] if q[0] not in pa.properties]
        if not new:
            return False, False, False
        src = get_particle_array(name='src', x=[0.0])
        for nm, ty, st in new:
            src.add_property(nm, type=ty, stride=st)
        pa.ensure_properties(src, [q[0] for q in new])
        return True, False, True
    if kind == 'rmprop':
        nm = op['name']
        if nm not in pa.properties or nm in GEOM or \
                nm in ('oid', 'gid', 'pid'):
            return False, False, False
        pa.remove_property(nm)
        return True, False, True
    raise SystemExit('unknown edit ' + repr(op))


def snapshot(pa):
    """all properties, all particles (ghosts too), flat, with strides"""
    out = {}
    for nm in pa.properties:
        out[nm] = (int(pa.stride.get(nm, 1)),
                   pa.get_carray(nm).get_npy_array().copy())
    return out


def rows_of(snap, n):
    """whole particles: tuple over every property and stride component"""
    cols = []
    for nm in sorted(snap):
        st, d = snap[nm]
        cols.append(np.asarray(d, dtype=float).reshape(n, st) if n else
                    np.zeros((0, st)))
    if not cols:
        return []
    M = np.hstack(cols)
    return [tuple(r) for r in M.tolist()]


# ------------------------------------------------ geometry recomputation

def _fl(v, step):
    return int(math.floor(v / step))


def cells(pa, xmin, step):
    x = pa.get_carray('x').get_npy_array()
    y = pa.get_carray('y').get_npy_array()
    z = pa.get_carray('z').get_npy_array()
    return [(_fl(x[i] - xmin[0], step), _fl(y[i] - xmin[1], step),
             _fl(z[i] - xmin[2], step)) for i in range(len(x))]


M64 = (1 << 64) - 1


def _spread(i):
    i &= M64
    i = (i | (i << 32)) & 0x1f00000000ffff
    i = (i | (i << 16)) & 0x1f0000ff0000ff
    i = (i | (i << 8)) & 0x100f00f00f00f00f
    i = (i | (i << 4)) & 0x10c30c30c30c30c3
    i = (i | (i << 2)) & 0x1249249249249249
    return i


def morton(c):
    return (_spread(c[0]) | (_spread(c[1]) << 1) | (_spread(c[2]) << 2)) & M64


def order_line(case, nn, pas, ai):
    """(protocol line, canonicaliser for the impl's index list, info)"""
    cls = case['cls']
    fam = FAMILY[cls]
    pa = pas[ai]
    n = pa.get_number_of_particles()
    xmin = nn.xmin.get_npy_array()
    if fam == 'll':
        ncd = nn.ncells_per_dim.get_npy_array()
        flat = lambda p: [c[0] + int(ncd[0]) * c[1] +          # noqa
                          int(ncd[0]) * int(ncd[1]) * c[2]
                          for c in cells(p, xmin, nn.cell_size)]
        cid = flat(pa)
        if cls == 'BoxSortNNPS':
            occ = sorted(set(c for p in pas for c in flat(p)))
            rank = {c: k for k, c in enumerate(occ)}
            cid = [rank[c] for c in cid]
        ncells = int(nn.n_cells)
        info = {'ncells': ncells, 'max_cid': max(cid) if cid else -1}
        return ('ll ncells=%d cid=%s' % (ncells, H.ilist(cid)),
                lambda idx: list(idx), info)
    if fam == 'sort':
        if cls == 'StratifiedSFCNNPS':
            keys = strat_keys(case, nn, pa, xmin)
        else:
            Hh = case['opts'].get('H', 1 if cls == 'ZOrderNNPS' else 3)
            hsub = nn.cell_size / Hh
            keys = [morton(c) for c in cells(pa, xmin, hsub)]
        info = {'distinct_keys': len(set(keys))}
        try:
            ik = [int(k) for k in nn.get_keys(ai)]
            info['keys_match_impl'] = (sorted(keys) == ik) if \
                max(keys + [0]) < (1 << 53) else None
        except Exception as e:      # noqa
            info['keys_match_impl'] = 'raise ' + type(e).__name__

        def canon(idx):
            # std::sort is unstable: order inside a run of equal keys is
            # unspecified -> ascending particle id inside each run
            out, i = [], 0
            idx = list(idx)
            while i < len(idx):
                j = i
                while j < len(idx) and 0 <= idx[j] < n and 0 <= idx[i] < n \
                        and keys[idx[j]] == keys[idx[i]]:
                    j += 1
                j = max(j, i + 1)
                out += sorted(idx[i:j])
                i = j
            return out
        return 'sort key=%s' % H.ilist(keys), canon, info
    if fam == 'ci':
        cs = nn.cell_size
        xmax = nn.xmax.get_npy_array()
        J = int(1 + math.log2(math.ceil((xmax[0] - xmin[0]) / cs)))
        K = int(1 + math.log2(math.ceil((xmax[1] - xmin[1]) / cs)))
        Ii = int(1 + math.log2(n))
        cell = [c[0] + (1 << J) * c[1] + (1 << (J + K)) * c[2]
                for c in cells(pa, xmin, cs)]
        info = {'I': Ii, 'J': J, 'K': K,
                'overflow': any((i + (1 << Ii) * c) >= (1 << 32)
                                for i, c in enumerate(cell))}
        return ('ci I=%d cell=%s' % (Ii, H.ilist(cell)),
                lambda idx: list(idx), info)
    if fam == 'oct':
        lm = case['opts'].get('leaf_max_particles', 10)
        T = CompressedOctree if cls == 'CompressedOctreeNNPS' else Octree
        t = T(lm)
        depth = t.build_tree(pa, bool(case['opts'].get('test_parallel', False)))
        x = pa.get_carray('x').get_npy_array()
        y = pa.get_carray('y').get_npy_array()
        z = pa.get_carray('z').get_npy_array()
        code = [[] for _ in range(n)]
        stop = []
        info = {'leaves': 0, 'bad_digit': 0, 'depth': int(depth),
                'child_mismatch': 0}

        def walk(node, ids, path):
            if node.is_leaf:
                info['leaves'] += 1
                if len(ids) >= lm:
                    stop.append(''.join(map(str, path)) or '-')
                return
            ch = node.get_children()
            xm = node.xmin
            half = node.length / 2
            buckets = {}
            for q in ids:
                i = _fl(x[q] - xm[0], half)
                j = _fl(y[q] - xm[1], half)
                k = _fl(z[q] - xm[2], half)
                o = k + 2 * j + 4 * i
                if not (0 <= i <= 1 and 0 <= j <= 1 and 0 <= k <= 1):
                    info['bad_digit'] += 1
                    continue
                code[q].append(o)
                buckets.setdefault(o, []).append(q)
            for o in range(8):
                if (o in buckets) != (ch[o] is not None):
                    info['child_mismatch'] += 1
                if o in buckets and ch[o] is not None:
                    walk(ch[o], buckets[o], path + [o])
        walk(t.get_root(), list(range(n)), [])
        cs = ','.join((''.join(map(str, c)) or '-') for c in code) if n else '_'
        ss = ','.join(stop) if stop else '_'
        return ('oct leafmax=%d fuel=%d code=%s stop=%s'
                % (lm, int(depth) + 2, cs, ss), lambda idx: list(idx), info)
    raise SystemExit('no family for ' + cls)


_SFC_EPS = []


def _sfc_level_has_eps():
    """which body of StratifiedSFCNNPS._get_level the tree under test has (the
    key computation below is a transcription of it)"""
    if not _SFC_EPS:
        import os
        import re
        src = open(os.path.join(os.environ['PYSPH_VERIF_SCRATCH_REPO'], 'pysph', 'base',
                                'stratified_sfc_nnps.pyx')).read()
        body = src[src.index('int _get_level('):]
        body = body[:body.index('cdef inline int _get_H')]
        code = '\n'.join(l.split('#')[0] for l in body.split('\n'))
        if 'cell_size + EPS' in code:
            _SFC_EPS.append(True)
        elif re.search(r'fmax\(1\.0,\s*ceil\(log2\(self\.cell_size\s*/\s*self\.radius_scale\s*/\s*h\)\)\)', code):
            _SFC_EPS.append(False)
        else:
            # an unknown body: keep the transcription of the repaired code; if the
            # new body means something else the key comparison disagrees and the
            # check reports it
            _SFC_EPS.append(False)
    return _SFC_EPS[0]


def strat_keys(case, nn, pa, xmin):
    EPS = 1e-13
    nl = int(case['opts'].get('num_levels', 1))
    rs = nn.radius_scale
    xmax = nn.xmax.get_npy_array()
    max_length = max(max(xmax[0] - xmin[0], xmax[1] - xmin[1]),
                     xmax[2] - xmin[2])
    max_num_cells = int(math.ceil(max_length / nn.hmin))
    max_num_bits = 1 + 3 * int(math.ceil(math.log2(max_num_cells)))
    cur = [(nn.cell_size / rs) / (2 ** (nl - i - 1)) for i in range(nl)]
    x = pa.get_carray('x').get_npy_array()
    y = pa.get_carray('y').get_npy_array()
    z = pa.get_carray('z').get_npy_array()
    h = pa.get_carray('h').get_npy_array()
    keys = []
    for i in range(len(x)):
        if _sfc_level_has_eps():
            # _get_level before fix ac8e697 (absolute EPS added to cell_size)
            level = nl - int(min(nl, math.ceil(math.log2(
                (nn.cell_size + EPS) / rs / h[i]))))
        else:
            level = nl - int(min(nl, max(1.0, math.ceil(math.log2(
                nn.cell_size / rs / h[i])))))
        cs = rs * cur[level]
        c = (_fl(x[i] - xmin[0], cs), _fl(y[i] - xmin[1], cs),
             _fl(z[i] - xmin[2], cs))
        keys.append(((level << max_num_bits) + morton(c)) & M64)
    return keys


# ------------------------------------------------------- neighbour oracle

def brute(pas, si, di, d, rs):
    s, dd = pas[si], pas[di]
    g = lambda p, k: p.get_carray(k).get_npy_array()     # noqa
    dx = g(s, 'x') - g(dd, 'x')[d]
    dy = g(s, 'y') - g(dd, 'y')[d]
    dz = g(s, 'z') - g(dd, 'z')[d]
    r2 = dx * dx + dy * dy + dz * dz
    hi = rs * g(dd, 'h')[d]
    hj = rs * g(s, 'h')
    return set(np.nonzero((r2 < hi * hi) | (r2 < hj * hj))[0].tolist())


def pick_queries(pas, rng, maxq=12):
    """destination particles to query, by identity (oid), per array; copies
    made by a periodic domain share the oid of their original: only
    particles whose oid is unique in the array are used"""
    out = []
    for pa in pas:
        o = pa.get_carray('oid').get_npy_array()
        v, c = np.unique(o, return_counts=True)
        u = [int(x) for x in v[c == 1].tolist()]
        out.append(u if len(u) <= maxq else sorted(rng.sample(u, maxq)))
    return out


def nbr_check(nn, pas, rs, oids):
    """{(si, di, dst oid): (missing src oids, extra src oids)} for the
    inexact queries among the chosen destination particles.  Particles are
    named by their identity, so results before and after a re-ordering are
    comparable."""
    bad = {}
    nb = UIntArray()
    oid = [p.get_carray('oid').get_npy_array() for p in pas]
    for di in range(len(pas)):
        if not oids[di]:
            continue
        slot = {int(o): k for k, o in enumerate(oid[di].tolist())}
        for si in range(len(pas)):
            nn.set_context(si, di)
            for o in oids[di]:
                d = slot[o]
                nn.get_nearest_particles(si, di, d, nb)
                got = nb.get_npy_array().tolist()
                want = brute(pas, si, di, d, rs)
                if set(got) != want or len(got) != len(set(got)):
                    so = oid[si]
                    bad[(si, di, o)] = (
                        sorted(int(so[j]) for j in want - set(got)),
                        sorted(int(so[j]) for j in set(got) - want
                               if j < len(so)),
                        len(got) != len(set(got)))
    return bad


# ------------------------------------------------------------ one case

def ints_of(nm, st, d):
    """property values as exact integers for the model (doubles on the
    1/1024 grid are scaled), None if not representable"""
    d = np.asarray(d)
    if d.dtype.kind in 'iu':
        return [int(v) for v in d.tolist()]
    s = d.astype(float) * SCALE
    if np.all(np.isfinite(s)) and np.all(s == np.round(s)) and \
            np.all(np.abs(s) < 2 ** 52):
        return [int(v) for v in s.tolist()]
    return None


def reorder_line(fix, idx, nreal, snap):
    toks = ['reorder', 'fix=%d' % fix, 'idx=%s' % H.ilist(idx),
            'nreal=%d' % nreal]
    names = []
    for nm in snap:                      # dict order = pa.properties order
        st, d = snap[nm]
        iv = ints_of(nm, st, d)
        if iv is None:
            continue
        names.append(nm)
        toks += ['P', nm, str(st), H.ilist(iv)]
    return ' '.join(toks), names


def show_pa(nreal, snap, names):
    toks = ['nreal=%d' % nreal]
    for nm in names:
        st, d = snap[nm]
        toks += ['P', nm, H.ilist(ints_of(nm, st, d))]
    return ' '.join(toks)


def run_case(case, R, jobs, tagno):
    """runs the implementation, evaluates the property oracle, appends model
    jobs (line, expected impl answer, where, case) to `jobs`"""
    cls = case['cls']
    rs = case['radius_scale']
    qrng = random.Random(tagno * 31 + 7)
    fails = []

    def pf(key, demand, observed):
        fails.append(key)
        R.prop_fail(key, case, demand, observed)

    try:
        pas = build(case)
        kw = dict(case['opts'])
        dom = make_domain(case)
        if dom is not None:
            kw['domain'] = dom
        n_built = [p.get_number_of_particles() for p in pas]
        props_built = [set(p.properties) for p in pas]
        nn = getattr(NN, cls)(dim=case['dim'], particles=pas,
                              radius_scale=rs, **kw)
    except Exception as e:      # noqa
        pf('C17:%s:raised' % cls, 'constructing the search structure works',
           'constructor: %s: %s' % (type(e).__name__, e))
        return fails
    s = Solver.__new__(Solver)
    s.particles = pas
    s.nnps = nn
    ind = LongArray()
    nxt = list(n_built)          # next unused particle id, per array
    edits = case.get('edits') or []
    for r in range(case['rounds']):
        # ---- the history: edit the arrays the structure was built on
        ed = edits[r] if r < len(edits) else None
        resized = reshaped = False
        if ed and ed['ops']:
            try:
                for op in ed['ops']:
                    ok, a, b = apply_op(case, op, pas, nxt, R)
                    resized = resized or a
                    reshaped = reshaped or b
                    if ok:
                        R.count('edit:' + op['op'])
                for pa in pas:
                    refill(pa)
                if resized or dom is not None or (reshaped and ed['update']):
                    # as the integrator does after the particle count changed
                    nn.update_domain()
                    nn.update()
            except Exception as e:      # noqa
                # not a statement about re-ordering: C06 (array edits) / C07
                # (domain manager) / C01 (update) own this.  Seen on the
                # pinned tree: a periodic DomainManager keeps clones of the
                # arrays for its ghosts; a property removed and added again
                # with another stride makes its append_parray raise.
                R.count('edit-or-update-raised(not C17):' + cls)
                if R.d['distribution']['edit-or-update-raised(not C17):'
                                       + cls] <= 2:
                    R.note('%s case %d round %d: edits %s + update raised %s: '
                           '%s (history abandoned; not a C17 failure)'
                           % (cls, tagno, r, [o['op'] for o in ed['ops']],
                              type(e).__name__, str(e)[:120]))
                return fails
        mv = case['moves'][r]
        if mv is not None:
            mr = random.Random(mv)
            newpos = []
            for pa in pas:
                n = pa.get_number_of_particles()
                cur = [np.round(pa.get_carray(ax).get_npy_array() * 64.0)
                       .astype(int) for ax in 'xyz']
                for k in range(case['dim']):
                    d = np.array([mr.randrange(-6, 7) for _ in range(n)],
                                 dtype=int)
                    cur[k] = np.clip(cur[k] + d, 0, case['ext'] - 1)
                newpos.append(cur)
            ptsnow = [list(zip(*[c.tolist() for c in cur])) for cur in newpos]
            if bad_positions(cls, case['dim'], case['opts'], ptsnow):
                R.count('move-skipped-degenerate')
            else:
                for pa, cur in zip(pas, newpos):
                    for k, ax in enumerate('xyz'):
                        pa.get_carray(ax).get_npy_array()[:] = cur[k] / 64.0
                if dom is not None:
                    nn.update_domain()
                nn.update()
        for ai, pa in enumerate(pas):
            if pa.get_number_of_particles() != n_built[ai]:
                R.count('reorder-with-n-unlike-construction')
            if dom is not None and np.any(
                    pa.get_carray('tag').get_npy_array() == 2):
                R.count('reorder-with-domain-made-ghosts')
            if set(pa.properties) - props_built[ai]:
                R.count('reorder-with-late-property')
            if props_built[ai] - set(pa.properties):
                R.count('reorder-with-removed-property')
        for ai, pa in enumerate(pas):
            # (a periodic DomainManager keeps its own ghost arrays: a property
            # removed from the array comes back, default-valued, with the
            # next ghosts -- C07's territory; here it is just one more
            # property that has to travel)
            refill(pa)
        queries = pick_queries(pas, random.Random(qrng.random()))
        before_bad = nbr_check(nn, pas, rs, queries)
        idxs, snaps, nreal0 = [], [], []
        for ai, pa in enumerate(pas):
            n = pa.get_number_of_particles()
            try:
                nn.get_spatially_ordered_indices(ai, ind)
            except Exception as e:      # noqa
                pf('C17:%s:raised' % cls, 'get_spatially_ordered_indices works',
                   '%s: %s' % (type(e).__name__, e))
                return fails
            idx = [int(v) for v in ind.get_npy_array().tolist()]
            idxs.append(idx)
            snaps.append(snapshot(pa))
            nreal0.append(int(pa.num_real_particles))
            # ---- oracle 1: a permutation of 0..n-1
            if sorted(idx) != list(range(n)):
                miss = sorted(set(range(n)) - set(idx))[:5]
                dup = sorted(set(i for i in idx if idx.count(i) > 1))[:5]
                pf('C17:%s:indices-not-a-permutation' % cls,
                   'ordered indices of array %d (round %d) are a permutation '
                   'of 0..%d' % (ai, r, n - 1),
                   'len=%d (array has %d particles now, had %d when the '
                   'structure was constructed) missing=%s repeated=%s '
                   'out-of-range=%s'
                   % (len(idx), n, n_built[ai], miss, dup,
                      [i for i in idx if not 0 <= i < n][:5]))
            # ---- model: traversal order
            if cls in FAMILY:
                line, canon, info = order_line(case, nn, pas, ai)
                for k, v in info.items():
                    if k in ('bad_digit', 'child_mismatch') and v:
                        R.note('%s: %s=%s (case %d)' % (cls, k, v, tagno))
                    if k == 'keys_match_impl' and v is False:
                        R.note('%s: recomputed keys differ from get_keys '
                               '(case %d)' % (cls, tagno))
                    if k == 'overflow' and v:
                        R.count('ci-key-overflow')
                jobs.append((line, H.ilist(canon(idx)),
                             'order %s array %d round %d' % (cls, ai, r),
                             case, tagno))
        # ---- the re-ordering itself, through Solver.reorder_particles
        bad_perm = any(sorted(ix) != list(range(p.get_number_of_particles()))
                       for ix, p in zip(idxs, pas))
        if bad_perm:
            # gathering through an invalid index list reads outside the
            # arrays: do not execute it
            return fails
        try:
            s.reorder_particles()
        except Exception as e:      # noqa
            pf('C17:%s:raised' % cls, 'Solver.reorder_particles works',
               '%s: %s' % (type(e).__name__, e))
            return fails
        for ai, pa in enumerate(pas):
            n = pa.get_number_of_particles()
            after = snapshot(pa)
            nreal = int(pa.num_real_particles)
            # ---- oracle 2: same multiset of whole particles
            rb, ra = rows_of(snaps[ai], n), rows_of(after, n)
            t0 = torn(snaps[ai], n) if 'oid' in snaps[ai] else []
            t1 = torn(after, n) if 'oid' in after and not t0 and \
                set(after) == set(snaps[ai]) else []
            if t0:
                R.note('%s case %d round %d: properties not with their '
                       'particle BEFORE the re-ordering: %s'
                       % (cls, tagno, r, t0[:3]))
            if sorted(rb) != sorted(ra) or t1 or \
                    set(after) != set(snaps[ai]) or \
                    any(len(after[k][1]) != len(snaps[ai][k][1]) for k in after):
                lost = [x for x in rb if x not in set(ra)][:2]
                late = sorted(set(after) - props_built[ai])
                pf('C17:%s:particles-not-preserved' % cls,
                   'array %d round %d: the multiset of whole particles (all '
                   '%d properties the array has now, every stride component) '
                   'is unchanged and every property still holds the value of '
                   'the particle in its slot' % (ai, r, len(after)),
                   'properties torn off their particle: %s; properties added '
                   'after the structure was made: %s; e.g. particle rows no '
                   'longer present: %s' % (t1[:4], late, lost))
            # ---- oracle 3: real particles first
            tg = after['tag'][1]
            nloc = int(np.sum(tg == 0))
            if not (nreal == nloc and np.all(tg[:nreal] == 0)
                    and np.all(tg[nreal:] != 0)):
                pf('C17:reals-not-first-after-reorder',
                   'array %d round %d: Local particles occupy exactly the '
                   'first num_real_particles slots' % (ai, r),
                   'num_real_particles=%d, Local tags=%d, tags=%s'
                   % (nreal, nloc, tg.tolist()[:40]))
            # ---- model: the gather (repaired code) and, for the record, the
            # unrepaired one
            l1, names = reorder_line(1, idxs[ai], nreal0[ai], snaps[ai])
            jobs.append((l1, show_pa(nreal, after, names),
                         'reorder %s array %d round %d' % (cls, ai, r),
                         case, tagno))
            l0, _ = reorder_line(0, idxs[ai], nreal0[ai], snaps[ai])
            jobs.append((l0, show_pa(nreal, after, names), 'orig', case, tagno))
        # ---- oracle 4: neighbour queries after the update are exact
        after_bad = nbr_check(nn, pas, rs, queries)
        # a query that was already inexact before the re-ordering (same
        # particles, same positions) is C01's finding, not C17's
        new_bad = {k: v for k, v in after_bad.items()
                   if before_bad.get(k) != v}
        if new_bad:
            # is the search itself wrong for this array order (C01: e.g. the
            # order-dependent hmax lookup of ExtendedZOrderNNPS), or did
            # reorder_particles leave the structure stale?  A structure built
            # from scratch on the re-ordered arrays decides.
            nn2 = getattr(NN, cls)(dim=case['dim'], particles=pas,
                                   radius_scale=rs, **dict(case['opts']))
            fresh_bad = nbr_check(nn2, pas, rs, queries)
            nb2 = {k: v for k, v in new_bad.items() if fresh_bad.get(k) != v}
            if not nb2:
                R.count('nbr-inexact-also-with-fresh-structure(C01):' + cls)
                after_bad = dict(after_bad)
            new_bad = nb2
        if new_bad:
            (si, di, o), (miss, extra, dup) = sorted(new_bad.items())[0]
            pf('C17:%s:neighbours-inexact-after-reorder' % cls,
               'round %d: neighbours of every particle equal brute force '
               'after reorder_particles() (where they did before)' % r,
               '%d queries became inexact, e.g. src array %d, dst array %d '
               'particle oid %d: missing oids %s extra oids %s duplicates %s'
               % (len(new_bad), si, di, o, miss[:5], extra[:5], dup))
        elif after_bad:
            R.count('nbr-inexact-before-and-after(C01):' + cls)
        elif before_bad:
            R.count('nbr-inexact-before-only(C01):' + cls)
        else:
            R.count('nbr-exact-before-and-after:' + cls)
    return fails


def check_cases(cases, R, tag0=0):
    jobs = []
    for k, c in enumerate(cases):
        if degenerate(c):
            R.count('skipped-degenerate:' + c['cls'])
            continue
        nj = len(jobs)
        if os.environ.get('C17_TRACE'):      # debugging aid for hard crashes
            with open(os.environ['C17_TRACE'], 'w') as fh:
                json.dump({'tag': tag0 + k, 'case': c}, fh)
        fails = run_case(c, R, jobs, tag0 + k)
        if os.environ.get('C17_TRACE') and (
                (fails and len(R.d['property_failures']) <= 20) or k % 100 == 99):
            # what was found so far survives a later hard crash
            R.write(os.environ['C17_TRACE'] + '.partial')
        cls = c['cls']
        R.count('class:' + cls)
        R.count('narr:%d' % len(c['arrays']))
        R.count('dim:%d' % c['dim'])
        R.count('rounds:%d' % c['rounds'])
        if any(t != 0 for a in c['arrays'] for t in a['tag']):
            R.count('with-nonlocal-tags')
        if any(a['extra'] for a in c['arrays']):
            R.count('with-strided-or-typed-props')
        if any(e['ops'] for e in c.get('edits') or []):
            R.count('history-with-edits-between-reorders')
        if c.get('domain'):
            R.count('periodic-domain')
        ntot = sum(len(a['pts']) for a in c['arrays'])
        R.case(json.dumps(c, sort_keys=True), ntot >= 3,
               {'case': {'cls': cls, 'n': [len(a['pts']) for a in c['arrays']]},
                'jobs': [j[:3] for j in jobs[nj:nj + 2]]}
               if (tag0 + k) % 97 == 0 else None)
        R.d['traces_validated_against_impl'] += 1
    if not jobs:
        return
    out = H.run_model('C17', [j[0] for j in jobs])
    if len(out) != len(jobs):
        raise SystemExit('model driver answered %d lines for %d'
                         % (len(out), len(jobs)))
    seen = set()
    for (line, want, where, case, tagno), got in zip(jobs, out):
        if where == 'orig':
            if got == want:
                R.count('impl-equals-UNREPAIRED-model')
            continue
        if where.startswith('reorder'):
            R.count('model-reorder-lines')
        else:
            R.count('model-order-lines')
        if got != want and (tagno, where.split()[0]) not in seen:
            seen.add((tagno, where.split()[0]))
            R.disagree({'case': case, 'line': line[:400]}, got[:400],
                       want[:400], where)


def corpus():
    """minimised past failures; always run first"""
    def arr(pts, h, tag, extra=()):
        return {'name': 'a0', 'pts': pts, 'h': h, 'tag': tag,
                'extra': [list(e) for e in extra]}
    out = []
    # F6: two cells, the ghost sits in the cell traversed first
    for cls in ('LinkedListNNPS', 'ZOrderNNPS', 'CellIndexingNNPS',
                'OctreeNNPS'):
        out.append({'cls': cls, 'dim': 2,
                    'arrays': [arr([[60, 60, 0], [0, 0, 0], [4, 3, 0]],
                                   [16, 16, 16], [0, 2, 0],
                                   [('A', 'double', 3)])],
                    'opts': ({'leaf_max_particles': 2, 'test_parallel': False}
                             if cls == 'OctreeNNPS' else {}),
                    'radius_scale': 2.0, 'rounds': 2, 'moves': [None, None],
                    'ext': 64})
    # round-2 seeds: state of the arrays cached when the structure was made.
    pts = [[60, 60, 0], [0, 0, 0], [4, 3, 0], [33, 2, 0]]
    none = {'ops': [], 'update': False}
    for cls in ('LinkedListNNPS', 'ZOrderNNPS', 'ExtendedZOrderNNPS',
                'StratifiedSFCNNPS', 'CellIndexingNNPS', 'OctreeNNPS',
                'CompressedOctreeNNPS'):
        opts = ({'leaf_max_particles': 2, 'test_parallel': False}
                if 'Octree' in cls else {})
        base = {'cls': cls, 'dim': 2, 'opts': opts, 'radius_scale': 2.0,
                'ext': 64}
        # A2 (stale particle count): the array grows, then shrinks below
        # its size at construction, between re-orderings
        out.append(dict(base, arrays=[arr(pts, [16] * 4, [0] * 4)],
                        rounds=3, moves=[None] * 3, edits=[
            none,
            {'ops': [{'op': 'add', 'a': 0, 'pts': [[20, 50, 0], [50, 20, 0]],
                      'h': [16, 16], 'tag': [0, 0]}], 'update': True},
            {'ops': [{'op': 'remove', 'a': 0, 'frac': 0.5, 'seed': 1}],
             'update': True}]))
        # A2: the ghosts of a periodic box are made after the wrappers
        out.append(dict(base, ext=128, arrays=[arr(
            [[2, 60, 0], [64, 3, 0], [125, 100, 0], [30, 30, 0]],
            [8] * 4, [0] * 4)], rounds=1, moves=[None],
            domain={'periodic': [True, True, False]}))
        # B2 (stale property list): properties added after construction
        # (scalar, strided, integer) must travel in the very next re-order
        out.append(dict(base, arrays=[arr(pts, [16] * 4, [0, 0, 2, 0],
                                          [('A', 'double', 3)])],
                        rounds=2, moves=[None, 12345], edits=[
            {'ops': [{'op': 'addprop', 'a': 0, 'prop': ['T', 'double', 1]},
                     {'op': 'addprop', 'a': 0, 'prop': ['V3', 'double', 3]},
                     {'op': 'ensure', 'a': 0, 'props': [['Q', 'int', 1]]}],
             'update': False},
            {'ops': [{'op': 'rmprop', 'a': 0, 'name': 'A'},
                     {'op': 'append', 'a': 0, 'pts': [[10, 40, 0]],
                      'h': [16], 'tag': [0], 'new': [['W2', 'float', 2]]}],
             'update': True}]))
    return out


def main():
    a = H.args()
    R = H.Result(
        'cases = (NNPS class implementing get_spatially_ordered_indices) x '
        '1-3 particle arrays of 1-150 particles on the 1/64 grid in 1-3 D '
        '(uniform / clustered / lattice / coincident points, constant or '
        'variable h), random Local/Remote/Ghost tags, optional strided and '
        'typed properties (double x3, int x2, long, unsigned x4, float x2, '
        'double x9), 1-4 rounds of reorder_particles() on ONE search '
        'structure with optional motion in between; half of the cases are '
        'histories that edit the arrays between the re-orderings (add_particles'
        ' / append_parray / remove_particles, add_property / ensure_properties '
        '/ append of an array with new properties / remove_property, scalar '
        'and strided, 5 C types) and 30% of those use a periodic '
        'DomainManager whose ghosts are made after the structure; every '
        'particle carries a unique id in every property; distinct = distinct '
        'case JSON; non-trivial = at least 3 particles')
    if a.replay and a.tier != 'child':
        # the replayed input may crash the interpreter (a wrong stride makes
        # c_align_array read outside the index array): run it in a child
        rc = subprocess.call([sys.executable, os.path.abspath(__file__),
                              '--replay', a.replay, '--tier', 'child',
                              '--seed', str(a.seed), '--work', a.work,
                              '--out', a.out])
        if rc < 0:
            print('replayed case still crashes the implementation (signal %d)'
                  % -rc)
            sys.exit(1)
        sys.exit(rc)
    if a.replay:
        rp = json.load(open(a.replay))
        check_cases([rp['case']], R, 0)
        print(json.dumps(R.d['property_failures'], indent=1)[:6000])
        sys.exit(1 if R.d['property_failures'] else 0)
    if a.tier == 'canary':
        # small inputs first, in this expendable process
        rngc = random.Random(a.seed * 31 + 5)
        cc = [c for c in corpus() if c['cls'] in discover()]
        for cls in discover():
            for i in range(6):
                cc.append(gen_case(rngc, cls))
        check_cases(cc, R, 300000)
        R.write(a.out)
        return
    if not a.tier.endswith(':main'):
        # parent: the implementation is run in expendable child processes (a
        # wrong index list or a stale array makes c_align_array read outside
        # its buffers); a child that dies is reported with the input it died
        # on and whatever it had found before
        for child_tier in ('canary', a.tier + ':main'):
            trace = os.path.join(a.work, 'c17-%s-trace.json'
                                 % child_tier.replace(':', '-'))
            out = a.out if child_tier != 'canary' else \
                os.path.join(a.work, 'c17-canary.json')
            cmd = [sys.executable, os.path.abspath(__file__), '--tier',
                   child_tier, '--seed', str(a.seed), '--work', a.work,
                   '--out', out]
            if a.broken:
                cmd += ['--broken', a.broken]
            rc = subprocess.call(cmd, env=dict(os.environ, C17_TRACE=trace))
            if rc == 0:
                continue
            try:
                case = json.load(open(trace))['case']
            except Exception:      # noqa
                raise SystemExit('%s child failed (%s) before any case'
                                 % (child_tier, rc))
            try:
                R.d = json.load(open(trace + '.partial'))
            except Exception:      # noqa
                pass
            R.prop_fail('C17:%s:crash' % case['cls'], case,
                        're-ordering this input completes (edits, update, '
                        'get_spatially_ordered_indices, reorder_particles, '
                        'update, neighbour queries)',
                        'the interpreter running it died with %s'
                        % ('signal %d' % -rc if rc < 0 else
                           'exit code %d' % rc))
            R.case(json.dumps(case, sort_keys=True), True, None)
            R.d['search'] = {'extra_cases': 0,
                             'found': len(R.d['property_failures']),
                             'note': 'the %s child died; cases after it '
                             'were not run' % child_tier}
            R.write(a.out)
            return
        return
    R.count('canary-ok')
    classes = discover()
    R.d['classes_found'] = classes
    for c in classes:
        if c not in FAMILY:
            R.note('class %s implements get_spatially_ordered_indices but has '
                   'no traversal model: property oracle only' % c)
    missing = [c for c in FAMILY if c not in classes]
    if missing:
        R.note('modelled classes not found in pysph.base.nnps: %s' % missing)
    rng = random.Random(a.seed * 7919 + 17)
    per = 250 if a.tier.startswith('quick') else 2500
    check_cases([c for c in corpus() if c['cls'] in classes], R, 100000)
    R.count('corpus', len(corpus()))
    cases = []
    for cls in classes:
        for i in range(per):
            cases.append(gen_case(rng, cls,
                                  big=not a.tier.startswith('quick')))
    check_cases(cases, R, 0)
    if a.broken or R.d['disagreements']:
        rng2 = random.Random(a.seed + 12345)
        extra = [gen_case(rng2, cls, big=True) for cls in classes
                 for i in range(150)]
        check_cases(extra, R, 200000)
        R.d['search'] = {'extra_cases': len(extra),
                         'found': len(R.d['property_failures'])}
    R.write(a.out)


if __name__ == '__main__':
    main()
