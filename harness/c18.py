"""C18 correspondence + property oracle: the solver controller never loses a
command or a wake-up.

impl  : pysph.solver.controller (CommandManager, Controller) of the scratch
        build, imported with `threading`/`_thread` replaced by the cooperative
        implementation below (every Lock/RLock/Condition operation is a yield
        point; one logical thread runs at a time, the harness picks which).
model : lean PysphVerif.Model.Controller (small-step transition system at the
        same granularity), driven through model_c18.
tie   : per schedule, per step: set of enabled threads, the primitive executed,
        the results of completed operations; final queue / pause / execution log.
oracle: the property statement evaluated on the trace of the REAL code only
        (exactly-once execution at a control point, result delivery, wait/cont
        discipline, nobody blocked forever for well-formed programs).
"""
import importlib.util
import json
import os
import random
import sys
import threading as _rt
import types

import hcommon as H

H.assert_scratch_import()
import logging  # noqa: E402,F401  (must be imported with the real threading)
import pysph.base.particle_array  # noqa: E402,F401  (ditto)
import pysph.solver  # noqa: E402

CTRL_PATH = os.path.join(os.path.dirname(pysph.solver.__file__), 'controller.py')


# ---------------------------------------------------------------------------
# cooperative scheduler + threading replacement

class Abort(BaseException):
    pass


class LThread(object):
    def __init__(self, tid):
        self.ident = tid
        self.sem = _rt.Semaphore(0)
        self.pending = ('init',)
        self.done = False
        self.real = None


class Sched(object):
    def __init__(self):
        self.main_sem = _rt.Semaphore(0)
        self.threads = {}
        self.by_real = {}
        self.events = []
        self.aborting = False
        self.locks = []            # every fake Lock, in creation order (kept alive)
        self.cmd_locks = []        # locks created after set-up: per-command locks
        self.setup_done = False
        self.notes = set()

    # --- called from logical threads
    def me(self):
        return self.by_real[_rt.get_ident()]

    def yield_(self, pending):
        if self.aborting:
            raise Abort()
        t = self.me()
        t.pending = pending
        self.main_sem.release()
        t.sem.acquire()
        if self.aborting:
            raise Abort()
        return t

    def ev(self, s):
        self.events.append(s)

    # --- called from the harness (main) thread
    def spawn(self, tid, fn):
        t = LThread(tid)
        self.threads[tid] = t

        def body():
            self.by_real[_rt.get_ident()] = t
            t.sem.acquire()
            try:
                if not self.aborting:
                    fn()
            except Abort:
                pass
            t.done = True
            t.pending = ('finished',)
            self.main_sem.release()
        t.real = _rt.Thread(target=body)
        t.real.daemon = True
        t.real.start()
        # run up to its first yield
        t.sem.release()
        self.main_sem.acquire()

    def enabled(self, tid):
        t = self.threads[tid]
        p = t.pending
        k = p[0]
        if k in ('finished', 'blocked'):
            return False
        if k in ('acq', 'reacq'):
            return p[1].free_for(t)
        return True

    def enabled_set(self):
        return [tid for tid in sorted(self.threads) if self.enabled(tid)]

    def step(self, tid):
        t = self.threads[tid]
        assert self.enabled(tid)
        self.events = []
        t.sem.release()
        self.main_sem.acquire()
        return '+'.join(self.events)

    def teardown(self):
        self.aborting = True
        for t in self.threads.values():
            if not t.done:
                t.sem.release()
                self.main_sem.acquire()
        for t in self.threads.values():
            t.real.join(5)


SCHED = None      # the scheduler of the schedule being run


class FLock(object):
    """threading.Lock"""
    def __init__(self):
        self.owner = None
        self.locked_ = False
        s = SCHED
        s.locks.append(self)
        if s.setup_done:
            self.name = 'c%d' % len(s.cmd_locks)
            s.cmd_locks.append(self)
        else:
            self.name = '?'

    def free_for(self, t):
        return not self.locked_

    def acquire(self, blocking=True, timeout=-1):
        s = SCHED
        t = s.yield_(('acq', self))
        assert not self.locked_
        self.locked_ = True
        self.owner = t.ident
        s.ev('acq:' + self.name)
        return True

    def release(self):
        s = SCHED
        if s.aborting:
            return
        s.yield_(('rel', self))
        if not self.locked_:
            raise RuntimeError('release unlocked lock')
        self.locked_ = False
        self.owner = None
        s.ev('rel:' + self.name)

    def locked(self):
        return self.locked_

    __enter__ = acquire

    def __exit__(self, *a):
        self.release()


class FRLock(FLock):
    """threading.RLock; re-entrant acquisition is outside the model and is
    reported if it ever happens."""
    def __init__(self):
        FLock.__init__(self)
        self.depth = 0

    def free_for(self, t):
        return (not self.locked_) or self.owner == t.ident

    def acquire(self, blocking=True, timeout=-1):
        s = SCHED
        t = s.yield_(('acq', self))
        if self.locked_:
            assert self.owner == t.ident
            s.notes.add('re-entrant acquire of %s (outside the model)' % self.name)
        self.locked_ = True
        self.owner = t.ident
        self.depth += 1
        s.ev('acq:' + self.name)
        return True

    def release(self):
        s = SCHED
        if s.aborting:
            return
        t = s.yield_(('rel', self))
        if not self.locked_ or self.owner != t.ident:
            raise RuntimeError('cannot release un-acquired lock')
        self.depth -= 1
        if self.depth == 0:
            self.locked_ = False
            self.owner = None
        s.ev('rel:' + self.name)

    __enter__ = acquire


class FCondition(object):
    """threading.Condition() over an RLock.  wait() = [enqueue + release all]
    ... blocked until notified ... [re-acquire]; notify(n) wakes the n oldest
    waiters (CPython keeps a FIFO deque of waiter locks)."""
    def __init__(self, lock=None):
        self.lock = lock if lock is not None else FRLock()
        self.waiters = []
        self.name = '?'

    def _setname(self, n):
        self.name = n
        self.lock.name = n

    def free_for(self, t):
        return self.lock.free_for(t)

    def acquire(self, *a):
        return self.lock.acquire(*a)

    def release(self):
        return self.lock.release()

    def __enter__(self):
        return self.lock.acquire()

    def __exit__(self, *a):
        self.lock.release()

    def wait(self, timeout=None):
        s = SCHED
        if timeout is not None:
            s.notes.add('Condition.wait with timeout (outside the model)')
        t = s.yield_(('wait', self))
        lk = self.lock
        if not lk.locked_ or lk.owner != t.ident:
            raise RuntimeError('cannot wait on un-acquired lock')
        if lk.depth != 1:
            s.notes.add('wait with re-entrant depth %d' % lk.depth)
        saved = lk.depth
        self.waiters.append(t)
        lk.depth = 0
        lk.locked_ = False
        lk.owner = None
        s.ev('wait:' + self.name)
        s.yield_(('blocked', self))       # pending becomes ('reacq', self) on notify
        assert lk.free_for(t) and not lk.locked_
        lk.locked_ = True
        lk.owner = t.ident
        lk.depth = saved
        s.ev('reacq:' + self.name)
        return True

    def _notify(self, n, tag):
        s = SCHED
        t = s.yield_((tag, self))
        lk = self.lock
        if not lk.locked_ or lk.owner != t.ident:
            raise RuntimeError('cannot notify on un-acquired lock')
        woken = self.waiters[:n]
        self.waiters = self.waiters[n:]
        for w in woken:
            w.pending = ('reacq', self)
        s.ev('%s:%s:%s' % (tag, self.name,
                           '.'.join(str(w.ident) for w in woken) or '-'))

    def notify(self, n=1):
        self._notify(n, 'ntf')

    def notify_all(self):
        self._notify(len(self.waiters), 'nta')

    notifyAll = notify_all


def _fake_modules():
    ft = types.ModuleType('threading')
    ft.Lock = FLock
    ft.RLock = FRLock
    ft.Condition = FCondition
    ft.current_thread = lambda: SCHED.me()
    ft.currentThread = ft.current_thread

    class _NoThread(object):
        def __init__(self, *a, **k):
            raise RuntimeError('threads are created by the harness')
    ft.Thread = _NoThread
    fth = types.ModuleType('_thread')
    fth.LockType = FLock
    fth.allocate_lock = FLock
    return ft, fth


_CTRL_CODE = None


def load_controller():
    """A fresh copy of pysph/solver/controller.py whose `threading` and
    `LockType` are the cooperative ones (including the lock that the
    import-time `@synchronized` decorator of `dispatch` creates)."""
    global _CTRL_CODE
    if _CTRL_CODE is None:
        with open(CTRL_PATH) as fh:
            _CTRL_CODE = compile(fh.read(), CTRL_PATH, 'exec')
    ft, fth = _fake_modules()
    mod = types.ModuleType('pysph_solver_controller_under_test')
    mod.__file__ = CTRL_PATH
    saved = {k: sys.modules.get(k) for k in ('threading', '_thread', 'thread')}
    sys.modules['threading'] = ft
    sys.modules['_thread'] = fth
    sys.modules.pop('thread', None)
    try:
        exec(_CTRL_CODE, mod.__dict__)
    finally:
        for k, v in saved.items():
            if v is None:
                sys.modules.pop(k, None)
            else:
                sys.modules[k] = v
    assert mod.threading is ft and mod.LockType is FLock
    return mod


# ---------------------------------------------------------------------------
# running one case on the real code

class StubSolver(object):
    """what the CommandManager touches of a Solver"""
    def __init__(self, log):
        self._dt = 0
        self.count = 0
        self.particles = []
        self._log = log
        self.in_cp = False

    @property
    def dt(self):
        return self._dt

    @dt.setter
    def dt(self, v):
        self._log.append(('set', v, SCHED.me().ident, self.in_cp, self.count))
        self._dt = v

    def probe(self, token):
        self._log.append(('probe', token, SCHED.me().ident, self.in_cp,
                          self.count))
        return self.count


def parse_op(tok):
    if tok in ('g', 'p', 'w', 'c', 'qd'):
        return (tok, None)
    if tok.startswith('qs'):
        return ('qs', int(tok[2:]))
    if tok.startswith('s'):
        return ('s', int(tok[1:]))
    if tok.startswith('r'):
        return ('r', int(tok[1:]))
    raise ValueError(tok)


def run_impl(case, chooser):
    """Run the real CommandManager under the cooperative scheduler.

    case['progs']: list (one per interface thread) of op-token lists.
    chooser(step_no, enabled_tids) -> tid or None (stop).
    Returns the trace and everything the oracle needs."""
    global SCHED
    S = SCHED = Sched()
    mod = load_controller()
    dlocks = list(S.locks)
    log = []
    solver = StubSolver(log)
    cm = mod.CommandManager(solver)
    assert len(dlocks) == 1, 'expected exactly the dispatch lock at import'
    dlocks[0].name = 'd'
    cm.res_lock.name = 'res'
    cm.rlock.name = 'rl'
    cm.plock._setname('p')
    cm.qlock._setname('q')
    S.setup_done = True
    ctl_b = mod.Controller(cm, True)
    ctl_n = mod.Controller(cm, False)
    progs = [[parse_op(o) for o in p] for p in case['progs']]
    oplog = []      # (tid, opindex, token, 'start'|'done', result, global step)
    cur_step = [0]
    token_ctr = [0]
    cmd_of = {}     # lock index -> ('set', v) | ('probe', token)

    def realid(k):
        if 0 <= k < len(S.cmd_locks):
            return id(S.cmd_locks[k])
        return 1        # never the id of an object: unknown task id

    def lockindex(s):
        i = int(s)
        for k, lk in enumerate(S.cmd_locks):
            if id(lk) == i:
                return k
        return -1

    def iface(tid, prog):
        def fn():
            for j, (op, arg) in enumerate(prog):
                tok = op + ('' if arg is None else str(arg))
                S.yield_(('start', tok))
                S.ev('start:' + tok)
                oplog.append((tid, j, tok, 'start', None, cur_step[0]))
                try:
                    if op == 'g':
                        res = 'v%d' % ctl_n.get('dt')
                    elif op == 's':
                        r = ctl_b.set('dt', arg)
                        res = 'none' if r is None else repr(r)
                    elif op == 'qs':
                        n0 = len(S.cmd_locks)
                        r = ctl_n.set('dt', arg)
                        k = lockindex(r)
                        cmd_of[k] = ('set', arg)
                        res = 'k%d' % k
                        assert k == n0
                    elif op == 'qd':
                        token_ctr[0] += 1
                        tokn = token_ctr[0]
                        n0 = len(S.cmd_locks)
                        cmd_of[n0] = ('probe', tokn)
                        r = ctl_n.dump_output('probe', tokn)
                        k = lockindex(r)
                        res = 'k%d' % k
                        assert k == n0
                    elif op == 'r':
                        r = ctl_n.get_result(realid(arg))
                        if r is None:
                            res = 'none'
                        elif isinstance(r, list) and len(r) == 1:
                            res = 'd%d' % r[0]
                        else:
                            res = 'odd:%r' % (r,)
                    elif op == 'p':
                        r = ctl_n.pause_on_next()
                        res = 'true' if r is True else repr(r)
                    elif op == 'w':
                        r = ctl_n.wait()
                        res = 'true' if r is True else repr(r)
                    elif op == 'c':
                        r = ctl_n.cont()
                        res = 'none' if r is None else repr(r)
                except Abort:
                    raise
                except Exception as e:      # noqa
                    res = 'err'
                    oplog.append((tid, j, tok, 'raise', type(e).__name__,
                                  cur_step[0]))
                S.ev('done=' + res)
                oplog.append((tid, j, tok, 'done', res, cur_step[0]))
        return fn

    progress_steps = []

    def solver_fn():
        while True:
            S.yield_(('start', 'step'))
            solver.count += 1
            S.ev('progress')
            progress_steps.append(cur_step[0])
            solver.in_cp = True
            cm.execute_commands(solver)
            solver.in_cp = False
            S.ev('done=cp')

    S.spawn(0, solver_fn)
    for i, prog in enumerate(progs):
        S.spawn(i + 1, iface(i + 1, prog))
    trace = []
    n = 0
    while True:
        en = S.enabled_set()
        tid = chooser(n, en, S)
        if tid is None:
            break
        if tid not in en:
            trace.append(('.'.join(map(str, en)) or '-', 'stuck:%d' % tid))
            break
        cur_step[0] = n
        ev = S.step(tid)
        trace.append(('.'.join(map(str, en)) or '-', '%d:%s' % (tid, ev)))
        n += 1
    en = S.enabled_set()
    pend = {}
    for tid, t in S.threads.items():
        p = t.pending
        holder = None
        if p[0] in ('acq', 'reacq'):
            lk = p[1].lock if isinstance(p[1], FCondition) else p[1]
            holder = lk.owner
        pend[tid] = (p[0], getattr(p[1], 'name', p[1]) if len(p) > 1 else '',
                     holder)
    final = {
        'enabled': en,
        'queue': [lockindex(x) for x in cm.queue],
        'pause': sorted(cm.pause),
        'results': sorted(lockindex(x) for x in cm.results),
        'lockmap': sorted(lockindex(x) for x in cm.queue_lock_map),
        'qdict': sorted(lockindex(x) for x in cm.queue_dict),
        'dt': solver._dt, 'count': solver.count,
        'pending': pend,
        'finished': sorted(tid for tid, t in S.threads.items() if t.done),
    }
    notes = sorted(S.notes)
    S.teardown()
    SCHED = None
    return {'trace': trace, 'final': final, 'log': log, 'oplog': oplog,
            'cmd_of': cmd_of, 'progress_steps': progress_steps,
            'notes': notes, 'nsteps': n}
