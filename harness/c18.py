"""C18 correspondence + property oracle: the solver controller never loses a
command or a wake-up.

impl  : pysph.solver.controller (CommandManager, Controller) of the scratch
        build, imported with `threading`/`_thread` replaced by the cooperative
        implementation below (every Lock/RLock/Condition operation is a yield
        point; one logical thread runs at a time, the harness picks which).
model : lean PysphVerif.Model.Controller (small-step transition system at the
        same granularity), driven through model_c18.
tie   : per schedule, per step: set of enabled threads, the primitive executed,
        the results of completed operations; final queue / pause / execution log.
oracle: the property statement evaluated on the trace of the REAL code only
        (exactly-once execution at a control point, result delivery, wait/cont
        discipline, nobody blocked forever for every program set that does not
        end inside a pause section = Controller.WF of the liveness theorems).
"""
import importlib.util
import json
import os
import random
import sys
import threading as _rt
import time
import types

import hcommon as H

H.assert_scratch_import()
import logging  # noqa: E402,F401  (must be imported with the real threading)
import pysph.base.particle_array  # noqa: E402,F401  (ditto)
import pysph.solver  # noqa: E402

CTRL_PATH = os.path.join(os.path.dirname(pysph.solver.__file__), 'controller.py')


# ---------------------------------------------------------------------------
# cooperative scheduler + threading replacement

class Abort(BaseException):
    pass


class Hang(Exception):
    """a logical thread did not come back to the scheduler within WATCHDOG
    seconds: it blocks on something that is not one of the cooperative
    primitives (or loops for ever)"""


WATCHDOG = 4.0          # seconds of wall time one scheduler step may take
CASE_BUDGET = 20.0      # seconds of wall time one case may take


class LThread(object):
    def __init__(self, tid):
        self.ident = tid
        self.sem = _rt.Semaphore(0)
        self.pending = ('init',)
        self.done = False
        self.real = None
        self.crashed = None      # repr of an exception that ended the thread


class Sched(object):
    def __init__(self):
        self.main_sem = _rt.Semaphore(0)
        self.threads = {}
        self.by_real = {}
        self.events = []
        self.aborting = False
        self.locks = []            # the locks created during set-up (kept alive)
        self.ncmd = 0              # number of per-command locks created so far
        self.setup_done = False
        self.notes = set()
        self.hung = None
        # task ids: controller.py calls id(lock); the harness substitutes an
        # allocator that behaves like CPython's for objects of one size class
        # (the address of a freed lock is handed to the next lock created)
        # but deterministically.  Per-command locks are NOT kept alive here.
        self.next_fid = 1000
        self.free_fids = []        # ids of freed locks, most recently freed last
        self.retired = set()       # ids whose result was collected: never reused
        self.fid_of_k = {}         # task index -> id handed out by dispatch
        self.k_of_fid = {}         # id -> latest task index it was handed to
        self.collected = set()     # task indices whose result get_result returned
        self.id_collisions = []    # (id, older uncollected task, new task)

    # --- called from logical threads
    def me(self):
        return self.by_real[_rt.get_ident()]

    def yield_(self, pending):
        if self.aborting:
            raise Abort()
        t = self.me()
        t.pending = pending
        self.main_sem.release()
        t.sem.acquire()
        if self.aborting:
            raise Abort()
        return t

    def ev(self, s):
        self.events.append(s)

    # --- called from the harness (main) thread
    def spawn(self, tid, fn):
        t = LThread(tid)
        self.threads[tid] = t

        def body():
            self.by_real[_rt.get_ident()] = t
            t.sem.acquire()
            try:
                if not self.aborting:
                    fn()
            except Abort:
                pass
            except BaseException as e:      # noqa  (the thread dies of it)
                t.crashed = '%s: %s' % (type(e).__name__, e)
                self.events.append('raised=' + type(e).__name__)
            t.done = True
            t.pending = ('finished',)
            self.main_sem.release()
        t.real = _rt.Thread(target=body)
        t.real.daemon = True
        t.real.start()
        # run up to its first yield
        t.sem.release()
        self._await(tid)

    def _await(self, tid):
        """wait for the running logical thread to reach its next yield point;
        never for longer than WATCHDOG seconds"""
        if not self.main_sem.acquire(timeout=WATCHDOG):
            self.hung = tid
            raise Hang(tid)

    def enabled(self, tid):
        t = self.threads[tid]
        p = t.pending
        k = p[0]
        if k in ('finished', 'blocked'):
            return False
        if k in ('acq', 'reacq', 'twait'):
            return p[1].free_for(t)
        return True

    def deadlocked(self):
        """every thread that has not finished is blocked"""
        return not self.enabled_set() and any(
            not t.done for t in self.threads.values())

    def enabled_set(self):
        return [tid for tid in sorted(self.threads) if self.enabled(tid)]

    def step(self, tid):
        t = self.threads[tid]
        assert self.enabled(tid)
        self.events = []
        t.sem.release()
        self._await(tid)
        return '+'.join(self.events)

    def teardown(self):
        self.aborting = True
        for tid, t in self.threads.items():
            if not t.done and tid != self.hung:
                t.sem.release()
                if not self.main_sem.acquire(timeout=WATCHDOG):
                    break
        for tid, t in self.threads.items():
            if tid != self.hung:
                t.real.join(2)

    # --- task ids
    def fake_id(self, obj):
        if not isinstance(obj, FLock):
            return id(obj)
        if obj.fid is None:
            fid = None
            while self.free_fids:
                c = self.free_fids.pop()
                if c not in self.retired:
                    fid = c
                    break
            if fid is None:
                fid = self.next_fid
                self.next_fid += 1
            obj.fid = fid
            k = obj.index
            if k is not None:
                old = self.k_of_fid.get(fid)
                if old is not None and old not in self.collected:
                    self.id_collisions.append((fid, old, k))
                self.fid_of_k[k] = fid
                self.k_of_fid[fid] = k
        return obj.fid

    def freed(self, fid):
        if fid not in self.retired:
            self.free_fids.append(fid)

    def collect(self, k):
        """get_result handed out the result of task k: its id is retired (on
        the unmodified code the lock lives until then, so ids never repeat
        and the model's never-reused task ids are what the code does)"""
        self.collected.add(k)
        fid = self.fid_of_k.get(k)
        if fid is not None:
            self.retired.add(fid)


SCHED = None      # the scheduler of the schedule being run


class FLock(object):
    """threading.Lock"""
    def __init__(self):
        self.owner = None
        self.locked_ = False
        self.fid = None
        self.index = None
        s = self.sched = SCHED
        if s.setup_done:
            self.index = s.ncmd
            self.name = 'c%d' % s.ncmd
            s.ncmd += 1
        else:
            self.name = '?'
            s.locks.append(self)

    def __del__(self):
        try:
            if self.fid is not None and self.sched is SCHED:
                self.sched.freed(self.fid)
        except Exception:       # noqa  (interpreter shutdown)
            pass

    def free_for(self, t):
        return not self.locked_

    def acquire(self, blocking=True, timeout=-1):
        s = SCHED
        if not blocking or (timeout is not None and timeout >= 0):
            # try-lock / timed acquire: one always-enabled yield point; a timed
            # acquire of a held lock is taken to time out (outside the model)
            s.notes.add('non-blocking or timed Lock.acquire (outside the model)')
            t = s.yield_(('try', self))
            if not self.free_for(t):
                s.ev('tryfail:' + self.name)
                return False
            return self._take(s, t)
        t = s.yield_(('acq', self))
        return self._take(s, t)

    def _take(self, s, t):
        assert not self.locked_
        self.locked_ = True
        self.owner = t.ident
        s.ev('acq:' + self.name)
        return True

    def release(self):
        s = SCHED
        if s.aborting:
            return
        s.yield_(('rel', self))
        if not self.locked_:
            raise RuntimeError('release unlocked lock')
        self.locked_ = False
        self.owner = None
        s.ev('rel:' + self.name)

    def locked(self):
        return self.locked_

    def __enter__(self):
        return self.acquire()

    def __exit__(self, *a):
        self.release()


class FRLock(FLock):
    """threading.RLock; re-entrant acquisition is outside the model and is
    reported if it ever happens."""
    def __init__(self):
        FLock.__init__(self)
        self.depth = 0

    def free_for(self, t):
        return (not self.locked_) or self.owner == t.ident

    def acquire(self, blocking=True, timeout=-1):
        s = SCHED
        if not blocking or (timeout is not None and timeout >= 0):
            s.notes.add('non-blocking or timed RLock.acquire (outside the model)')
            t = s.yield_(('try', self))
            if not self.free_for(t):
                s.ev('tryfail:' + self.name)
                return False
        else:
            t = s.yield_(('acq', self))
        if self.locked_:
            assert self.owner == t.ident
            s.notes.add('re-entrant acquire of %s (outside the model)' % self.name)
        self.locked_ = True
        self.owner = t.ident
        self.depth += 1
        s.ev('acq:' + self.name)
        return True

    def _is_owned(self):
        return self.locked_ and self.owner == SCHED.me().ident

    def release(self):
        s = SCHED
        if s.aborting:
            return
        t = s.yield_(('rel', self))
        if not self.locked_ or self.owner != t.ident:
            raise RuntimeError('cannot release un-acquired lock')
        self.depth -= 1
        if self.depth == 0:
            self.locked_ = False
            self.owner = None
        s.ev('rel:' + self.name)

    def __enter__(self):
        return self.acquire()


class FCondition(object):
    """threading.Condition() over an RLock.  wait() = [enqueue + release all]
    ... blocked until notified ... [re-acquire]; notify(n) wakes the n oldest
    waiters (CPython keeps a FIFO deque of waiter locks)."""
    def __init__(self, lock=None):
        self.lock = lock if lock is not None else FRLock()
        self.waiters = []
        self.name = '?'

    def _setname(self, n):
        self.name = n
        self.lock.name = n

    def free_for(self, t):
        return self.lock.free_for(t)

    def acquire(self, *a, **k):
        return self.lock.acquire(*a, **k)

    def release(self):
        return self.lock.release()

    def __enter__(self):
        return self.lock.acquire()

    def __exit__(self, *a):
        self.lock.release()

    def wait(self, timeout=None):
        """timeout=None: blocked until notified.  With a timeout the waiter
        may in addition give up at any moment the lock is free (a timeout can
        fire at any time): it then returns False, as CPython's does."""
        s = SCHED
        if timeout is not None:
            s.notes.add('Condition.wait with timeout (outside the model)')
        t = s.yield_(('wait', self))
        lk = self.lock
        if not lk.locked_ or lk.owner != t.ident:
            raise RuntimeError('cannot wait on un-acquired lock')
        depth = getattr(lk, 'depth', 1)
        if depth != 1:
            s.notes.add('wait with re-entrant depth %d' % depth)
        saved = depth
        self.waiters.append(t)
        if hasattr(lk, 'depth'):
            lk.depth = 0
        lk.locked_ = False
        lk.owner = None
        s.ev('wait:' + self.name)
        # pending becomes ('reacq', self) on notify
        s.yield_(('blocked', self) if timeout is None else ('twait', self))
        assert lk.free_for(t) and not lk.locked_
        notified = t not in self.waiters
        if not notified:
            self.waiters.remove(t)
        lk.locked_ = True
        lk.owner = t.ident
        if hasattr(lk, 'depth'):
            lk.depth = saved
        s.ev(('reacq:' if notified else 'timeout:') + self.name)
        return notified

    def wait_for(self, predicate, timeout=None):
        """as CPython: `while not predicate(): self.wait()`; the predicate is
        ordinary code run under the lock, each wait() a pair of yield points"""
        result = predicate()
        while not result:
            if timeout is not None:
                if not self.wait(timeout):
                    return predicate()
            else:
                self.wait()
            result = predicate()
        return result

    def _is_owned(self):
        lk = self.lock
        return lk.locked_ and lk.owner == SCHED.me().ident

    def _notify(self, n, tag):
        s = SCHED
        t = s.yield_((tag, self))
        lk = self.lock
        if not lk.locked_ or lk.owner != t.ident:
            raise RuntimeError('cannot notify on un-acquired lock')
        n = max(int(n), 0)
        woken = self.waiters[:n]
        self.waiters = self.waiters[n:]
        for w in woken:
            w.pending = ('reacq', self)
        s.ev('%s:%s:%s' % (tag, self.name,
                           '.'.join(str(w.ident) for w in woken) or '-'))

    def notify(self, n=1):
        self._notify(n, 'ntf')

    def notify_all(self):
        self._notify(len(self.waiters), 'nta')

    notifyAll = notify_all


def _fake_modules():
    ft = types.ModuleType('threading')
    ft.Lock = FLock
    ft.RLock = FRLock
    ft.Condition = FCondition
    ft.current_thread = lambda: SCHED.me()
    ft.currentThread = ft.current_thread

    class _NoThread(object):
        def __init__(self, *a, **k):
            raise RuntimeError('threads are created by the harness')
    ft.Thread = _NoThread
    fth = types.ModuleType('_thread')
    fth.LockType = FLock
    fth.allocate_lock = FLock
    return ft, fth


_CTRL_CODE = None


def load_controller():
    """A fresh copy of pysph/solver/controller.py whose `threading` and
    `LockType` are the cooperative ones (including the lock that the
    import-time `@synchronized` decorator of `dispatch` creates)."""
    global _CTRL_CODE
    if _CTRL_CODE is None:
        with open(CTRL_PATH) as fh:
            _CTRL_CODE = compile(fh.read(), CTRL_PATH, 'exec')
    ft, fth = _fake_modules()
    mod = types.ModuleType('pysph_solver_controller_under_test')
    mod.__file__ = CTRL_PATH
    mod.__dict__['id'] = lambda obj: SCHED.fake_id(obj)   # see Sched.fake_id
    saved = {k: sys.modules.get(k) for k in ('threading', '_thread', 'thread')}
    sys.modules['threading'] = ft
    sys.modules['_thread'] = fth
    sys.modules.pop('thread', None)
    try:
        exec(_CTRL_CODE, mod.__dict__)
    finally:
        for k, v in saved.items():
            if v is None:
                sys.modules.pop(k, None)
            else:
                sys.modules[k] = v
    assert mod.threading is ft and mod.LockType is FLock
    return mod


# ---------------------------------------------------------------------------
# running one case on the real code

class StubSolver(object):
    """what the CommandManager touches of a Solver"""
    def __init__(self, log):
        self._dt = 0
        self.count = 0
        self.particles = []
        self._log = log
        self.in_cp = False

    @property
    def dt(self):
        return self._dt

    @dt.setter
    def dt(self, v):
        self._log.append(('set', v, SCHED.me().ident, self.in_cp, self.count))
        self._dt = v

    def probe(self, token):
        self._log.append(('probe', token, SCHED.me().ident, self.in_cp,
                          self.count))
        return self.count


def parse_op(tok):
    if tok in ('g', 'p', 'w', 'c', 'qd'):
        return (tok, None)
    if tok.startswith('qs'):
        return ('qs', int(tok[2:]))
    if tok.startswith('s'):
        return ('s', int(tok[1:]))
    if tok.startswith('r'):
        return ('r', int(tok[1:]))
    if tok.startswith('m'):
        return ('m', int(tok[1:]))
    raise ValueError(tok)


def run_impl(case, chooser):
    """Run the real CommandManager under the cooperative scheduler.

    case['progs']: list (one per interface thread) of op-token lists.
    chooser(step_no, enabled_tids) -> tid or None (stop).
    Returns the trace and everything the oracle needs."""
    global SCHED
    S = SCHED = Sched()
    mod = load_controller()
    dlocks = list(S.locks)
    log = []
    solver = StubSolver(log)
    cm = mod.CommandManager(solver)
    assert len(dlocks) == 1, 'expected exactly the dispatch lock at import'
    dlocks[0].name = 'd'
    cm.res_lock.name = 'res'
    cm.rlock.name = 'rl'
    cm.plock._setname('p')
    cm.qlock._setname('q')
    S.setup_done = True
    ctl_b = mod.Controller(cm, True)
    ctl_n = mod.Controller(cm, False)
    progs = [[parse_op(o) for o in p] for p in case['progs']]
    oplog = []      # (tid, opindex, token, 'start'|'done', result, global step)
    cur_step = [0]
    token_ctr = [0]
    cmd_of = {}     # lock index -> ('set', v) | ('probe', token)
    mine = {i + 1: [] for i in range(len(progs))}   # task ids each thread got

    def realid(k):
        return S.fid_of_k.get(k, 1)     # 1 is never handed out: unknown task id

    def lockindex(s):
        return S.k_of_fid.get(int(s), -1)

    def iface(tid, prog):
        def fn():
            for j, (op, arg) in enumerate(prog):
                tok = op + ('' if arg is None else str(arg))
                S.yield_(('start', tok))
                S.ev('start:' + tok)
                oplog.append((tid, j, tok, 'start',
                              (solver.in_cp, solver.count), cur_step[0]))
                try:
                    if op == 'g':
                        res = 'v%d' % ctl_n.get('dt')
                    elif op == 's':
                        r = ctl_b.set('dt', arg)
                        res = 'none' if r is None else repr(r)
                    elif op == 'qs':
                        r = ctl_n.set('dt', arg)
                        k = lockindex(r)
                        cmd_of[k] = ('set', arg)
                        mine[tid].append(k)
                        res = 'k%d' % k
                    elif op == 'qd':
                        token_ctr[0] += 1
                        tokn = token_ctr[0]
                        r = ctl_n.dump_output('probe', tokn)
                        k = lockindex(r)
                        cmd_of[k] = ('probe', tokn)
                        mine[tid].append(k)
                        res = 'k%d' % k
                    elif op in ('r', 'm'):
                        if op == 'm':
                            arg = mine[tid][arg] if arg < len(mine[tid]) else -1
                        r = ctl_n.get_result(realid(arg))
                        S.collect(arg)
                        if r is None:
                            res = 'none'
                        elif isinstance(r, list) and len(r) == 1:
                            res = 'd%d' % r[0]
                        else:
                            res = 'odd:%r' % (r,)
                    elif op == 'p':
                        r = ctl_n.pause_on_next()
                        res = 'true' if r is True else repr(r)
                    elif op == 'w':
                        r = ctl_n.wait()
                        res = 'true' if r is True else repr(r)
                    elif op == 'c':
                        r = ctl_n.cont()
                        res = 'none' if r is None else repr(r)
                except Abort:
                    raise
                except Exception as e:      # noqa
                    res = 'err'
                    oplog.append((tid, j, tok, 'raise', type(e).__name__,
                                  cur_step[0]))
                S.ev('done=' + res)
                oplog.append((tid, j, tok, 'done', res, cur_step[0],
                              (solver.in_cp, solver.count),
                              mine[tid][-1] if op in ('qs', 'qd') and res != 'err'
                              else (arg if op in ('r', 'm') else None)))
        return fn

    progress_steps = []

    def solver_fn():
        while True:
            S.yield_(('start', 'step'))
            solver.count += 1
            S.ev('progress')
            progress_steps.append(cur_step[0])
            solver.in_cp = True
            cm.execute_commands(solver)
            solver.in_cp = False
            S.ev('done=cp')

    trace = []
    n = 0
    hang = None
    t_start = time.time()
    try:
        S.spawn(0, solver_fn)
        for i, prog in enumerate(progs):
            S.spawn(i + 1, iface(i + 1, prog))
        while True:
            en = S.enabled_set()
            tid = chooser(n, en, S)
            if tid is None:
                break
            if tid not in en:
                trace.append(('.'.join(map(str, en)) or '-', 'stuck:%d' % tid))
                break
            if time.time() - t_start > CASE_BUDGET:
                hang = 'case exceeded %.0f s of wall time after %d steps' % (
                    CASE_BUDGET, n)
                break
            cur_step[0] = n
            ev = S.step(tid)
            trace.append(('.'.join(map(str, en)) or '-', '%d:%s' % (tid, ev)))
            n += 1
    except Hang as h:
        hang = ('thread %s did not reach its next synchronisation primitive '
                'within %.0f s (step %d)' % (h.args[0], WATCHDOG, n))
    deadlock = S.deadlocked()
    en = S.enabled_set()
    pend = {}
    for tid, t in S.threads.items():
        p = t.pending
        holder = None
        if p[0] in ('acq', 'reacq'):
            lk = p[1].lock if isinstance(p[1], FCondition) else p[1]
            holder = lk.owner
        pend[tid] = (p[0], getattr(p[1], 'name', p[1]) if len(p) > 1 else '',
                     holder)
    final = {
        'enabled': en,
        'queue': [lockindex(x) for x in cm.queue],
        'pause': sorted(cm.pause),
        'results': sorted(lockindex(x) for x in cm.results),
        'lockmap': sorted(lockindex(x) for x in cm.queue_lock_map),
        'qdict': sorted(lockindex(x) for x in cm.queue_dict),
        'dt': solver._dt, 'count': solver.count,
        'pending': pend,
        'finished': sorted(tid for tid, t in S.threads.items()
                           if t.done and tid != 0),
    }
    notes = sorted(S.notes)
    crashed = {tid: t.crashed for tid, t in S.threads.items() if t.crashed}
    collisions = list(S.id_collisions)
    S.teardown()
    SCHED = None
    return {'trace': trace, 'final': final, 'log': log, 'oplog': oplog,
            'cmd_of': cmd_of, 'progress_steps': progress_steps,
            'notes': notes, 'nsteps': n, 'hang': hang, 'deadlock': deadlock,
            'crashed': crashed, 'id_collisions': collisions}


# ---------------------------------------------------------------------------
# schedules

def follow(sched, drain=True, cap=900):
    """chooser following a given list of thread ids (entries that are not
    enabled on this implementation are skipped), then the fair drain."""
    it = iter(sched)
    st = {'rr': 0, 'cps': None}

    def ch(n, en, S):
        if n >= cap or not en:
            return None
        for t in it:
            if t in en:
                return t
        return drain_choice(st, en, S) if drain else None
    return ch


def drain_choice(st, en, S):
    """fair round-robin until every interface thread has finished and the
    solver has completed two further control points"""
    ifaces_done = all(t.done for tid, t in S.threads.items() if tid != 0)
    if ifaces_done:
        if st['cps'] is None:
            st['cps'] = 0
        p = S.threads[0].pending
        if p == ('start', 'step'):
            st['cps'] += 1
            if st['cps'] > 2:
                return None
    ids = sorted(S.threads)
    for k in range(len(ids)):
        t = ids[(st['rr'] + k) % len(ids)]
        if t in en:
            st['rr'] = (ids.index(t) + 1) % len(ids)
            return t
    return None


def random_chooser(rng, style, nmain, cap=900):
    st = {'rr': 0, 'cps': None, 'last': None}

    def ch(n, en, S):
        if n >= cap or not en:
            return None
        ifaces_done = all(t.done for tid, t in S.threads.items() if tid != 0)
        if n >= nmain or ifaces_done:
            return drain_choice(st, en, S)
        if style == 'bursty' and st['last'] in en and rng.random() < 0.7:
            return st['last']
        if style == 'solver-eager' and 0 in en and rng.random() < 0.6:
            t = 0
        elif style == 'iface-eager' and len(en) > 1 and rng.random() < 0.8:
            t = rng.choice([x for x in en if x != 0])
        else:
            t = rng.choice(en)
        st['last'] = t
        return t
    return ch


# ---------------------------------------------------------------------------
# programs

def wellformed(progs):
    """pause_on_next ... [wait] ... cont balanced per thread, wait/cont only
    inside, get_result only of own earlier tasks and once each"""
    for p in progs:
        paused = False
        nq = 0
        fetched = set()
        for tok in p:
            op, arg = parse_op(tok)
            if op == 'p':
                if paused:
                    return False
                paused = True
            elif op in ('w', 'c'):
                if not paused:
                    return False
                if op == 'c':
                    paused = False
            elif op in ('qs', 'qd'):
                nq += 1
            elif op == 'm':
                if arg >= nq or arg in fetched:
                    return False
                fetched.add(arg)
            elif op == 'r':
                return False
        if paused:
            return False
    return True


def ends_outside_pause(progs):
    """the only requirement of the Lean theorems `no_deadlock` /
    `terminates_under_strong_fairness` (Controller.WF): no program ends
    inside a pause section (pause_on_next sets the flag, cont clears it -
    also a cont that raises because the thread was not pausing)"""
    for p in progs:
        paused = False
        for tok in p:
            op, arg = parse_op(tok)
            if op == 'p':
                paused = True
            elif op == 'c':
                paused = False
        if paused:
            return False
    return True


def gen_progs(rng, big):
    nthr = rng.choice([1, 1, 2, 2, 2, 3 if big else 2])
    wf = rng.random() < 0.7
    uniq = [100]
    progs = []
    for _ in range(nthr):
        p = []
        nq = 0
        unf = []
        paused = False
        n = rng.randint(1, 9 if big else 7)
        for _ in range(n):
            r = rng.random()
            if wf:
                if paused and r < 0.35:
                    p.append('c')
                    paused = False
                elif paused and r < 0.6:
                    p.append('w')
                elif not paused and r < 0.3:
                    p.append('p')
                    paused = True
                elif r < 0.72:
                    uniq[0] += 1
                    p.append(rng.choice(['qd', 'qs%d' % uniq[0]]))
                    unf.append(nq)
                    nq += 1
                elif r < 0.87 and unf:
                    p.append('m%d' % unf.pop(rng.randrange(len(unf))))
                elif r < 0.94:
                    p.append('g')
                else:
                    p.append('s%d' % rng.randint(1, 99))
            else:
                uniq[0] += 1
                p.append(rng.choice(
                    ['g', 's%d' % rng.randint(1, 99), 'qs%d' % uniq[0], 'qd',
                     'r%d' % rng.randint(0, 3), 'm%d' % rng.randint(0, 2),
                     'p', 'w', 'c', 'p', 'c', 'qd']))
        if wf and paused:
            p.append('c')
        if not wf and rng.random() < 0.6 and not ends_outside_pause([p]):
            p.append('c')     # arbitrary order / ids, but ends outside pause
        progs.append(p)
    return progs


# ---------------------------------------------------------------------------
# model

FIXED = '1011'
ORIG = '0100'
ALLCFG = ['%d%d%d%d' % (a, b, c, d) for a in (0, 1) for b in (0, 1)
          for c in (0, 1) for d in (0, 1)]


def realized(impl):
    return [int(ev.split(':')[0]) for en, ev in impl['trace']
            if not ev.startswith('stuck')]


def model_line(cfg, progs, sched):
    return 'run cfg=%s progs=%s sched=%s' % (
        cfg, '/'.join(','.join(p) for p in progs) if progs else '_',
        ','.join(map(str, sched)) or '_')


def impl_steps(impl):
    f = impl['final']
    steps = ['%s|%s' % (en, ev) for en, ev in impl['trace']
             if not ev.startswith('stuck')]
    fin = 'end queue=%s pause=%s results=%s lockmap=%s qdict=%s dt=%d count=%d' % (
        H.ilist(f['queue']), H.ilist(f['pause']), H.ilist(f['results']),
        H.ilist(f['lockmap']), H.ilist(f['qdict']), f['dt'], f['count'])
    return steps, fin, '.'.join(map(str, f['enabled'])) or '-'


def exec_log(impl):
    """(task index, count) of every command the solver thread executed, in
    order, read off the stub solver's log"""
    inv = {}
    for k, c in impl['cmd_of'].items():
        inv.setdefault(c, []).append(k)
    out = []
    for kind, payload, tid, in_cp, count in impl['log']:
        if tid != 0:
            continue
        ks = inv.get((kind, payload), [])
        out.append('%s@%d' % (ks[0] if len(ks) == 1 else '?', count))
    return ','.join(out) or '_'


def compare(impl, mline):
    """None if the model's answer equals the implementation's trace, else a
    short description of the first difference"""
    ms = mline.split(';')
    steps, fin, en = impl_steps(impl)
    if len(ms) != len(steps) + 1:
        k = min(len(ms) - 1, len(steps))
        for i in range(k):
            if ms[i] != steps[i]:
                return 'step %d: model %r impl %r' % (i, ms[i], steps[i])
        return 'length: model %d steps, impl %d; model tail %r' % (
            len(ms) - 1, len(steps), ms[-2:] if len(ms) > 1 else ms)
    for i, (a, b) in enumerate(zip(ms, steps)):
        if a != b:
            return 'step %d: model %r impl %r' % (i, a, b)
    last = ms[-1]
    men, mfin = last.split('|', 1)
    if men != en:
        return 'final enabled set: model %s impl %s' % (men, en)
    want = fin + ' exec=' + exec_log(impl)
    got = mfin.split(' finished=')[0]
    if '?' not in want and got != want:
        return 'final state: model %r impl %r' % (got, want)
    mf = mfin.split(' finished=')[1].split(' ')[0]
    if mf != H.ilist(impl['final']['finished']):
        return 'finished threads: model %s impl %s' % (
            mf, impl['final']['finished'])
    return None


# ---------------------------------------------------------------------------
# the property, evaluated on the trace of the real code

def oracle(case, impl, R):
    """returns list of (key, demand, observed)"""
    fails = []
    progs = case['progs']
    wf = wellformed(progs)
    wf_live = ends_outside_pause(progs)
    oplog = impl['oplog']
    cmd_of = impl['cmd_of']
    log = impl['log']
    payloads = list(cmd_of.values())
    unique = len(set(payloads)) == len(payloads) and not any(
        parse_op(t)[0] == 's' and ('set', parse_op(t)[1]) in payloads
        for p in progs for t in p)
    execs = {}
    if unique:
        inv = {c: k for k, c in cmd_of.items()}
        for kind, payload, tid, in_cp, count in log:
            k = inv.get((kind, payload))
            if k is None:
                continue
            execs.setdefault(k, []).append((tid, in_cp, count))
        for k, ex in execs.items():
            if len(ex) > 1:
                fails.append(('C18:command-executed-twice',
                              'task %d runs exactly once' % k, repr(ex)))
            for tid, in_cp, count in ex:
                if tid != 0 or not in_cp:
                    fails.append(('C18:command-not-at-control-point',
                                  'task %d runs in the solver thread inside '
                                  'execute_commands' % k, repr(ex)))
    f = impl['final']
    all_done = len(f['finished']) == len(progs)
    # the scheduler's own findings
    if impl.get('hang'):
        fails.append(('C18:deadlock:thread-stuck-outside-scheduler',
                      'every thread reaches its next synchronisation primitive '
                      '(or finishes) promptly', impl['hang']))
    if 0 in impl.get('crashed', {}):
        fails.append(('C18:solver-thread-raised',
                      'the solver thread never raises inside execute_commands '
                      '(Lean: solver_never_raises)', impl['crashed'][0]))
    for fid, old, new in impl.get('id_collisions', []):
        fails.append(('C18:task-id-reused-while-outstanding',
                      'every task id handed out by dispatch is unique among the '
                      'tasks whose result has not been collected',
                      'task %d got id %d, which task %d (result not yet '
                      'collected) still uses' % (new, fid, old)))
        break
    quiescent = all_done and f['enabled'] == [0] and \
        f['pending'][0][:2] == ('start', 'step') and impl.get('drained')
    if unique and quiescent:
        for k in cmd_of:
            if k >= 0 and len(execs.get(k, [])) != 1:
                fails.append(('C18:command-lost',
                              'queued task %d has run once the solver passed '
                              'a further control point' % k,
                              'executions: %r, queue %r' % (execs.get(k, []),
                                                            f['queue'])))
    # result delivery
    fetched = {}
    for e in oplog:
        if e[3] != 'done' or parse_op(e[2])[0] not in ('r', 'm'):
            continue
        tid, j, tok, _, res, stepno, solst, k = e
        if res == 'err':
            if wf:
                fails.append(('C18:result-not-delivered',
                              'get_result of own task returns its result',
                              'thread %d op %s raised' % (tid, tok)))
            continue
        if k in fetched:
            fails.append(('C18:result-delivered-twice',
                          'one get_result per task', 'task %r' % k))
        fetched[k] = res
        if unique and k in cmd_of:
            ex = execs.get(k, [])
            if len(ex) != 1:
                fails.append(('C18:result-before-execution',
                              'get_result(%d) returns after the one execution'
                              % k, 'executions %r, result %s' % (ex, res)))
            else:
                want = 'none' if cmd_of[k][0] == 'set' else 'd%d' % ex[0][2]
                if res != want:
                    fails.append(('C18:wrong-result',
                                  'get_result(%d) = %s' % (k, want), res))
    # wait / cont discipline
    prog_steps = impl['progress_steps']
    for i in range(len(progs)):
        tid = i + 1
        active = False           # pause_on_next completed, cont not started
        since = None
        for e in [e for e in oplog if e[0] == tid]:
            op = parse_op(e[2])[0]
            if op == 'p' and e[3] == 'done' and e[4] == 'true':
                active = True
            elif op == 'c' and e[3] == 'start':
                if since is not None:
                    bad = [s for s in prog_steps if since < s <= e[5]]
                    if bad:
                        fails.append(('C18:progress-while-paused',
                                      'no solver progress between the return '
                                      'of wait() (step %d) and cont() (step %d)'
                                      % (since, e[5]), 'progress at %r' % bad))
                active = False
                since = None
            elif op == 'w' and e[3] == 'done' and active:
                in_cp, cnt = e[6]
                if not in_cp:
                    fails.append(('C18:wait-returned-before-control-point',
                                  'wait() of thread %d returns only when the '
                                  'solver is at a control point' % tid,
                                  'returned at step %d with the solver '
                                  'outside execute_commands' % e[5]))
                elif since is None:
                    since = e[5]
        if since is not None:
            bad = [s for s in prog_steps if s > since]
            if bad:
                fails.append(('C18:progress-while-paused',
                              'no solver progress after wait() returned '
                              '(step %d) without cont()' % since,
                              'progress at %r' % bad))
    # nobody blocked forever: for every program set that does not end inside
    # a pause section (Lean: no_deadlock, terminates_under_strong_fairness)
    if wf_live and not all_done:
        pend = f['pending']
        if not f['enabled']:
            sp = pend[0]
            key = 'C18:deadlock:other'
            for tid, p in pend.items():
                if tid == 0:
                    continue
                if p[:2] == ('blocked', 'p') and sp[:2] == ('blocked', 'q'):
                    key = 'C18:deadlock:lost-wakeup-in-wait'
                    break
            else:
                if sp[:2] == ('acq', 'p') and any(
                        p[:2] == ('acq', 'q') for t, p in pend.items() if t):
                    key = 'C18:deadlock:cont-vs-wait_for_cmd-lock-order'
                elif sp[:2] == ('blocked', 'q') and any(
                        p[0] == 'acq' and str(p[1]).startswith('c')
                        for t, p in pend.items() if t):
                    key = 'C18:deadlock:get_result-while-paused'
            fails.append((key, 'every thread of a program set that does not '
                          'end inside a pause section finishes; nobody is '
                          'blocked forever',
                          'no thread enabled; pending %r' % (
                              {t: p[:2] for t, p in pend.items()},)))
        elif impl['nsteps'] >= case.get('cap', 900):
            fails.append(('C18:no-progress-under-fair-schedule',
                          'a fair schedule completes the programs',
                          'still unfinished after %d steps' % impl['nsteps']))
    elif wf_live and all_done and not f['enabled']:
        fails.append(('C18:deadlock:solver-blocked-after-all-cont',
                      'the solver runs on once every pause was continued',
                      'pending %r' % (f['pending'][0][:2],)))
    return fails


# ---------------------------------------------------------------------------

def run_case(case, rng=None):
    if case.get('sched') is not None:
        ch = follow(case['sched'], cap=case.get('cap', 900))
    else:
        ch = random_chooser(rng, case['style'], case['nmain'],
                            cap=case.get('cap', 900))
    impl = run_impl(case, ch)
    impl['drained'] = True
    return impl


def corpus():
    """minimised failing schedules of the protocol as pinned (each is the
    schedule of a `…_reachable` theorem in Props/C18.lean), then plain ones"""
    return [
        # F7: notify_all before wait(): lost wake-up
        {'progs': [['p', 'w', 'c']], 'sched': [1] * 4 + [0] * 8 + [1] * 3},
        # cont() takes qlock inside plock; wait_for_cmd takes plock inside qlock
        {'progs': [['p', 'c']], 'sched': [1] * 4 + [0] * 4 + [1] * 3 + [0]},
        # get_result of a command queued while the solver is paused
        {'progs': [['p', 'w', 'qd', 'm0', 'c']],
         'sched': [1] * 6 + [0] * 8 + [1] * 12},
        # command queued between run_queued_commands and wait_for_cmd
        {'progs': [['p', 'qd', 'w', 'm0', 'c']],
         'sched': [1] * 4 + [0] * 3 + [1] * 6 + [0] * 6 + [1] * 8},
        # pause_on_next of a second thread wakes the first thread's wait()
        {'progs': [['p', 'w', 'c'], ['p', 'c']],
         'sched': [1] * 7 + [2] * 4 + [1] * 2},
        # two pausing threads, second cont() against the re-checking solver
        {'progs': [['p', 'w', 'c'], ['p', 'w', 'c']],
         'sched': [1] * 4 + [2] * 4 + [1, 1, 2, 2] + [0] * 8 + [1] * 8 + [0] * 3 + [2] * 4 + [0]},
        # a second thread pauses while the solver is already parked for the
        # first; the first continues without queueing; the second then waits:
        # the cont() must get the solver round the `while self.pause` loop
        {'progs': [['p', 'w', 'c'], ['p', 'w', 'c']],
         'sched': [1] * 4 + [0] * 12 + [2] * 4 + [1] * 10 + [2] * 3},
        {'progs': [['p', 'w', 'c', 'g'], ['g', 'p', 'w', 'c'], ['p', 'c']],
         'sched': [1] * 4 + [0] * 12 + [2] * 6 + [3] * 4 + [1] * 10 + [2] * 3},
        # several commands queued across control points, results collected
        # late and out of order: task ids must stay distinct while outstanding
        {'progs': [['qd', 'qd', 'g', 'qd', 'm2', 'm0', 'm1']],
         'sched': [1] * 14 + [0] * 14 + [1] * 9 + [0] * 12},
        {'progs': [['qd', 'qs5', 'qd'], ['qd', 'g', 'g', 'qd', 'm1', 'm0']],
         'sched': [1] * 14 + [2] * 7 + [0] * 16 + [2] * 12 + [1] * 7 + [0] * 12},
        {'progs': [['qd', 'm0', 'qs7', 'g', 'm1']], 'sched': []},
        {'progs': [['qd', 'qd'], ['r0', 'r0', 'r1']], 'sched': [1] * 12},
        {'progs': [['w'], ['c'], ['p']], 'sched': [1, 1, 1, 2, 2, 2]},
    ]


def process(cases, impls, R, cfgs_ok, tag):
    lines = [model_line(FIXED, c['progs'], realized(im))
             for c, im in zip(cases, impls)]
    out = H.run_model('C18', lines)
    if len(out) != len(lines):
        raise SystemExit('model driver answered %d lines for %d'
                         % (len(out), len(lines)))
    mism = []
    for k, (c, im, o) in enumerate(zip(cases, impls, out)):
        d = compare(im, o)
        if d is not None:
            mism.append((k, d))
    if mism:
        cfgs_ok.discard(FIXED)
    # which protocol variants explain every case?
    for cfg in sorted(cfgs_ok - {FIXED}):
        o2 = H.run_model('C18', [model_line(cfg, c['progs'], realized(im))
                                 for c, im in zip(cases, impls)])
        if any(compare(im, o) is not None for im, o in zip(impls, o2)):
            cfgs_ok.discard(cfg)
    return mism, out


def main():
    a = H.args()
    R = H.Result(
        'cases = programs of 1-3 interface threads (up to 9 operations each '
        'over get / blocking set / queued set / queued solver call / '
        'get_result / pause_on_next / wait / cont; 70% strictly well-formed, '
        'a further ~20% arbitrary but not ending inside a pause section) x one '
        'schedule of the real CommandManager under the cooperative scheduler '
        '(uniform, bursty, solver-eager, interface-eager; then a fair drain); '
        'distinct = distinct (programs, realized schedule); non-trivial = at '
        'some step an unfinished thread was blocked')
    if a.replay:
        rp = json.load(open(a.replay))
        case = rp['case']
        impl = run_case(case)
        fails = oracle(case, impl, R)
        for en, ev in impl['trace']:
            print('  %-8s %s' % (en, ev))
        print('final:', json.dumps(impl['final'], default=str))
        for key, demand, obs in fails:
            print('FAIL %s\n  demand  : %s\n  observed: %s' % (key, demand, obs))
        sys.exit(1 if fails else 0)
    rng = random.Random(a.seed * 7919 + 18)
    n = 2000 if a.tier == 'quick' else 15000
    cfgs_ok = set(ALLCFG)
    all_mism = []

    hangs = [0]

    def batch(cases, rngs, tag):
        impls = []
        for c, r in zip(cases, rngs):
            if hangs[0] >= 3:
                R.note('stopped running further cases after 3 cases in which '
                       'a thread got stuck outside the cooperative scheduler')
                break
            im = run_case(c, r)
            if im.get('hang'):
                hangs[0] += 1
            c2 = dict(c, sched=realized(im))
            impls.append((c2, im))
        if not impls:
            return
        cs = [c for c, _ in impls]
        ims = [im for _, im in impls]
        mism, out = process(cs, ims, R, cfgs_ok, tag)
        all_mism.extend((cs[k], ims[k], d, out[k]) for k, d in mism)
        for k, (c, im) in enumerate(impls):
            fails = oracle(c, im, R)
            seen = set()
            for key, demand, obs in fails:
                if key in seen:
                    continue
                seen.add(key)
                R.prop_fail(key, c, demand, obs)
            wf = wellformed(c['progs'])
            R.count('threads:%d' % len(c['progs']))
            R.count('well-formed' if wf else 'arbitrary')
            if not wf and ends_outside_pause(c['progs']):
                R.count('arbitrary-but-ends-outside-pause (liveness demanded)')
            R.count('style:' + c.get('style', 'given'))
            fin = im['final']
            if not fin['enabled']:
                R.count('ended-with-no-thread-enabled')
            if len(fin['finished']) == len(c['progs']):
                R.count('all-programs-finished')
            for nt in im['notes']:
                R.note(nt)
            ndone = {t: 0 for t in range(1, len(c['progs']) + 1)}
            blocked = False
            for en, ev in im['trace']:
                ens = set() if en == '-' else set(map(int, en.split('.')))
                live = {0} | {t for t in ndone
                              if ndone[t] < len(c['progs'][t - 1])}
                if live - ens:
                    blocked = True
                    break
                if ev.startswith('stuck'):
                    break
                t = int(ev.split(':')[0])
                if t and 'done=' in ev:
                    ndone[t] += 1
            R.case(json.dumps([c['progs'], c['sched']]), blocked,
                   {'case': c, 'model': out[k][:600]} if (tag == 'main' and k < 3) else None)
            R.d['traces_validated_against_impl'] += 1

    cor = corpus()
    batch(cor, [None] * len(cor), 'corpus')
    R.count('corpus', len(cor))
    big = a.tier != 'quick'
    cases = []
    rngs = []
    for i in range(n):
        progs = gen_progs(rng, big)
        style = rng.choice(['uniform', 'uniform', 'bursty', 'solver-eager',
                            'iface-eager'])
        cases.append({'progs': progs, 'style': style,
                      'nmain': rng.choice([40, 120, 400])})
        rngs.append(random.Random(rng.getrandbits(48)))
    for i in range(0, n, 5000):
        batch(cases[i:i + 5000], rngs[i:i + 5000], 'main')
    variant_bad = FIXED not in cfgs_ok
    if a.broken or variant_bad:
        rng2 = random.Random(a.seed + 12345)
        extra = []
        er = []
        for i in range(3000):
            extra.append({'progs': gen_progs(rng2, True),
                          'style': rng2.choice(['uniform', 'bursty',
                                                'solver-eager', 'iface-eager']),
                          'nmain': rng2.choice([40, 120, 400])})
            er.append(random.Random(rng2.getrandbits(48)))
        batch(extra, er, 'search')
        R.d['search'] = {'extra_cases': 3000,
                         'found': len(R.d['property_failures'])}
    if variant_bad:
        names = 'waitPred,contNested,dispatchNotifies,runBeforeWait'
        if cfgs_ok:
            R.note('the implementation follows protocol variant(s) %s (%s) on '
                   'every schedule, not the repaired protocol %s that the '
                   'liveness theorems are about%s' % (
                       sorted(cfgs_ok), names, FIXED,
                       ' - this is the pinned, unrepaired protocol'
                       if ORIG in cfgs_ok else ''))
        if not cfgs_ok or not R.d['property_failures']:
            for c, im, d, o in all_mism[:20]:
                R.disagree({'case': c}, o[-400:], d, 'trace')
        else:
            R.note('%d schedules differ from the repaired-protocol model; '
                   'first: %s' % (len(all_mism), all_mism[0][2]))
    R.d['variant'] = sorted(cfgs_ok)
    R.write(a.out)


if __name__ == '__main__':
    main()
