"""C08 tie + property oracle: SPH kernels.

impl   : pysph.base.kernels.<K>(dim)            (pure Python classes)
         pysph.base.c_kernels.<K>(**dict).py_*  and <K>Wrapper  (compiled twins)
         -- both from the scratch build of /repo's working tree
model  : lean Gen/Kernels.lean (regenerated from kernels.py by
         translate/kernels2lean.py) evaluated EXACTLY on rationals by
         model_c08; the scale factors fac*h^-k*exp(-q^2) are applied here
oracle : the property statement evaluated directly on the real code
         (support, sign, monotonicity, quadrature of the radial integral,
         finite differences in r and h, gradient shape, compiled == Python;
         kernel / dwdq / gradient / gradient_h EXACTLY ON every knot and on the
         support edge: continuity with the one-sided values and the finite
         differences, for powers of two, decimals and random h),
         independent of the model.
"""
import json
import math
import os
import random
import sys
from fractions import Fraction

import numpy as np

import hcommon as H

H.assert_scratch_import()
from pysph.base import kernels as KM  # noqa: E402
from pysph.base import c_kernels as CK  # noqa: E402

EPS = 2.0 ** -52
CLASSES = ['CubicSpline', 'WendlandQuinticC2_1D', 'WendlandQuintic',
           'WendlandQuinticC4_1D', 'WendlandQuinticC4', 'WendlandQuinticC6_1D',
           'WendlandQuinticC6', 'Gaussian', 'SuperGaussian', 'QuinticSpline']
GAUSS_FAMILY = ('Gaussian', 'SuperGaussian')
SPHERE = {1: 2.0, 2: 2.0 * math.pi, 3: 4.0 * math.pi}
GLX, GLW = np.polynomial.legendre.leggauss(32)


def configs():
    """(class name, dim) for every dimension the class accepts"""
    out = []
    for name in CLASSES:
        cls = getattr(KM, name)
        for dim in (1, 2, 3):
            try:
                k = cls(dim=dim)
                k.kernel([0., 0., 0.], 0.5, 1.0)
            except Exception:      # noqa  (ValueError / unbound fac)
                continue
            out.append((name, dim))
    return out


class Impl:
    """uniform access to the Python class ('py'), the compiled class ('c')
    and the compiled wrapper ('w')"""

    def __init__(self, name, dim, which):
        self.name, self.dim, self.which = name, dim, which
        self.py = getattr(KM, name)(dim=dim)
        self.radius = float(self.py.radius_scale)
        if which != 'py':
            self.c = getattr(CK, name)(**self.py.__dict__)
            self.wr = KM.get_compiled_kernel(self.py)

    def kernel(self, xij, r, h):
        if self.which == 'py':
            return self.py.kernel(list(xij), r, h)
        return self.c.py_kernel(np.array(xij, dtype=float), r, h)

    def dwdq(self, r, h):
        if self.which == 'py':
            return self.py.dwdq(r, h)
        return self.c.py_dwdq(r, h)

    def gradient(self, xij, r, h):
        if self.which == 'py':
            g = [0.0, 0.0, 0.0]
            self.py.gradient(list(xij), r, h, g)
            return tuple(g)
        g = np.zeros(3)
        self.c.py_gradient(np.array(xij, dtype=float), r, h, g)
        return tuple(float(x) for x in g)

    def gradient_h(self, xij, r, h):
        if self.which == 'py':
            return self.py.gradient_h(list(xij), r, h)
        return self.c.py_gradient_h(np.array(xij, dtype=float), r, h)


_IMPLS = {}


def impl(name, dim, which):
    key = (name, dim, which)
    if key not in _IMPLS:
        _IMPLS[key] = Impl(name, dim, which)
    return _IMPLS[key]


def direction(rng):
    while True:
        v = [rng.gauss(0, 1) for _ in range(3)]
        n = math.sqrt(sum(x * x for x in v))
        if n > 1e-3:
            return [x / n for x in v]


def doc_fac(name, dim):
    """the documented normalising constant (class docstrings), used only for
    the size of tolerances"""
    return abs(getattr(KM, name)(dim=dim).fac)


# --------------------------------------------------------------------------
# the property's own predicate on the real code.  A case is a dict
#   {kernel, dim, impl: py|c, check, ...parameters};  returns None if it holds,
#   else (demand, observed).

AT_KNOT = {'kernel-at-knot': 'kernel', 'dwdq-at-knot': 'dwdq',
           'gradient_h-at-knot': 'gradient_h', 'gradient-at-knot': 'gradient'}
KNOT_EPS = 2.0 ** -20


def knot_r(b, h):
    """an r with r*(1/h) == b EXACTLY in floating point (the kernels compute
    q = rij*(1./h)); None if no double within 3 ulp of b*h does it"""
    h1 = 1.0 / h
    r = b * h
    cands, up, dn = [r], r, r
    for _ in range(3):
        up, dn = math.nextafter(up, math.inf), math.nextafter(dn, 0.0)
        cands += [up, dn]
    for c in cands:
        if c * h1 == b:
            return c
    return None


def knot_h_values(rng, n_random):
    """the smoothing lengths at which every knot is visited: powers of two over
    30 binades, simple decimals, and random ones"""
    hs = [2.0 ** k for k in range(-20, 11, 2)] + [1.0, 0.5, 0.1, 0.05, 0.7, 1.3, 3.0]
    hs += [10 ** rng.uniform(-6, 6) for _ in range(n_random)]
    return hs


def gen_knot_cases(rng, n_random, which=('py', 'c'), count=None):
    """kernel, dwdq, gradient and gradient_h exactly ON every knot and on the
    support edge, for every h of the list"""
    cases = []
    for name, dim in configs():
        radius = float(getattr(KM, name)(dim=dim).radius_scale)
        mag = 1000.0 if 'Spline' in name else 10.0
        hs = knot_h_values(rng, n_random)
        for b in breakpoints(radius):
            if name in GAUSS_FAMILY and b >= radius:
                continue            # the stated truncation jump
            for h in hs:
                r = knot_r(b, h)
                if r is None:
                    if count is not None:
                        count('knot:no-double-hits-the-knot-exactly')
                    continue
                for wh in which:
                    d = direction(rng)
                    for chk in AT_KNOT:
                        cases.append({'kernel': name, 'dim': dim, 'impl': wh, 'check': chk,
                                      'h': h, 'r': r, 'knot': b, 'eps': KNOT_EPS,
                                      'delta': 1e-3, 'mag': mag, 'dir': d})
    return cases


# --------------------------------------------------------------------------
# call histories on live objects: results are VALUES and functions of the
# arguments of their own call only

HIST_FNS = {'w': ('gradient', 'kernel'),
            'c': ('gradient', 'kernel', 'dwdq', 'gradient_h'),
            'py': ('gradient', 'kernel', 'dwdq', 'gradient_h')}
GARBAGE = [1e300, -7.25, 3.5e-7]


def new_object(kind, name, dim):
    py = getattr(KM, name)(dim=dim)
    if kind == 'py':
        return py
    if kind == 'c':
        return getattr(CK, name)(**py.__dict__)
    return KM.get_compiled_kernel(py)


def bits(xs):
    return [H.fbits(x) for x in xs]


def read_result(fn, ret):
    """the numbers a retained result shows NOW (list of floats)"""
    if fn == 'gradient':
        if len(ret) != 3:
            raise ValueError('gradient result has %d components' % len(ret))
        return [float(ret[0]), float(ret[1]), float(ret[2])]
    return [float(ret)]


def do_call(kind, obj, call, buf=None):
    """one call; returns (object to retain, inputs as passed, copy of inputs before).
    kind w: positions;  kinds c / py: (xij, rij) and, for gradient, an out-buffer
    (`buf` if given -- re-used by the caller -- else a new one pre-filled with garbage)"""
    fn, h = call['fn'], call['h']
    if kind == 'w':
        a = list(call['xi']) + list(call['xj']) + [h]
        return getattr(obj, fn)(*a), None, None
    xij = np.array(call['xij'], dtype=float) if kind == 'c' else list(call['xij'])
    before = list(call['xij'])
    r = call['rij']
    pre = 'py_' if kind == 'c' else ''
    kw = bool(call.get('kw')) and kind == 'py'
    if fn == 'dwdq':
        return (getattr(obj, pre + fn)(rij=r, h=h) if kw else getattr(obj, pre + fn)(r, h)), xij, before
    if fn in ('kernel', 'gradient_h'):
        f = getattr(obj, pre + fn)
        return (f(xij=xij, rij=r, h=h) if kw else f(xij, r, h)), xij, before
    if buf is None:
        buf = np.array(GARBAGE) if kind == 'c' else list(GARBAGE)
    f = getattr(obj, pre + 'gradient')
    if kw:
        f(xij=xij, rij=r, h=h, grad=buf)
    else:
        f(xij, r, h, buf)
    return buf, xij, before


def fresh_result(kind, name, dim, call):
    """the same call as the FIRST call on a new object (zeroed out-buffer)"""
    obj = new_object(kind, name, dim)
    buf = None
    if kind != 'w' and call['fn'] == 'gradient':
        buf = np.zeros(3) if kind == 'c' else [0.0, 0.0, 0.0]
    c = dict(call, kw=False)
    ret, _, _ = do_call(kind, obj, c, buf)
    return read_result(call['fn'], ret)


def py_reference(name, dim, call, kind):
    """the Python class on the separation the call denotes"""
    py = getattr(KM, name)(dim=dim)
    if kind == 'w':
        xi, xj = call['xi'], call['xj']
        x = [xi[0] - xj[0], xi[1] - xj[1], xi[2] - xj[2]]
        r = math.sqrt(x[0] * x[0] + x[1] * x[1] + x[2] * x[2])
    else:
        x, r = list(call['xij']), call['rij']
    fn, h = call['fn'], call['h']
    if fn == 'gradient':
        g = [0.0, 0.0, 0.0]
        py.gradient(x, r, h, g)
        return [float(v) for v in g]
    if fn == 'dwdq':
        return [float(py.dwdq(r, h))]
    return [float(getattr(py, fn)(x, r, h))]


def describe(kind, name, dim, call):
    if kind == 'w':
        return '%sWrapper(dim=%d).%s(xi=%r, xj=%r, h=%r)' % (name, dim, call['fn'], call['xi'],
                                                              call['xj'], call['h'])
    return '%s%s(dim=%d).%s%s(xij=%r, rij=%r, h=%r)' % (
        'c_kernels.' if kind == 'c' else '', name, dim, 'py_' if kind == 'c' else '', call['fn'],
        call['xij'], call['rij'], call['h'])


def history_case(case, xref=None):
    """xref: per call, the bits the same call gave in ANOTHER process, where all calls of the
    run were made in a shuffled order, each first on a new object (None: not available)"""
    kind, name = case['impl'], case['kernel']
    dims = case['dims']
    calls = case['calls']
    mag = case.get('mag', 1.0)
    # phase 0 -- references, BEFORE the history starts (nothing else touches the kernel
    # classes while the history runs)
    want = [fresh_result(kind, name, dims[c.get('o', 0)], c) for c in calls]
    ref = [py_reference(name, dims[c.get('o', 0)], c, kind) if kind != 'py' else None for c in calls]
    facs = [abs(getattr(KM, name)(dim=d).fac) for d in dims]
    # phase 1 -- the history, uninterrupted
    objs = [new_object(kind, name, d) for d in dims]
    shared = [None] * len(objs)       # re-used out-buffer per object (kinds c / py)
    if case.get('reuse') and kind != 'w':
        shared = [np.array(GARBAGE) if kind == 'c' else list(GARBAGE) for _ in objs]
    kept = []                          # (call index, retained object, snapshot)
    rec = []                           # per call: (now, input after, input before, changed earlier result)
    for n, call in enumerate(calls):
        o = call.get('o', 0)
        buf = shared[o] if call['fn'] == 'gradient' else None
        ret, xin, before = do_call(kind, objs[o], call, buf)
        now = read_result(call['fn'], ret)
        changed = None
        for (k, r0, snap) in kept:
            try:
                cur = read_result(calls[k]['fn'], r0)
            except Exception as e:      # noqa
                cur = ['%s: %s' % (type(e).__name__, e)]
            if bits_or_str(cur) != bits_or_str(snap):
                changed = (k, snap, cur)
                break
        if buf is None:
            kept.append((n, ret, now))
        rec.append((now, None if xin is None else [float(v) for v in xin], before, changed))
    # phase 2 -- the demands, call by call
    for n, call in enumerate(calls):
        d = dims[call.get('o', 0)]
        what = 'call #%d of %d, %s' % (n + 1, len(calls), describe(kind, name, d, call))
        now, xin, before, changed = rec[n]
        # (c) inputs untouched
        if xin is not None and bits(xin) != bits(before):
            return ('%s leaves its argument xij = %r untouched' % (what, before),
                    'xij after the call = %r' % (xin,))
        # (b) a function of its own arguments
        if bits(now) != bits(want[n]):
            return ('%s returns what the same call returns as the first call on a new object '
                    '(zeroed gradient buffer): %r -- results do not depend on earlier calls, on '
                    'what the buffer held%s' % (what, want[n], ' or on other live objects'
                                                if len(objs) > 1 else ''),
                    '%r' % (now,))
        if xref is not None and xref[n] is not None and bits_or_str(now) != xref[n]:
            return ('%s returns what the same call returns in another process where the calls of this '
                    'run are made in a different order, each first on a new object: %r' % (
                        what, [H.bits2f(t) if t.startswith('x') else t for t in xref[n]]),
                    '%r' % (now,))
        # the twins return the numbers of the Python class
        if kind != 'py':
            m = mag * facs[call.get('o', 0)] * (1.0 / call['h']) ** d * (
                1.0 / call['h'] if call['fn'] in ('gradient', 'gradient_h') else 1.0)
            for a, b in zip(ref[n], now):
                if not (a == b or abs(a - b) <= 8 * EPS * max(abs(a), abs(b)) + 1e-13 * m):
                    return ('%s returns the numbers of the Python class: %r' % (what, ref[n]),
                            '%r' % (now,))
        # (a) nothing returned earlier has changed
        if changed is not None:
            k, snap, cur = changed
            return ('the result of call #%d of %d, %s, kept by the caller, still reads %r after call '
                    '#%d (%s)' % (k + 1, len(calls), describe(kind, name, dims[calls[k].get('o', 0)],
                                                             calls[k]), snap, n + 1,
                                  describe(kind, name, d, call)),
                    'it now reads %r' % (cur,))
    return None


def bits_or_str(xs):
    return [H.fbits(x) if isinstance(x, float) else str(x) for x in xs]


def singles_of(cases):
    return [(ci, n, c['impl'], c['kernel'], c['dims'][call.get('o', 0)], call)
            for ci, c in enumerate(cases) if c['check'] == 'call-history'
            for n, call in enumerate(c['calls'])]


def ref_worker(infile, outfile):
    """(other process) every call once, in the order given, each first on a new object"""
    out = []
    for (ci, n, kind, name, dim, call) in json.load(open(infile)):
        try:
            out.append([ci, n, bits_or_str(fresh_result(kind, name, dim, call))])
        except Exception as e:      # noqa
            out.append([ci, n, ['%s: %s' % (type(e).__name__, e)]])
    json.dump(out, open(outfile, 'w'))


def cross_process_refs(cases, seed, work, note=None):
    """{case index: [bits per call]} from a second process that makes all the calls of `cases`
    in a shuffled order; {} (with a note) if that process fails"""
    import subprocess
    sing = singles_of(cases)
    if not sing:
        return {}
    random.Random(seed * 31 + 5).shuffle(sing)
    tag = '%d-%d' % (os.getpid(), seed)
    fin = os.path.join(work, 'c08-singles-%s.json' % tag)
    fout = os.path.join(work, 'c08-refs-%s.json' % tag)
    json.dump(sing, open(fin, 'w'))
    env = dict(os.environ, C08_REF_WORKER='%s::%s' % (fin, fout))
    try:
        p = subprocess.run([sys.executable, os.path.abspath(__file__)], env=env, timeout=600,
                           stdout=subprocess.PIPE, stderr=subprocess.PIPE, text=True, cwd=work)
        if p.returncode != 0:
            raise RuntimeError('exit %d: %s' % (p.returncode, p.stderr[-300:]))
        res = json.load(open(fout))
    except Exception as e:      # noqa
        if note is not None:
            note('cross-process reference not available: %s: %s' % (type(e).__name__, e))
        return {}
    out = {}
    for ci, n, b in res:
        out.setdefault(ci, {})[n] = b
    return {ci: [v.get(n) for n in range(len(cases[ci]['calls']))] for ci, v in out.items()}


def scale_of(K, h):
    return abs(K.py.fac) * (1.0 / h) ** K.dim


def prop_case(case):
    chk = case['check']
    if chk == 'call-history':
        return history_case(case, case.get('_xref'))
    K = impl(case['kernel'], case['dim'], case['impl'])
    h = case.get('h', 1.0)
    sc = scale_of(K, h)
    if chk == 'support':
        r = case['r']
        xij = [r * d for d in case['dir']]
        w = K.kernel(xij, r, h)
        dq = K.dwdq(r, h)
        g = K.gradient(xij, r, h)
        if w != 0.0 or dq != 0.0 or any(x != 0.0 for x in g):
            return ('kernel, dwdq and gradient are 0 for r >= radius_scale*h '
                    '(r/h = %r, radius_scale = %r)' % (r * (1.0 / h), K.radius),
                    'kernel=%r dwdq=%r gradient=%r' % (w, dq, g))
        return None
    if chk == 'monotone':
        # W(q_i) on an increasing list of q: non-negative, non-increasing
        qs = case['qs']
        vals = [K.kernel([q * h, 0., 0.], q * h, h) for q in qs]
        tol = 1e-12 * sc * max(1.0, abs(vals[0]) / sc)
        for i, v in enumerate(vals):
            if v < -tol:
                return ('W >= 0', 'W(q=%r, h=%r) = %r' % (qs[i], h, v))
            if i and v > vals[i - 1] + tol:
                return ('W non-increasing in r',
                        'W(q=%r) = %r > W(q=%r) = %r  (h=%r)' % (
                            qs[i], v, qs[i - 1], vals[i - 1], h))
        return None
    if chk == 'normalised':
        d = K.dim
        tot = 0.0
        nint = int(math.ceil(K.radius))
        for k in range(nint):
            a, b = k * h, min(k + 1.0, K.radius) * h
            xs = 0.5 * (b - a) * GLX + 0.5 * (b + a)
            f = [K.kernel([x, 0., 0.], x, h) * x ** (d - 1) for x in xs]
            tot += 0.5 * (b - a) * float(np.dot(GLW, f))
        tot *= SPHERE[d]
        tol = 1e-9
        if K.name in GAUSS_FAMILY:
            tol += case['trunc'] * 1.000001
        if not abs(tot - 1.0) <= tol:
            return ('S_d * integral of r^(d-1) W dr = 1 within %.3g' % tol,
                    'integral = %.15g (h=%r)' % (tot, h))
        return None
    if chk == 'gradient-shape':
        r = case['r']
        xij = [r * d for d in case['dir']]
        g = K.gradient(xij, r, h)
        dq = K.dwdq(r, h)
        if r == 0.0:
            if any(x != 0.0 for x in g) or dq != 0.0:
                return ('gradient and dwdq are 0 at r = 0', 'gradient=%r dwdq=%r' % (g, dq))
            return None
        want = [dq / h * d for d in case['dir']]
        tol = 16 * EPS * abs(dq / h) + 1e-300
        if any(not abs(a - b) <= tol for a, b in zip(g, want)):
            return ('gradient = (dwdq/h) * xij/r = %r' % (want,), 'gradient=%r' % (g,))
        return None
    if chk == 'dwdq-is-h-dWdr':
        r = case['r']
        dl = case['delta'] * h

        def f(x):
            return K.kernel([x, 0., 0.], x, h)
        fd = (-f(r + 2 * dl) + 8 * f(r + dl) - 8 * f(r - dl) + f(r - 2 * dl)) / (12 * dl)
        dq = K.dwdq(r, h)
        tol = 1e-6 * sc * case.get('mag', 1.0)
        if not abs(h * fd - dq) <= tol:
            return ('dwdq = h * dW/dr (finite difference %r, tol %.3g)' % (h * fd, tol),
                    'dwdq(r=%r, h=%r) = %r' % (r, h, dq))
        return None
    if chk == 'gradient_h-is-dWdh':
        r = case['r']
        dl = case['delta'] * h

        def f(hh):
            return K.kernel([r, 0., 0.], r, hh)
        fd = (-f(h + 2 * dl) + 8 * f(h + dl) - 8 * f(h - dl) + f(h - 2 * dl)) / (12 * dl)
        gh = K.gradient_h([r, 0., 0.], r, h)
        tol = 1e-6 * sc / h * case.get('mag', 1.0)
        if not abs(fd - gh) <= tol:
            return ('gradient_h = dW/dh (finite difference %r, tol %.3g)' % (fd, tol),
                    'gradient_h(r=%r, h=%r) = %r' % (r, h, gh))
        return None
    if chk in AT_KNOT:
        # r sits EXACTLY on a piece boundary: q = r*(1/h) == knot in floating
        # point, as every kernel method computes it.  Spline / Wendland kernels
        # are C1 there (C0 suffices for what is demanded), the Gaussian family is
        # smooth at q = 1, 2 (its truncation edge is never sent here).
        fn = AT_KNOT[chk]
        r, b, eps = case['r'], case['knot'], case['eps']
        if r * (1.0 / h) != b:
            return ('the case puts r exactly on the knot', 'r*(1/h) = %r, knot = %r' % (r * (1.0 / h), b))
        dirn = case['dir']
        s1 = sc if fn in ('kernel', 'dwdq') else sc / h

        def val(rr):
            xij = [rr * d for d in dirn]
            if fn == 'kernel':
                return (K.kernel(xij, rr, h),)
            if fn == 'dwdq':
                return (K.dwdq(rr, h),)
            if fn == 'gradient_h':
                return (K.gradient_h(xij, rr, h),)
            return K.gradient(xij, rr, h)
        v0, vl, vr = val(r), val(r * (1.0 - eps)), val(r * (1.0 + eps))
        # continuity: |f(b) - f(b(1 +- eps))| <= Lip * b * eps, Lip <= 4*mag in units of the scale
        tol = 4.0 * case.get('mag', 1.0) * eps * b * s1 + 1e-300
        for a, lft, rgt in zip(v0, vl, vr):
            if not (abs(a - lft) <= tol and abs(a - rgt) <= tol):
                return ('%s exactly on the knot r/h = %r lies within %.3g of its one-sided values at '
                        'q(1 -+ 2^%d): left %r, right %r' % (fn, b, tol, round(math.log2(eps)), vl, vr),
                        '%s(r=%r, h=%r) = %r' % (fn, r, h, v0))
        dl = case['delta'] * h
        if fn == 'gradient_h':
            def f(hh):
                return K.kernel([r, 0., 0.], r, hh)
            fd = (-f(h + 2 * dl) + 8 * f(h + dl) - 8 * f(h - dl) + f(h - 2 * dl)) / (12 * dl)
            tol2 = 1e-6 * sc / h * case.get('mag', 1.0)
            if not abs(fd - v0[0]) <= tol2:
                return ('gradient_h = dW/dh exactly on the knot r/h = %r (centred finite difference of '
                        'kernel() in h: %r, tol %.3g)' % (b, fd, tol2),
                        'gradient_h(r=%r, h=%r) = %r' % (r, h, v0[0]))
        elif fn == 'dwdq':
            def f(x):
                return K.kernel([x, 0., 0.], x, h)
            fd = (-f(r + 2 * dl) + 8 * f(r + dl) - 8 * f(r - dl) + f(r - 2 * dl)) / (12 * dl)
            tol2 = 1e-6 * sc * case.get('mag', 1.0)
            if not abs(h * fd - v0[0]) <= tol2:
                return ('dwdq = h * dW/dr exactly on the knot r/h = %r (centred finite difference of '
                        'kernel() in r: %r, tol %.3g)' % (b, h * fd, tol2),
                        'dwdq(r=%r, h=%r) = %r' % (r, h, v0[0]))
        elif fn == 'gradient':
            dq = K.dwdq(r, h)
            want = [dq / h * d for d in dirn]
            tol2 = 16 * EPS * abs(dq / h) + 1e-300
            if any(not abs(a - w) <= tol2 for a, w in zip(v0, want)):
                return ('gradient = (dwdq/h) * xij/r = %r exactly on the knot r/h = %r' % (want, b),
                        'gradient=%r' % (v0,))
        return None
    if chk == 'compiled-equals-python':
        r = case['r']
        xij = [r * d for d in case['dir']]
        P = impl(case['kernel'], case['dim'], 'py')
        C = impl(case['kernel'], case['dim'], 'c')
        pairs = [('kernel', P.kernel(xij, r, h), C.kernel(xij, r, h)),
                 ('dwdq', P.dwdq(r, h), C.dwdq(r, h)),
                 ('gradient_h', P.gradient_h(xij, r, h), C.gradient_h(xij, r, h))]
        gp, gc = P.gradient(xij, r, h), C.gradient(xij, r, h)
        pairs += [('gradient[%d]' % i, a, b) for i, (a, b) in enumerate(zip(gp, gc))]
        # wrapper: positions instead of separation; rij recomputed by sqrt
        xi = case['xi']
        xj = [a - b for a, b in zip(xi, xij)]
        dx = [a - b for a, b in zip(xi, xj)]
        rw = math.sqrt(dx[0] * dx[0] + dx[1] * dx[1] + dx[2] * dx[2])
        gw = [0., 0., 0.]
        P.py.gradient(dx, rw, h, gw)
        pairs.append(('Wrapper.kernel', P.py.kernel(dx, rw, h),
                      C.wr.kernel(xi[0], xi[1], xi[2], xj[0], xj[1], xj[2], h)))
        gwc = C.wr.gradient(xi[0], xi[1], xi[2], xj[0], xj[1], xj[2], h)
        pairs += [('Wrapper.gradient[%d]' % i, a, b) for i, (a, b) in enumerate(zip(gw, gwc))]
        for nm, a, b in pairs:
            mag = case.get('mag', 1.0) * sc * (1.0 if 'grad' not in nm or nm == 'gradient_h' else 1.0 / h)
            if nm == 'gradient_h':
                mag /= h
            if not (a == b or abs(a - b) <= 8 * EPS * max(abs(a), abs(b)) + 1e-13 * mag):
                return ('compiled %s == Python %s (= %r)' % (nm, nm, a), '%r' % (b,))
        return None
    raise SystemExit('unknown check %r' % chk)


# --------------------------------------------------------------------------
# generators

def h_values(rng, n):
    hs = [1.0, 0.5, 2.0 ** rng.randint(-20, 20)]
    while len(hs) < n:
        hs.append(10 ** rng.uniform(-6, 6))
    return hs


def breakpoints(radius):
    return [float(k) for k in range(1, int(math.ceil(radius)) + 1) if k <= radius]


def truncation(name, dim):
    """mass of the documented, untruncated Gaussian-family kernel beyond q=3"""
    def w(q):
        e = math.exp(-q * q) * math.pi ** (-dim / 2.0)
        return e if name == 'Gaussian' else e * abs(dim / 2.0 + 1 - q * q)
    tot = 0.0
    for k in range(3, 12):
        xs = 0.5 * GLX + k + 0.5
        tot += 0.5 * float(np.dot(GLW, [w(x) * x ** (dim - 1) for x in xs]))
    return SPHERE[dim] * tot


def gen_prop_cases(rng, n_h, n_pts, which=('py', 'c')):
    cases = []
    for name, dim in configs():
        radius = float(getattr(KM, name)(dim=dim).radius_scale)
        bps = breakpoints(radius)
        mag = 1000.0 if 'Spline' in name else 10.0
        for wh in which:
            base = {'kernel': name, 'dim': dim, 'impl': wh}
            for h in h_values(rng, n_h):
                # support: beyond the edge, and exactly on it when r/h is exact
                for j in range(3):
                    f = rng.choice([1 + 1e-9, 1.0 + 2.0 ** -30, 1.5, 4.0, 1e3])
                    cases.append(dict(base, check='support', h=h, r=radius * h * f,
                                      dir=direction(rng)))
                redge = knot_r(radius, h)
                if redge is not None:
                    cases.append(dict(base, check='support', h=h, r=redge,
                                      dir=direction(rng)))
                # sign / monotone: grid incl. breakpoints and their neighbours
                if name != 'SuperGaussian':
                    qs = {0.0, radius, radius * (1 + 1e-12)}
                    for b in bps:
                        qs |= {b, b * (1 - 2 ** -40), b * (1 + 2 ** -40)}
                    while len(qs) < n_pts + 8:
                        qs.add(rng.uniform(0, radius))
                    cases.append(dict(base, check='monotone', h=h, qs=sorted(qs)))
                c = dict(base, check='normalised', h=h)
                if name in GAUSS_FAMILY:
                    c['trunc'] = truncation(name, dim)
                cases.append(c)
                # gradient shape, at r = 0 too
                cases.append(dict(base, check='gradient-shape', h=h, r=0.0, dir=[0., 0., 0.]))
                for j in range(n_pts // 4 + 2):
                    q = rng.choice(bps + [rng.uniform(0, radius * 1.05)] * 3)
                    cases.append(dict(base, check='gradient-shape', h=h, r=q * h,
                                      dir=direction(rng)))
                # derivatives by finite differences, away from the breakpoints
                for j in range(n_pts // 4 + 2):
                    lo = rng.choice([0.0] + bps[:-1])
                    q = rng.uniform(lo + 0.02, min(lo + 1.0, radius) - 0.02)
                    cases.append(dict(base, check='dwdq-is-h-dWdr', h=h, r=q * h,
                                      delta=1e-3, mag=mag))
                    q = rng.uniform(lo + 0.02, min(lo + 1.0, radius) - 0.02)
                    cases.append(dict(base, check='gradient_h-is-dWdh', h=h, r=q * h,
                                      delta=1e-3, mag=mag))
                cases.append(dict(base, check='gradient_h-is-dWdh', h=h, r=0.0,
                                  delta=1e-3, mag=mag))
        # compiled twins
        for h in h_values(rng, n_h):
            for j in range(n_pts):
                q = rng.choice(bps + [0.0, radius * (1 + 1e-9)] +
                               [rng.uniform(0, radius * 1.1)] * 6)
                if j % 7 == 3:
                    q = rng.choice([1e-12, 5e-13, 2e-12]) / h   # the rij guard
                cases.append({'kernel': name, 'dim': dim, 'impl': 'c',
                              'check': 'compiled-equals-python', 'h': h, 'r': q * h,
                              'dir': direction(rng), 'mag': mag,
                              'xi': [rng.uniform(-1, 1) * h for _ in range(3)]})
    return cases


def place(rng, kind, radius, bps, h, where):
    """arguments of one call at separation class `where`"""
    d = direction(rng)
    if where == 'zero':
        r = 0.0
    elif where == 'guard':
        r = rng.choice([1e-12, 5e-13, 2e-12, 1.0000000000000002e-12])
    elif where == 'knot':
        b = rng.choice(bps)
        r = knot_r(b, h)
        r = b * h if r is None else r
    elif where == 'beyond':
        r = radius * h * rng.choice([1 + 1e-9, 1.0 + 2.0 ** -30, 1.5, 4.0, 1e3])
    else:
        r = rng.uniform(0.02, radius * 0.98) * h
    if kind == 'w':
        xi = [rng.uniform(-1, 1) * h for _ in range(3)]
        if where == 'zero':
            return {'xi': xi, 'xj': list(xi)}
        return {'xi': xi, 'xj': [a - r * x for a, x in zip(xi, d)]}
    return {'xij': [r * x for x in d], 'rij': r}


def gen_history_cases(rng, n_per, kinds=('w', 'c', 'py'), count=None):
    """histories of 2-8 calls on one (or two interleaved) live objects"""
    cases = []
    cfgs = configs()
    for name, dim in cfgs:
        radius = float(getattr(KM, name)(dim=dim).radius_scale)
        bps = breakpoints(radius)
        mag = 1000.0 if 'Spline' in name else 10.0
        others = [d for (n2, d) in cfgs if n2 == name and d != dim]
        for kind in kinds:
            for j in range(n_per):
                dims = [dim]
                if j % 3 == 2:          # a second live object of the class (other dimension if any)
                    dims.append(rng.choice(others) if others and rng.random() < 0.7 else dim)
                same_h = rng.random() < 0.5
                h0 = rng.choice(h_values(rng, 4))
                if j == 0:
                    # inside, beyond (stale buffer), inside, r = 0, value: gradient each time
                    plan = [('gradient', 'in'), ('gradient', 'beyond'), ('gradient', 'in'),
                            ('gradient', 'zero'), ('kernel', 'in'), ('gradient', 'knot')]
                else:
                    plan = []
                    for _ in range(rng.randint(2, 8)):
                        fn = 'gradient' if rng.random() < 0.6 else rng.choice(HIST_FNS[kind])
                        plan.append((fn, rng.choice(['in'] * 4 + ['beyond', 'beyond', 'knot', 'zero',
                                                                  'guard'])))
                    if sum(1 for f, _ in plan if f == 'gradient') < 2:
                        plan += [('gradient', 'in'), ('gradient', 'beyond')]
                calls = []
                for fn, where in plan:
                    h = h0 if same_h else rng.choice(h_values(rng, 4))
                    c = dict(place(rng, kind, radius, bps, h, where), fn=fn, h=h,
                             o=rng.randrange(len(dims)))
                    if kind == 'py' and rng.random() < 0.25:
                        c['kw'] = True
                    calls.append(c)
                    if count is not None:
                        count('history:%s:%s:%s' % (kind, fn, where))
                cases.append({'kernel': name, 'dim': dim, 'dims': dims, 'impl': kind,
                              'check': 'call-history', 'calls': calls, 'mag': mag,
                              'reuse': kind != 'w' and rng.random() < 0.5})
    return cases


def corpus():
    out = []
    for d in (1, 2, 3):
        # F12: SuperGaussian.gradient_h had the wrong sign
        for wh in ('py', 'c'):
            out.append({'kernel': 'SuperGaussian', 'dim': d, 'impl': wh,
                        'check': 'gradient_h-is-dWdh', 'h': 1.0, 'r': 0.0,
                        'delta': 1e-3, 'mag': 10.0})
            out.append({'kernel': 'SuperGaussian', 'dim': d, 'impl': wh,
                        'check': 'gradient_h-is-dWdh', 'h': 0.7, 'r': 0.91,
                        'delta': 1e-3, 'mag': 10.0})
    # seed2-B: `if q < 1 … elif q > 1 and q < 2` left q == 1 to the initial zeros in
    # CubicSpline.gradient_h (Python class and compiled twin alike)
    for d, wh, h in ((1, 'py', 1.0), (2, 'c', 0.5), (1, 'c', 0.1)):
        out.append({'kernel': 'CubicSpline', 'dim': d, 'impl': wh, 'check': 'gradient_h-at-knot',
                    'h': h, 'r': knot_r(1.0, h), 'knot': 1.0, 'eps': KNOT_EPS, 'delta': 1e-3,
                    'mag': 1000.0, 'dir': [1.0, 0.0, 0.0]})
    out.append({'kernel': 'CubicSpline', 'dim': 2, 'impl': 'py', 'check': 'support',
                'h': 0.5, 'r': 1.0, 'dir': [0.0, 1.0, 0.0]})
    out.append({'kernel': 'QuinticSpline', 'dim': 3, 'impl': 'py', 'check': 'normalised',
                'h': 1.0})
    # seed3-B: Wrapper.gradient returned a view of the wrapper's scratch member, so a result kept
    # by the caller was overwritten by the next call; seed2-A: nothing stored outside the support
    for name, d in (('CubicSpline', 1), ('Gaussian', 3), ('WendlandQuinticC6_1D', 1)):
        out.append({'kernel': name, 'dim': d, 'dims': [d], 'impl': 'w', 'check': 'call-history',
                    'mag': 1000.0, 'reuse': False, 'calls': [
                        {'fn': 'gradient', 'xi': [0.3, 0.0, 0.0], 'xj': [0.0, 0.0, 0.0], 'h': 1.0, 'o': 0},
                        {'fn': 'gradient', 'xi': [0.5, 0.25, 0.0], 'xj': [0.0, 0.5, 0.125], 'h': 0.5, 'o': 0},
                        {'fn': 'gradient', 'xi': [3.5, 0.0, 0.0], 'xj': [0.0, 0.0, 0.0], 'h': 1.0, 'o': 0},
                        {'fn': 'kernel', 'xi': [0.3, 0.0, 0.0], 'xj': [0.0, 0.0, 0.0], 'h': 1.0, 'o': 0}]})
    for kind in ('c', 'py'):
        out.append({'kernel': 'WendlandQuinticC6_1D', 'dim': 1, 'dims': [1], 'impl': kind,
                    'check': 'call-history', 'mag': 10.0, 'reuse': True, 'calls': [
                        {'fn': 'gradient', 'xij': [0.3, 0.0, 0.0], 'rij': 0.3, 'h': 1.0, 'o': 0},
                        {'fn': 'gradient', 'xij': [2.5, 0.0, 0.0], 'rij': 2.5, 'h': 1.0, 'o': 0}]})
    return out


_PER_KEY = {}


def run_prop_cases(cases, R):
    nfail = 0
    for c in cases:
        try:
            res = prop_case(c)
        except Exception as e:      # noqa
            res = ('the kernel evaluates without raising', '%s: %s' % (type(e).__name__, e))
        R.count('oracle:%s:%s' % (c['check'], c['impl']))
        if res is not None:
            nfail += 1
            key = 'C08:%s:%s' % (c['kernel'], c['check'])
            _PER_KEY[key] = _PER_KEY.get(key, 0) + 1
            R.count('fail:' + key)
            if _PER_KEY[key] <= 4:      # keep room for other classes of failure
                R.prop_fail(key, {k: v for k, v in c.items() if k != '_xref'}, res[0], res[1])
    return nfail


# --------------------------------------------------------------------------
# model (generated tables, exact evaluation in Lean) versus the Python classes

def parse_kv(line):
    return dict(t.split('=', 1) for t in line.split())


def frac(s):
    return Fraction(s)


def model_points(rng, n_h, n_pts):
    pts = []
    for name, dim in configs():
        radius = float(getattr(KM, name)(dim=dim).radius_scale)
        bps = breakpoints(radius)
        for h in h_values(rng, n_h):
            qs = [0.0, radius * 1.25]
            for b in bps:
                qs += [b, b * (1 - 2 ** -52), b * (1 + 2 ** -52)]
            for j in range(n_pts):
                qs.append(rng.uniform(0, radius * 1.05))
            for q in qs:
                pts.append((name, dim, q * h, h, direction(rng)))
            for r in (1e-12, 5e-13, 1.0000000000000002e-12, 3e-12):
                pts.append((name, dim, r, h, direction(rng)))
                pts.append((name, dim, r, r / rng.uniform(0.1, radius), direction(rng)))
    return pts


def check_model(points, R, sample_tag=0):
    """every generated table against the Python class it was generated from"""
    known = set(H.run_model('C08', ['list'])[0].split(','))
    want = set('%s_%d' % c for c in configs())
    if known != want:
        R.disagree({'tables': sorted(known)}, sorted(known), sorted(want),
                   'set of kernel classes x admissible dimensions')
    lines = []
    for (name, dim, r, h, d) in points:
        qf = r * (1.0 / h)          # as every kernel method computes it
        lines.append('eval k=%s_%d q=%s' % (name, dim, H.qstr(qf)))
    out = H.run_model('C08', lines)
    if len(out) != len(lines):
        raise SystemExit('model driver answered %d lines for %d' % (len(out), len(lines)))
    glines, gidx = [], []
    recs = []
    for i, ((name, dim, r, h, d), ln) in enumerate(zip(points, out)):
        K = impl(name, dim, 'py')
        if ln == 'bad-op':
            R.disagree({'kernel': name, 'dim': dim, 'r': r, 'h': h}, 'bad-op', 'table exists',
                       'eval')
            recs.append(None)
            continue
        kv = parse_kv(ln)
        h1 = 1.0 / h
        qf = r * h1
        env = math.exp(-qf * qf) if kv['gauss'] == '1' else 1.0
        fac = float(frac(kv['facq'])) * math.pi ** (int(kv['pihalf']) / 2.0)
        pos = Fraction(r) > frac(kv['rmin'])
        xij = [r * x for x in d]
        iw = K.kernel(xij, r, h)
        idq = K.dwdq(r, h)
        igh = K.gradient_h(xij, r, h)
        ig = K.gradient(xij, r, h)
        mw = fac * h1 ** int(kv['hpw']) * float(frac(kv['w'])) * env
        mdq = fac * h1 ** int(kv['hpd']) * float(frac(kv['dw'] if pos else kv['dw0'])) * env
        mgh = fac * h1 ** int(kv['hpg']) * float(frac(kv['gh'])) * env
        sc = abs(fac) * h1 ** dim
        mag = 1000.0 if 'Spline' in name else 10.0
        for nm, a, b, s in (('kernel', mw, iw, sc), ('dwdq', mdq, idq, sc),
                            ('gradient_h', mgh, igh, sc * h1)):
            if not (a == b or abs(a - b) <= 16 * EPS * max(abs(a), abs(b)) + 4e-13 * mag * s):
                R.disagree({'kernel': name, 'dim': dim, 'r': r, 'h': h, 'q': qf}, a, b, nm)
        if float(frac(kv['radius'])) != K.radius:
            R.disagree({'kernel': name, 'dim': dim}, kv['radius'], K.radius, 'radius_scale')
        if not abs(fac - K.py.fac) <= 4 * EPS * abs(fac):
            R.disagree({'kernel': name, 'dim': dim}, fac, K.py.fac, 'fac')
        recs.append((ig, idq))
        glines.append('grad k=%s_%d pos=%d wdash=%s h=%s rij=%s x=%s' % (
            name, dim, 1 if pos else 0, H.qstr(idq), H.qstr(h),
            H.qstr(r) if r != 0.0 else '1', H.qlist(xij)))
        gidx.append(i)
        region = ('q=0' if qf == 0.0 else 'beyond' if qf >= K.radius else
                  'on-breakpoint' if qf == int(qf) else 'piece%d' % int(qf))
        R.count('model:%s' % region)
        if not pos:
            R.count('model:rij<=rmin')
        R.case('%s/%d/%r/%r' % (name, dim, r, h), 0.0 < qf < K.radius,
               {'kernel': name, 'dim': dim, 'r': r, 'h': h, 'impl': [iw, idq, igh],
                'model': [mw, mdq, mgh]} if (i % 997 == sample_tag) else None)
        R.d['traces_validated_against_impl'] += 1
    gout = H.run_model('C08', glines)
    for i, ln in zip(gidx, gout):
        name, dim, r, h, d = points[i]
        ig, idq = recs[i]
        if not ln.startswith('g='):
            R.disagree({'kernel': name, 'dim': dim, 'r': r, 'h': h}, ln, ig, 'gradient')
            continue
        mg = [float(frac(x)) for x in ln[2:].split(',')]
        for a, b in zip(mg, ig):
            if not (a == b or abs(a - b) <= 16 * EPS * max(abs(a), abs(b))):
                R.disagree({'kernel': name, 'dim': dim, 'r': r, 'h': h, 'dir': d}, mg, ig,
                           'gradient')
                break


def check_wrapper_model(R, rng, n_per):
    """Gen/KernelWrapper.lean on doubles over whole histories vs a real wrapper"""
    R.d['wrapper_code'] = H.run_model('C08', ['wcode'])[0]
    hists = [c for c in gen_history_cases(rng, n_per, kinds=('w',)) if len(c['dims']) == 1]
    lines = []
    for c in hists:
        for call in c['calls']:
            lines.append('wargs xi=%s xj=%s' % (H.flist(call['xi']), H.flist(call['xj'])))
    out = H.run_model('C08', lines)
    if len(out) != len(lines):
        raise SystemExit('model driver answered %d lines for %d' % (len(out), len(lines)))
    k = 0
    hl = []
    for c in hists:
        ck = new_object('c', c['kernel'], c['dim'])
        tab, cl = [], []
        for call in c['calls']:
            kv = parse_kv(out[k])
            k += 1
            x = [H.bits2f(t) for t in kv['gx' if call['fn'] == 'gradient' else 'kx'].split(',')]
            r = H.bits2f(kv['gr' if call['fn'] == 'gradient' else 'kr'])
            g = np.zeros(3)
            try:
                w = ck.py_kernel(np.array(x), r, call['h'])
                ck.py_gradient(np.array(x), r, call['h'], g)
            except Exception as e:      # noqa
                R.disagree({'case': c}, 'kernel object evaluates', '%s: %s' % (type(e).__name__, e),
                           'compiled kernel class')
                w = float('nan')
            tab.append('%s:%s:%s:%s:%s' % (H.flist(x), H.fbits(r), H.fbits(call['h']), H.fbits(w),
                                           H.flist(g)))
            cl.append('%s:%s:%s:%s' % ('g' if call['fn'] == 'gradient' else 'k',
                                       H.flist(call['xi']), H.flist(call['xj']), H.fbits(call['h'])))
        hl.append('whist calls=%s tab=%s' % (';'.join(cl), ';'.join(tab)))
    hout = H.run_model('C08', hl)
    if len(hout) != len(hl):
        raise SystemExit('model driver answered %d lines for %d' % (len(hout), len(hl)))
    for c, ln in zip(hists, hout):
        try:
            wr = new_object('w', c['kernel'], c['dim'])
            kept, now = [], []
            for call in c['calls']:
                ret, _, _ = do_call('w', wr, call)
                kept.append(ret)
                now.append(bits(read_result(call['fn'], ret)))
            end = [bits(read_result(call['fn'], r0)) for call, r0 in zip(c['calls'], kept)]
        except Exception as e:      # noqa
            R.disagree({'case': c}, ln, '%s: %s' % (type(e).__name__, e), 'Wrapper history')
            continue
        if not ln.startswith('now='):
            R.disagree({'case': c}, ln, now, 'Wrapper history')
            continue
        kv = parse_kv(ln)
        mnow = [t.split(',') for t in kv['now'].split(';')]
        mend = [t.split(',') for t in kv['end'].split(';')]
        if mnow != now:
            R.disagree({'case': c}, mnow, now, 'Wrapper results as read at their return')
        if mend != end:
            R.disagree({'case': c}, mend, end, 'Wrapper results as read after the last call')
        R.count('wrapper-model:histories')
        R.count('wrapper-model:calls', len(c['calls']))
        R.case('wrapper/%s/%d/%r' % (c['kernel'], c['dim'], c['calls']),
               any(v not in ('x0000000000000000', 'x8000000000000000') for row in now for v in row),
               {'wrapper_history': c, 'model_end': mend, 'impl_end': end}
               if R.d['distribution'].get('wrapper-model:histories', 0) == 1 else None)
        R.d['traces_validated_against_impl'] += 1


def check_tables(R):
    """log the table checks the theorems discharge (evidence only)"""
    names = H.run_model('C08', ['list'])[0].split(',')
    out = H.run_model('C08', ['checks k=%s' % n for n in names])
    R.d['table_checks'] = dict(zip(names, out))


def check_mako(R, work):
    """c_kernels.pyx must be the mako rendering of the current kernels.py"""
    import pysph.base
    base = os.path.dirname(os.path.abspath(pysph.base.__file__))
    mk = os.path.join(base, 'c_kernels.pyx.mako')
    pyx = os.path.join(base, 'c_kernels.pyx')
    code = ("import sys; sys.path.insert(0, %r); from mako.template import Template; "
            "sys.stdout.write(Template(filename=%r).render())" % (base, mk))
    import subprocess
    p = subprocess.run([sys.executable, '-c', code], stdout=subprocess.PIPE,
                       stderr=subprocess.PIPE, text=True, cwd=work)
    if p.returncode != 0:
        R.note('mako rendering failed: ' + p.stderr[-300:])
        return None
    cur = open(pyx).read()
    # trailing blanks / final newlines are not code
    a = [x.rstrip() for x in p.stdout.rstrip().split('\n')]
    b = [x.rstrip() for x in cur.rstrip().split('\n')]
    if a == b:
        R.count('mako:identical')
        return True
    diff = [(i + 1, x, y) for i, (x, y) in enumerate(zip(a, b)) if x != y][:5]
    R.disagree({'file': 'pysph/base/c_kernels.pyx'}, 'rendering of c_kernels.pyx.mako from the '
               'current kernels.py', 'differs at lines %r (len %d vs %d)' % (
                   diff, len(a), len(b)), 'compiled twin source')
    return False


def run_history_cases(cases, R, seed, work):
    refs = cross_process_refs(cases, seed, work, R.note)
    R.count('history:cross-process-references', sum(len(v) for v in refs.values()))
    for ci, c in enumerate(cases):
        if ci in refs:
            c['_xref'] = refs[ci]
    return run_prop_cases(cases, R)


def main():
    if os.environ.get('C08_REF_WORKER'):
        fin, fout = os.environ['C08_REF_WORKER'].split('::')
        ref_worker(fin, fout)
        return
    a = H.args()
    R = H.Result(
        'model cases = (kernel table, r, h, direction): all 21 class x dimension tables, h over 12 '
        'decades and powers of two, r/h random in [0, 1.05 radius], exactly on and one ulp around '
        'every breakpoint and the edge, r around the 1e-12 guard; distinct = distinct '
        '(kernel, dim, r, h); non-trivial = 0 < r/h < radius_scale.  Oracle cases (incl. the four '
        'functions exactly on every knot, <fn>-at-knot) are counted '
        'per check in the distribution (oracle:<check>:<impl>); call-history = 2-8 calls (gradient, '
        'kernel, dwdq, gradient_h; inside / beyond the support / on a knot / r = 0 / at the guard; one '
        'or varying h) on one or two live objects (w = Wrapper, c = compiled class, py = Python class), '
        'history:<kind>:<fn>:<where> counts the calls.  Wrapper-model cases = whole histories run through '
        'Gen/KernelWrapper.lean on doubles (wrapper-model:*), non-trivial = some non-zero result.')
    if a.replay:
        rp = json.load(open(a.replay))
        case = rp['case']
        if case.get('check') == 'call-history':
            xr = cross_process_refs([case], 1, a.work)
            if 0 in xr:
                case = dict(case, _xref=xr[0])
        try:
            res = prop_case(case)
        except Exception as e:      # noqa
            res = ('the kernel evaluates without raising', '%s: %s' % (type(e).__name__, e))
        print('case    :', json.dumps({k: v for k, v in case.items() if k != '_xref'}))
        if res is None:
            print('holds on the current tree')
            sys.exit(0)
        print('demand  :', res[0])
        print('observed:', res[1])
        sys.exit(1)
    quick = a.tier == 'quick'
    rng = random.Random(a.seed * 7919 + 8)
    run_history_cases(corpus(), R, a.seed + 1, a.work)
    R.count('corpus', len(corpus()))
    check_tables(R)
    same = check_mako(R, a.work)
    check_model(model_points(rng, 10 if quick else 24, 40 if quick else 120), R)
    run_prop_cases(gen_prop_cases(rng, 8 if quick else 24, 32 if quick else 96), R)
    run_prop_cases(gen_knot_cases(rng, 6 if quick else 40, count=R.count), R)
    check_wrapper_model(R, rng, 6 if quick else 30)
    run_history_cases(gen_history_cases(rng, 12 if quick else 60, count=R.count), R, a.seed + 2,
                      a.work)
    if a.broken or R.d['disagreements'] or same is False:
        rng2 = random.Random(a.seed + 12345)
        before = len(R.d['property_failures'])
        extra = (gen_prop_cases(rng2, 12, 48) + gen_knot_cases(rng2, 60, count=R.count) +
                 gen_history_cases(rng2, 40, count=R.count))
        run_history_cases(extra, R, a.seed + 3, a.work)
        R.d['search'] = {'extra_cases': len(extra),
                         'found': len(R.d['property_failures']) - before}
    R.write(a.out)


if __name__ == '__main__':
    main()
