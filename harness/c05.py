"""C05 tie + property oracle: results do not depend on neighbour algorithm,
cache, threads or re-ordering.

impl   : pysph.solver.application.Application.run(argv) on small problems
         written here (scratch build of /repo), one subprocess per configuration
         (OMP_NUM_THREADS, the global compyle config and argparse are per process):
         wall / block / periodic (WCSPH, TVF: PEC-type integrators, 4 steps) and
         gtvf (shipped GTVFScheme + GTVFIntegrator, 400 particles, periodic,
         12 steps, --reorder-freq 2..6 so that several re-orders happen INSIDE
         the time loop: GTVFIntegrator.one_timestep starts with
         compute_accelerations(0, update_nnps=False), i.e. it queries the NNPS
         exactly as the previous step and its re-order left it) and
         rarefy (NON-periodic disc of gas whose centre rarefies, adaptive
         smoothing length written the way the gas-dynamics / shallow-water
         schemes write it: h is recomputed from the density inside groups
         declared update_nnps=True - once a plain group, once a group made of
         sub-groups, the two places of acceleration_eval_cython.mako that emit
         the NNPS refresh; the density is summed at three kernel widths per
         step (0.8, 1.0, 1.3 times hfac*sqrt(m/rho): stepper, first group,
         second group), so max(h) grows by >= 25% inside EACH of the two
         groups of every step, and over the run as the centre thins; 6 steps;
         the state carries the neighbour count of the last summation and the
         counts/densities accumulated over all summations).  Here
         the algorithms that bin with radius_scale*max(h) (ll, box, sh, esh,
         ci, sfc, strat_*) are compared with the octrees, which do not use the
         cell size: the reference run of this problem is --nnps tree; and
         multires / multires_big (two-array tank; h constant in time but not
         uniform in space: wall h = 1.5 dx, fluid h = dx +-10% with isolated
         particles of 1.6-3 dx, the largest next to the centre lines of the
         bounding box; lattice order).  On these every --nnps value runs with
         --fixed-h and with non-default tuning options (--stratified-grid-
         num-levels, --tree-leaf-max-particles, --spatial-hash-table-size,
         --spatial-hash-sub-factor), which configure the search and must not
         change the state; and the structures that the library itself builds
         inside OpenMP regions (octrees: threaded whenever OMP_NUM_THREADS > 1,
         with or without --openmp; neighbour cache) are rebuilt 48 times per
         run under 3..16 threads with two OpenMP wait policies ('passive':
         threads of a region start tens of microseconds apart; 'spin': they
         start together, so that short loops of different threads overlap)
oracle : the property statement itself, evaluated on the final particle
         arrays matched by gid:
           * every configuration == the plain baseline (--nnps ll - for rarefy
             --nnps tree -, no cache, no OpenMP, no re-ordering, unsorted) per
             particle within
             1e-12 * (magnitude scale of the property)        [summation order]
           * rarefy: additionally every pair of configurations with each other
           * a configuration whose run does not complete (exception, SIGSEGV) is
             a failure of the property for that configuration
           * all --sort-gids configurations are bit-identical to each other
             across nnps x cache x openmp x threads (x reorder: the harness
             assigns unique gids, so the sort key travels with the particle)
           * running a configuration twice is bit-identical
model  : Model/Determinism.lean at Float through the driver: the per-destination
         non-commutative fold over the neighbour list the real NNPS returned,
         executed under random thread partitions and interleavings, must equal
         bit for bit what the generated (OpenMP or serial) loop computed; the
         model's neighbour sort must equal NNPS._sort_neighbors.
         Model/TreeReduce.lean at Float: the level-1 hmax table of the
         (parallel, per-thread tables + merge) octree build under the static
         chunks of T threads and a random interleaving must equal bit for bit
         the hmax stored in the level-1 children of Octree / CompressedOctree
         built under T = 1..16 threads, 12 builds each ('treetie').
"""
import json
import math
import os
import random
import subprocess
import sys
import time
from concurrent.futures import ThreadPoolExecutor

import numpy as np

import hcommon as H

NNPS_ALL = ['ll', 'box', 'sh', 'esh', 'ci', 'sfc', 'tree', 'comp_tree',
            'strat_hash', 'strat_sfc']
ZORDER_FAMILY = ('sfc', 'strat_sfc')
NO_REORDER = ('sh', 'esh', 'strat_hash')   # no get_spatially_ordered_indices
PROBLEMS = ('wall', 'block', 'periodic')
# 'gtvf': the shipped GTVFScheme/GTVFIntegrator, whose FIRST evaluation of a
# step is compute_accelerations(0, update_nnps=False): the only shipped
# integrator that queries the NNPS as the previous step (including its
# re-order) left it.  Needs a multi-step history with re-orders inside it.
HISTORY_PROBLEMS = ('gtvf',)
GTVF_STEPS = 12
# 'rarefy': h changes (and max(h) grows) INSIDE update_nnps=True groups of a
# non-periodic problem: the NNPS refresh emitted by the template after such a
# group must also refresh the cell size (DomainManager.update), which only the
# binning algorithms use.  All binning algorithms share that input, so the
# reference run of this problem is an octree.
RAREFY_STEPS = 6
RAREFY_DX = 0.05
RAREFY_HFAC = 1.2
# multiples of hfac*sqrt(m/rho) h is set to by: the stepper (after the move),
# the plain update_nnps group, the update_nnps group made of sub-groups
RAREFY_WIDTHS = (0.8, 1.0, 1.3)
RAREFY_DT = 0.1
RAREFY_RATE = 2.5
GRID_BASED = ('ll', 'box', 'sh', 'esh', 'ci', 'sfc')
TREE_BASED = ('tree', 'comp_tree')
STRATIFIED = ('strat_hash', 'strat_sfc')
BASE_NNPS = {'rarefy': 'tree'}       # default: 'll'
PAIRWISE = ('rarefy',)               # also compared with each other
MULTI_ARRAY = {'wall': True, 'block': False, 'periodic': False, 'tie': True,
               'gtvf': False, 'rarefy': False, 'multires': True,
               'multires_big': True}
# 'multires': smoothing lengths that are constant in time but NOT uniform in
# space: the wall array carries a larger h than the fluid, the fluid's h varies
# smoothly by +-10% and a few isolated particles carry 1.6 .. 3 times the
# h of their surroundings (the largest ones sit next to the centre lines of
# the fluid's bounding box, i.e. next to the faces of the octree's level-1
# children and of the coarsest cells of the other algorithms).  Every other
# particle within radius_scale*h_spot of such a particle is its neighbour ONLY
# through the scatter radius (r < k*h_j, r >= k*h_i), and the per-cell /
# per-node maximum of h is attained by ONE particle.  The array is handed over
# in lattice order (the usual way) and is large enough that the static OpenMP
# chunks of the (always threaded) octree build work on the same octant at the
# same time; 24 steps = 48 rebuilds of every search structure per run.
# Two sizes: 'multires' (32x32 fluid particles, 6 steps: every --nnps value x
# --fixed-h x tuning knobs; StratifiedHashNNPS needs seconds per step on the
# large one) and 'multires_big' (96x96, 24 steps: thread sweeps).
MR_NF = {'multires': 32, 'multires_big': 96}
MR_STEPS = {'multires': 6, 'multires_big': 24}
MR_DX = 0.01
MR_WALL_H = 1.5
# Application options that configure the neighbour search without being part
# of its result (held equal or varied, the state must not change):
#   --fixed-h (smoothing lengths constant in TIME; forwarded to the NNPS
#   constructors and to the integrator), and the tuning knobs of the algorithms
KNOB_FLAGS = {'num_levels': '--stratified-grid-num-levels',
              'leaf_max': '--tree-leaf-max-particles',
              'table_size': '--spatial-hash-table-size',
              'sub_factor': '--spatial-hash-sub-factor'}
KNOB_VALUES = {'num_levels': (1, 2, 3, 4), 'leaf_max': (2, 4, 10, 32, 64),
               'table_size': (131072, 4099, 257), 'sub_factor': (1, 2, 3, 4)}
KNOBS_OF = {'strat_hash': ('num_levels', 'table_size'),
            'strat_sfc': ('num_levels',),
            'tree': ('leaf_max',), 'comp_tree': ('leaf_max',),
            'sh': ('table_size',), 'esh': ('table_size', 'sub_factor')}
# problems whose h really is constant in time (--fixed-h is a true statement)
FIXED_H_OK = ('wall', 'block', 'periodic', 'gtvf', 'multires',
              'multires_big', 'tie')
HERE = os.path.abspath(__file__)


# ---------------------------------------------------------------------------
# worker side: one configuration, in its own process

def _jitter(rng, n, amp):
    return (rng.random_sample(n) - 0.5) * 2.0 * amp


def make_arrays(problem, seed):
    """deterministic (seeded) initial particles; unique gids over all arrays"""
    from pysph.base.utils import get_particle_array
    rng = np.random.RandomState(1000003 * (seed % 1000) + 17)
    if problem == 'block':
        # 3D free-surface block of fluid, falling under gravity
        dx = 0.1
        n = 6
        g = np.mgrid[0:n, 0:n, 0:n].reshape(3, -1).astype(float) * dx
        x, y, z = (g[i] + _jitter(rng, n ** 3, 0.12 * dx) for i in range(3))
        h = np.ones_like(x) * 1.2 * dx
        rho0 = 1000.0
        m = dx ** 3 * rho0 * (1.0 + _jitter(rng, n ** 3, 0.01))
        u = 0.4 * np.sin(3.0 * y) + _jitter(rng, n ** 3, 0.02)
        v = -0.3 * np.cos(2.0 * x)
        w = 0.2 * np.sin(4.0 * x * y)
        fl = get_particle_array(name='fluid', x=x, y=y, z=z, h=h, m=m,
                                rho=rho0 * (1.0 + _jitter(rng, n ** 3, 0.01)),
                                u=u, v=v, w=w)
        arrs = [fl]
    elif problem in ('wall', 'tie'):
        # 2D block of fluid in an open tank made of a second (solid) array
        dx = 0.05
        nf = 12
        g = np.mgrid[0:nf, 0:nf].reshape(2, -1).astype(float) * dx
        x = g[0] + dx + _jitter(rng, nf * nf, 0.1 * dx)
        y = g[1] + dx + _jitter(rng, nf * nf, 0.1 * dx)
        rho0 = 1000.0
        h = np.ones_like(x) * 1.3 * dx
        m = dx * dx * rho0 * (1.0 + _jitter(rng, nf * nf, 0.01))
        u = 0.5 * np.sin(5.0 * y) + _jitter(rng, nf * nf, 0.02)
        v = -0.5 * np.cos(4.0 * x)
        fl = get_particle_array(name='fluid', x=x, y=y, h=h, m=m,
                                rho=rho0 * (1.0 + _jitter(rng, nf * nf, 0.01)),
                                u=u, v=v)
        # tank: 3 layers, bottom and two side walls; wider than the fluid so
        # that parts of the wall have no fluid nearby (sparse second array)
        nl = 3
        pts = []
        nxw = 22
        for i in range(-nl, nxw + nl):
            for j in range(-nl, 0):
                pts.append((i * dx + dx, j * dx + dx))
        for j in range(0, 16):
            for i in range(-nl, 0):
                pts.append((i * dx + dx, j * dx + dx))
            for i in range(nxw, nxw + nl):
                pts.append((i * dx + dx, j * dx + dx))
        pts = np.array(pts)
        xs, ys = pts[:, 0].copy(), pts[:, 1].copy()
        so = get_particle_array(name='solid', x=xs, y=ys,
                                h=np.ones_like(xs) * 1.3 * dx,
                                m=dx * dx * rho0 * (1.0 + _jitter(rng, len(xs), 0.01)),
                                rho=rho0 * (1.0 + _jitter(rng, len(xs), 0.01)))
        arrs = [fl, so]
    elif problem in MR_NF:
        fl, so = multires_arrays(rng, MR_NF[problem])
        arrs = [fl, so]
    elif problem == 'periodic':
        # 2D doubly periodic box, Taylor-Green like velocity field
        n = 16
        dx = 1.0 / n
        g = np.mgrid[0:n, 0:n].reshape(2, -1).astype(float) * dx + 0.5 * dx
        x = g[0] + _jitter(rng, n * n, 0.1 * dx)
        y = g[1] + _jitter(rng, n * n, 0.1 * dx)
        rho0 = 1.0
        U = 1.0
        u = -U * np.cos(2 * np.pi * x) * np.sin(2 * np.pi * y)
        v = U * np.sin(2 * np.pi * x) * np.cos(2 * np.pi * y)
        fl = get_particle_array(name='fluid', x=x, y=y,
                                h=np.ones_like(x) * 1.0 * dx,
                                m=dx * dx * rho0 * (1.0 + _jitter(rng, n * n, 0.01)),
                                rho=rho0 * (1.0 + _jitter(rng, n * n, 0.01)),
                                u=u, v=v)
        arrs = [fl]
    elif problem == 'gtvf':
        # 2D doubly periodic box, Taylor-Green like velocity field, stored in
        # a scrambled order (the order the user hands particles over in is
        # arbitrary); fast enough that particles change cell between two
        # re-orders a few steps apart
        n = GTVF_N
        dx = 1.0 / n
        g = np.mgrid[0:n, 0:n].reshape(2, -1).astype(float) * dx + 0.5 * dx
        perm = rng.permutation(n * n)
        x = (g[0] + _jitter(rng, n * n, 0.1 * dx))[perm]
        y = (g[1] + _jitter(rng, n * n, 0.1 * dx))[perm]
        rho0 = 1.0
        U = 1.0
        b = 2 * np.pi
        u = -U * np.cos(b * x) * np.sin(b * y)
        v = U * np.sin(b * x) * np.cos(b * y)
        p = -0.25 * U * U * (np.cos(2 * b * x) + np.cos(2 * b * y))
        fl = get_particle_array(name='fluid', x=x, y=y,
                                h=np.ones_like(x) * GTVF_HDX * dx,
                                m=dx * dx * rho0 * (1.0 + _jitter(rng, n * n, 0.01)),
                                rho=rho0 * np.ones_like(x), u=u, v=v, p=p)
        arrs = [fl]
    elif problem == 'rarefy':
        # 2D disc of gas in free space (no domain, no ghosts), stored in a
        # scrambled order.  The centre is pushed outwards, the rim is at rest:
        # the centre rarefies, so the density-based smoothing length of the
        # particles with the largest h keeps growing.
        dx = RAREFY_DX
        g = np.mgrid[-1:1 + dx / 2:dx, -1:1 + dx / 2:dx].reshape(2, -1)
        keep = g[0] * g[0] + g[1] * g[1] < 1.0
        x, y = g[0][keep], g[1][keep]
        n = x.size
        perm = rng.permutation(n)
        x = (x + _jitter(rng, n, 0.1 * dx))[perm]
        y = (y + _jitter(rng, n, 0.1 * dx))[perm]
        r = np.sqrt(x * x + y * y)
        f = RAREFY_RATE * np.clip((0.9 - r) / 0.6, 0.0, 1.0)
        fl = get_particle_array(name='fluid', x=x, y=y, m=dx * dx, rho=1.0,
                                h=RAREFY_HFAC * dx, u=f * x, v=f * y)
        for extra in ('nn', 'nnsum', 'rhosum'):
            fl.add_property(extra)
        arrs = [fl]
    else:
        raise SystemExit('unknown problem %r' % problem)
    return arrs


GTVF_N = 20
GTVF_HDX = 1.0
GTVF_C0 = 10.0


def multires_h(rng, nf, dx, x, y):
    """smoothing lengths of the 'multires' fluid (lattice index = i*nf + j):
    smooth +-10% field, plus isolated large-h particles; returns h and the
    lattice indices of the spots"""
    L = nf * dx
    h = dx * (1.0 + 0.1 * np.sin(7.0 * x / L) * np.cos(5.0 * y / L))
    lo, hi = nf // 2 - 1, nf // 2
    spots = {}
    # one per quadrant next to the centre of the bounding box: the largest
    for i in (lo, hi):
        for j in (lo, hi):
            spots[i * nf + j] = 3.0
    # next to the two centre lines, away from the centre
    for _ in range(6):
        a = int(rng.randint(2, nf - 2))
        b = int(rng.choice((lo, hi)))
        k = a * nf + b if rng.random_sample() < 0.5 else b * nf + a
        spots.setdefault(k, 2.2 + 0.6 * rng.random_sample())
    # anywhere
    for _ in range(10):
        k = int(rng.randint(0, nf * nf))
        spots.setdefault(k, 1.6 + 0.8 * rng.random_sample())
    for k, f in spots.items():
        h[k] = f * dx
    return h, sorted(spots)


def multires_arrays(rng, nf):
    from pysph.base.utils import get_particle_array
    dx = MR_DX
    g = np.mgrid[0:nf, 0:nf].reshape(2, -1).astype(float) * dx
    x = g[0] + dx + _jitter(rng, nf * nf, 0.05 * dx)
    y = g[1] + dx + _jitter(rng, nf * nf, 0.05 * dx)
    rho0 = 1000.0
    h, _ = multires_h(rng, nf, dx, x, y)
    m = dx * dx * rho0 * (1.0 + _jitter(rng, nf * nf, 0.01))
    u = 0.5 * np.sin(5.0 * y) + _jitter(rng, nf * nf, 0.02)
    v = -0.5 * np.cos(4.0 * x)
    fl = get_particle_array(name='fluid', x=x, y=y, h=h, m=m,
                            rho=rho0 * (1.0 + _jitter(rng, nf * nf, 0.01)),
                            u=u, v=v)
    # open tank, 3 layers, h = 1.5 dx: a second array with ANOTHER h
    nl = 3
    pts = []
    for i in range(-nl, nf + nl):
        for j in range(-nl, 0):
            pts.append((i * dx + dx, j * dx + dx))
    for j in range(0, nf + 4):
        for i in range(-nl, 0):
            pts.append((i * dx + dx, j * dx + dx))
        for i in range(nf, nf + nl):
            pts.append((i * dx + dx, j * dx + dx))
    pts = np.array(pts)
    xs, ys = pts[:, 0].copy(), pts[:, 1].copy()
    so = get_particle_array(name='solid', x=xs, y=ys,
                            h=np.ones_like(xs) * MR_WALL_H * dx,
                            m=dx * dx * rho0 * (1.0 + _jitter(rng, len(xs), 0.01)),
                            rho=rho0 * (1.0 + _jitter(rng, len(xs), 0.01)))
    return fl, so


def assign_gids(arrs):
    off = 0
    for pa in arrs:
        n = pa.get_number_of_particles()
        pa.gid[:] = np.arange(off, off + n, dtype=np.uint32)
        off += n


_TIE = []


def _tie_classes():
    if _TIE:
        return _TIE[0]
    from pysph.sph.equation import Equation
    from pysph.sph.integrator_step import IntegratorStep

    class C05Fold(Equation):
        """order-revealing, arithmetic-only pair function:
        acc <- 0.75*acc + m_j*(x_i - x_j) + y_j   (not commutative)"""
        def initialize(self, d_idx, d_acc, d_cnt):
            d_acc[d_idx] = 0.0
            d_cnt[d_idx] = 0.0

        def loop(self, d_idx, s_idx, d_acc, d_cnt, d_x, s_x, s_m, s_y):
            d_acc[d_idx] = 0.75 * d_acc[d_idx] + \
                s_m[s_idx] * (d_x[d_idx] - s_x[s_idx]) + s_y[s_idx]
            d_cnt[d_idx] += 1.0

    class C05NoStep(IntegratorStep):
        def stage1(self, d_idx, d_acc):
            d_acc[d_idx] = d_acc[d_idx]

    _TIE.append((C05Fold, C05NoStep))
    return _TIE[0]


_RAREFY = []


def _rarefy_classes():
    if _RAREFY:
        return _RAREFY[0]
    from pysph.sph.equation import Equation
    from pysph.sph.integrator_step import IntegratorStep

    class C05SumDensity(Equation):
        """summation density and the (integer valued) neighbour count; nnsum
        and rhosum accumulate them over all evaluations of the run, so a pair
        missed in ANY evaluation stays visible in the final state"""
        def initialize(self, d_idx, d_rho, d_nn):
            d_rho[d_idx] = 0.0
            d_nn[d_idx] = 0.0

        def loop(self, d_idx, s_idx, d_rho, d_nn, d_nnsum, s_m, WIJ):
            d_rho[d_idx] += s_m[s_idx] * WIJ
            d_nn[d_idx] += 1.0
            d_nnsum[d_idx] += 1.0

        def post_loop(self, d_idx, d_rho, d_rhosum):
            d_rhosum[d_idx] += d_rho[d_idx]

    class C05AdaptH(Equation):
        """h_i = hfac*sqrt(m_i/rho_i) (2D), as the gas-dynamics schemes do"""
        def __init__(self, dest, sources, hfac):
            self.hfac = hfac
            super(C05AdaptH, self).__init__(dest, sources)

        def initialize(self, d_idx, d_h, d_m, d_rho):
            d_h[d_idx] = self.hfac * sqrt(d_m[d_idx] / d_rho[d_idx])  # noqa: F821

    class C05MoveStep(IntegratorStep):
        """move with the (constant) particle velocity; start the next step
        with the narrow kernel (the integrator refreshes domain and NNPS
        itself after the stage and before the next evaluation)"""
        def __init__(self, hfac):
            self.hfac = hfac

        def stage1(self, d_idx, d_x, d_y, d_u, d_v, d_h, d_m, d_rho, dt):
            d_x[d_idx] += dt * d_u[d_idx]
            d_y[d_idx] += dt * d_v[d_idx]
            d_h[d_idx] = self.hfac * sqrt(d_m[d_idx] / d_rho[d_idx])  # noqa: F821

    _RAREFY.append((C05SumDensity, C05AdaptH, C05MoveStep))
    return _RAREFY[0]


def make_app(problem, seed, outdir, assign_gid=True):
    from pysph.solver.application import Application
    from pysph.sph.scheme import WCSPHScheme, TVFScheme

    class Prob(Application):
        def create_particles(self):
            arrs = make_arrays(problem, seed)
            if problem == 'tie':
                for pa in arrs:
                    pa.add_property('acc')
                    pa.add_property('cnt')
            elif problem == 'rarefy':
                pass
            else:
                self.scheme.setup_properties(arrs)
            if assign_gid:
                assign_gids(arrs)
            return arrs

        if problem == 'block':
            def create_scheme(self):
                dx = 0.1
                c0 = 35.0
                s = WCSPHScheme(['fluid'], [], dim=3, rho0=1000.0, c0=c0,
                                h0=1.2 * dx, hdx=1.2, gz=-9.81, alpha=0.2,
                                beta=0.0, gamma=7.0)
                s.configure_solver(dt=0.125 * 1.2 * dx / c0, tf=1.0)
                return s
        elif problem == 'wall':
            def create_scheme(self):
                dx = 0.05
                c0 = 30.0
                s = WCSPHScheme(['fluid'], ['solid'], dim=2, rho0=1000.0,
                                c0=c0, h0=1.3 * dx, hdx=1.3, gy=-9.81,
                                alpha=0.1, beta=0.0, gamma=7.0)
                s.configure_solver(dt=0.125 * 1.3 * dx / c0, tf=1.0)
                return s
        elif problem in MR_NF:
            def create_scheme(self):
                # the same scheme (and so the same generated module) as 'wall'
                dx = MR_DX
                c0 = 30.0
                s = WCSPHScheme(['fluid'], ['solid'], dim=2, rho0=1000.0,
                                c0=c0, h0=dx, hdx=1.0, gy=-9.81,
                                alpha=0.1, beta=0.0, gamma=7.0)
                s.configure_solver(dt=0.125 * dx / c0, tf=1.0)
                return s
        elif problem == 'periodic':
            def create_scheme(self):
                dx = 1.0 / 16
                c0 = 10.0
                s = TVFScheme(['fluid'], [], dim=2, rho0=1.0, c0=c0, nu=0.01,
                              p0=c0 * c0, pb=c0 * c0, h0=dx)
                s.configure_solver(dt=0.125 * dx / c0, tf=1.0)
                return s

            def create_domain(self):
                from pysph.base.nnps import DomainManager
                return DomainManager(xmin=0.0, xmax=1.0, ymin=0.0, ymax=1.0,
                                     periodic_in_x=True, periodic_in_y=True)
        elif problem == 'gtvf':
            def create_scheme(self):
                from pysph.base.kernels import QuinticSpline
                from pysph.sph.wc.gtvf import GTVFScheme
                dx = 1.0 / GTVF_N
                h0 = GTVF_HDX * dx
                c0 = GTVF_C0
                s = GTVFScheme(fluids=['fluid'], solids=[], dim=2, rho0=1.0,
                               c0=c0, nu=0.01, h0=h0, pref=c0 * c0)
                s.configure_solver(kernel=QuinticSpline(dim=2),
                                   dt=0.25 * h0 / (c0 + 1.0), tf=1.0)
                return s

            def create_domain(self):
                from pysph.base.nnps import DomainManager
                return DomainManager(xmin=0.0, xmax=1.0, ymin=0.0, ymax=1.0,
                                     periodic_in_x=True, periodic_in_y=True)
        elif problem == 'rarefy':
            def create_solver(self):
                from pysph.base.kernels import CubicSpline
                from pysph.sph.integrator import EulerIntegrator
                from pysph.solver.solver import Solver
                _, _, Move = _rarefy_classes()
                integ = EulerIntegrator(
                    fluid=Move(RAREFY_HFAC * RAREFY_WIDTHS[0]))
                return Solver(kernel=CubicSpline(dim=2), dim=2,
                              integrator=integ, dt=RAREFY_DT, tf=100.0)

            def create_equations(self):
                from pysph.sph.equation import Group
                Rho, AdaptH, _ = _rarefy_classes()
                hf1 = RAREFY_HFAC * RAREFY_WIDTHS[1]
                hf2 = RAREFY_HFAC * RAREFY_WIDTHS[2]
                return [
                    # plain group that changes h: template do_group site
                    Group(equations=[AdaptH('fluid', None, hf1)],
                          update_nnps=True, name='c05_adapt_h'),
                    Group(equations=[Rho('fluid', ['fluid'])],
                          name='c05_density'),
                    # group made of sub-groups that changes h: the other site
                    Group(equations=[
                        Group(equations=[AdaptH('fluid', None, hf2)],
                              name='c05_adapt_h_sub')],
                        update_nnps=True, name='c05_adapt_h_again'),
                    Group(equations=[Rho('fluid', ['fluid'])],
                          name='c05_density_again'),
                ]
        elif problem == 'tie':
            def create_solver(self):
                from pysph.base.kernels import CubicSpline
                from pysph.sph.integrator import EulerIntegrator
                from pysph.solver.solver import Solver
                _, NoStep = _tie_classes()
                integ = EulerIntegrator(fluid=NoStep(), solid=NoStep())
                return Solver(kernel=CubicSpline(dim=2), dim=2,
                              integrator=integ, dt=1e-3, tf=1.0)

            def create_equations(self):
                Fold, _ = _tie_classes()
                return [Fold(dest='fluid', sources=['fluid', 'solid']),
                        Fold(dest='solid', sources=['fluid'])]

    return Prob(fname='c05', output_dir=outdir)


def argv_of(spec, outdir, openmp_flag):
    a = ['--nnps', spec['nnps'], '--max-steps', str(spec['steps']),
         '-d', outdir, '--pfreq', '1000', '-q']
    if spec['cache']:
        a.append('--cache-nnps')
    if spec['sort']:
        a.append('--sort-gids')
    if spec['reorder'] is not None:
        a += ['--reorder-freq', str(spec['reorder'])]
    if spec.get('fixed_h'):
        a.append('--fixed-h')
    for k, v in sorted((spec.get('knobs') or {}).items()):
        a += [KNOB_FLAGS[k], str(v)]
    if spec['openmp'] is True and openmp_flag:
        a.append('--openmp')
    elif spec['openmp'] is False:
        a.append('--no-openmp')
    return a


def collect(arrs):
    """real particles of every array, sorted by gid: name:prop -> values"""
    out = {}
    for pa in arrs:
        tag = pa.get('tag', only_real_particles=False)
        gid = pa.get('gid', only_real_particles=False)
        real = np.where(tag == 0)[0]
        order = real[np.argsort(gid[real], kind='stable')]
        out['%s:gid' % pa.name] = gid[order].astype(np.int64)
        out['%s:nall' % pa.name] = np.array([len(tag)])
        out['%s:nreal_attr' % pa.name] = np.array(
            [pa.get_number_of_particles(True)])
        out['%s:index' % pa.name] = order.astype(np.int64)
        for prop in sorted(pa.properties):
            if prop in ('gid', 'tag', 'pid'):
                continue
            st = pa.stride.get(prop, 1)
            val = pa.get(prop, only_real_particles=False)
            val = np.asarray(val).reshape(len(tag), st)[order]
            out['%s:%s' % (pa.name, prop)] = val
    return out


TREE_THREADS = [1, 2, 3, 5, 8, 16]
TREE_BUILDS = 12


def tree_clouds(seed):
    """particle arrays for the octree tie: the 'multires' fluid (2D lattice
    order, isolated large-h particles) and a 3D cloud in random order"""
    from pysph.base.utils import get_particle_array
    rng = np.random.RandomState(1000003 * (seed % 1000) + 29)
    fl, _ = multires_arrays(rng, 64)
    n = 3000
    x, y, z = (rng.random_sample(n) for _ in range(3))
    h = 0.03 * (1.0 + 0.2 * rng.random_sample(n))
    for k in rng.randint(0, n, 12):
        h[k] *= 2.0 + 2.0 * rng.random_sample()
    cl = get_particle_array(name='cloud', x=x, y=y, z=z, h=h)
    return [('lattice2d', fl), ('cloud3d', cl)]


def _leaves_under(node, tree, out):
    if node.is_leaf:
        out.extend(int(i) for i in node.get_indices(tree).get_npy_array())
        return
    for ch in node.get_children():
        if ch is not None:
            _leaves_under(ch, tree, out)


def tree_trace(spec):
    """level-1 children of freshly built octrees under several thread
    counts: octant of every particle (from the tree itself) and the hmax the
    build stored in each level-1 child, TREE_BUILDS builds each"""
    from pysph.base.octree import Octree, CompressedOctree
    try:
        from pysph.base.omp_threads import set_number_of_threads
    except ImportError:
        set_number_of_threads = None
    recs = []
    for cname_, pa in tree_clouds(spec['seed']):
        n = pa.get_number_of_particles()
        hs = [float(v) for v in pa.h]
        for cls in (Octree, CompressedOctree):
            for T in spec['tree_threads']:
                if set_number_of_threads is None and T != 1:
                    continue
                if set_number_of_threads is not None:
                    set_number_of_threads(T)
                tables = {}
                octs = None
                err = None
                for k in range(spec['tree_builds']):
                    t = cls(spec['leaf_max'])
                    t.build_tree(pa)
                    kids = t.get_root().get_children()
                    tab = [float(c.hmax) if c is not None else 0.0
                           for c in kids]
                    key = ','.join(H.fbits(v) for v in tab)
                    tables[key] = tables.get(key, 0) + 1
                    if k == 0:
                        octs = [-1] * n
                        for o, c in enumerate(kids):
                            if c is None:
                                continue
                            ids = []
                            _leaves_under(c, t, ids)
                            for i in ids:
                                octs[i] = o
                        if min(octs) < 0:
                            err = 'particles in no level-1 child'
                    t.delete_tree()
                recs.append({'cloud': cname_, 'cls': cls.__name__, 'T': T,
                             'n': n, 'h': hs, 'oct': octs, 'tables': tables,
                             'err': err})
    return recs


def worker(spec_file):
    spec = json.load(open(spec_file))
    H.assert_scratch_import()
    info = {}
    if spec['problem'] == 'treetie':
        info['tree'] = tree_trace(spec)
        np.savez(spec['out'], dummy=np.zeros(1))
        json.dump(info, open(spec['out'] + '.json', 'w'))
        return
    from compyle.config import get_config
    outdir = spec['outdir']
    os.makedirs(outdir, exist_ok=True)
    app = make_app(spec['problem'], spec['seed'], outdir,
                   assign_gid=spec.get('assign_gid', True))
    app.run(argv_of(spec, outdir, True))
    from pysph.base.nnps import get_number_of_threads
    info['use_openmp'] = bool(get_config().use_openmp)
    info['n_threads'] = int(get_number_of_threads())
    info['nnps_class'] = type(app.nnps).__name__
    # use_cache is not a public attribute: a query through the public API
    # fills the cache's per-thread arrays iff the cache is in use
    from cyarray.api import UIntArray
    app.nnps.get_nearest_particles(0, 0, 0, UIntArray())
    info['use_cache'] = any(a.length > 0 for c in app.nnps.cache
                            for a in c._neighbor_arrays)
    info['sort_gids'] = bool(app.nnps.sort_gids) if hasattr(
        app.nnps, 'sort_gids') else None
    info['reorder_freq'] = int(app.solver.reorder_freq)
    info['fixed_h'] = bool(app.solver.fixed_h) and \
        bool(app.solver.integrator.fixed_h)
    info['omp_wait'] = os.environ.get('OMP_WAIT_POLICY', 'default')
    info['count'] = int(app.solver.count)
    info['ae_threads'] = int(
        app.solver.acceleration_evals[0].c_acceleration_eval.n_threads)
    res = collect(app.particles)
    if spec['problem'] == 'tie':
        info['tie'] = tie_trace(app, spec)
        res = collect(app.particles)
    np.savez(spec['out'], **res)
    json.dump(info, open(spec['out'] + '.json', 'w'))


def tie_trace(app, spec):
    """one more evaluation of the fold equation on the final (possibly
    re-ordered) arrays, and the neighbour lists it used, in the order the
    NNPS hands them out"""
    from cyarray.api import UIntArray
    ae = app.solver.acceleration_evals[0]
    ae.compute(0.0, 1e-3)
    nnps = app.nnps
    arrs = app.particles
    names = [pa.name for pa in arrs]
    tr = {'arrays': {}, 'loops': []}
    for pa in arrs:
        tr['arrays'][pa.name] = {
            k: [float(v) for v in pa.get(k, only_real_particles=False)]
            for k in ('x', 'y', 'm', 'acc', 'cnt')}
        tr['arrays'][pa.name]['gid'] = [
            int(v) for v in pa.get('gid', only_real_particles=False)]
    nb = UIntArray()
    for dest, sources in (('fluid', ['fluid', 'solid']), ('solid', ['fluid'])):
        di = names.index(dest)
        nd = arrs[di].get_number_of_particles(True)
        for s in sources:
            si = names.index(s)
            lists = []
            for i in range(nd):
                nnps.get_nearest_particles(si, di, i, nb)
                lists.append([int(j) for j in nb.get_npy_array()])
            tr['loops'].append({'dest': dest, 'src': s, 'nbrs': lists})
    # raw (unsorted) lists as well, to tie the model's sort to _sort_neighbors
    if spec['sort']:
        raw = []
        sg = nnps.sort_gids
        nnps.sort_gids = False
        try:
            di, si = names.index('fluid'), names.index('solid')
            for i in range(arrs[di].get_number_of_particles(True)):
                nnps.get_nearest_particles_no_cache(si, di, i, nb, False)
                raw.append([int(j) for j in nb.get_npy_array()])
        finally:
            nnps.sort_gids = sg
        tr['raw_fluid_solid'] = raw
    return tr


# ---------------------------------------------------------------------------
# parent side

def cfg(problem, nnps='ll', cache=False, openmp=False, threads=1, reorder=None,
        sort=False, steps=4, rep=0, assign_gid=True, fixed_h=False, knobs=None,
        wait='passive', env_threads=0):
    """env_threads > 0 (only without --openmp): OMP_NUM_THREADS of the process
    although the evaluation is serial - the parts of the library that are
    compiled with OpenMP (octree build, neighbour cache) are threaded whenever
    the environment offers threads, whatever --openmp says.
    wait: 'passive' = idle OpenMP threads sleep (threads of one parallel
    region start tens of microseconds apart), 'spin' = libgomp's default
    (idle threads spin for a while: the threads of a region start together,
    so that short loops really overlap in time) - two families of schedules"""
    return {'problem': problem, 'nnps': nnps, 'cache': bool(cache),
            'openmp': openmp, 'threads': int(threads), 'reorder': reorder,
            'sort': bool(sort), 'steps': int(steps), 'rep': int(rep),
            'assign_gid': bool(assign_gid), 'fixed_h': bool(fixed_h),
            'knobs': dict(knobs or {}), 'wait': wait,
            'env_threads': 0 if openmp else int(env_threads)}


def omp_threads_of(c):
    """OMP_NUM_THREADS of the process that runs configuration c"""
    return int(c['threads'] if c['openmp'] else (c.get('env_threads') or 1))


def norm_cfg(c):
    """a configuration written by an older version of this harness (replay
    files) lacks the newer keys"""
    d = cfg(c['problem'])
    d.update(c)
    return d


def rand_knobs(rng, nn, p=0.6):
    """non-default values of the tuning options of algorithm `nn`"""
    out = {}
    for k in KNOBS_OF.get(nn, ()):
        if rng.random() < p:
            out[k] = rng.choice(KNOB_VALUES[k])
    return out


def base_cfg(problem, steps):
    """the plain reference configuration of a problem"""
    return cfg(problem, BASE_NNPS.get(problem, 'll'), steps=steps)


def cname(c):
    return '%s/%s%s%s%s%s/%s%s%s/r%s%s%s%s' % (
        c['problem'], c['nnps'], '+cache' if c['cache'] else '',
        '+sort' if c['sort'] else '',
        '+fixedh' if c.get('fixed_h') else '',
        ''.join('+%s=%s' % kv for kv in sorted((c.get('knobs') or {}).items())),
        ('omp%d' % c['threads']) if c['openmp'] else (
            'noomp' if c['openmp'] is False else 'default'),
        ('/envT%d' % c['env_threads']) if c.get('env_threads') else '',
        '/spin' if c.get('wait', 'passive') != 'passive' else '',
        c['reorder'], '' if c['assign_gid'] else '/nogid',
        '/s%d' % c['steps'], ('#%d' % c['rep']) if c['rep'] else '')


class _Budget:
    """at most BUDGET_TOTAL OpenMP threads in flight"""
    def __init__(self, n):
        import threading
        self.n = n
        self.cv = threading.Condition()

    def acquire(self, k):
        with self.cv:
            while self.n < k:
                self.cv.wait()
            self.n -= k

    def release(self, k):
        with self.cv:
            self.n += k
            self.cv.notify_all()


BUDGET_TOTAL = 16
RUN_TIMEOUT = 900
_BUDGET = _Budget(BUDGET_TOTAL)


def run_one(c, seed, work, idx):
    d = os.path.join(work, 'run%05d' % idx)
    os.makedirs(d, exist_ok=True)
    spec = dict(c, seed=seed, outdir=os.path.join(d, 'out'),
                out=os.path.join(d, 'res.npz'))
    if c['problem'] == 'treetie':
        spec.update(tree_threads=[T for T in TREE_THREADS
                                  if T <= omp_threads_of(c)],
                    tree_builds=TREE_BUILDS,
                    leaf_max=(c.get('knobs') or {}).get('leaf_max', 10))
    sf = os.path.join(d, 'spec.json')
    json.dump(spec, open(sf, 'w'))
    env = dict(os.environ)
    env['OMP_NUM_THREADS'] = str(omp_threads_of(c))
    # the machine is shared with other checks: idle OpenMP threads must sleep,
    # not spin (results do not depend on the wait policy)
    if c.get('wait', 'passive') == 'passive':
        env['OMP_WAIT_POLICY'] = 'passive'
        env['GOMP_SPINCOUNT'] = '0'
    else:
        # spin briefly, then sleep (libgomp's default is 300000 spins, which
        # wastes a loaded machine: parallel regions that follow each other
        # within ~0.1 ms still find the team spinning)
        env.pop('OMP_WAIT_POLICY', None)
        env['GOMP_SPINCOUNT'] = os.environ.get('C05_SPINCOUNT', '30000')
    need = min(BUDGET_TOTAL, omp_threads_of(c))
    _BUDGET.acquire(need)
    t0 = time.time()
    try:
        p = subprocess.run([sys.executable, HERE, '--worker', sf], env=env,
                           stdout=subprocess.PIPE, stderr=subprocess.STDOUT,
                           text=True, cwd=d, timeout=RUN_TIMEOUT)
        rc, log = p.returncode, p.stdout[-3000:]
    except subprocess.TimeoutExpired as e:
        rc = -999
        log = 'TIMEOUT after %ds: %s' % (RUN_TIMEOUT, str(e.stdout or '')[-1500:])
    finally:
        _BUDGET.release(need)
    r = {'cfg': c, 'rc': rc, 'wall': time.time() - t0, 'log': log, 'dir': d}
    if rc == 0 and os.path.exists(spec['out']):
        z = np.load(spec['out'])
        r['data'] = {k: z[k] for k in z.files}
        r['info'] = json.load(open(spec['out'] + '.json'))
    return r


# problems that generate the same extension module (same scheme, same array
# names and properties): only one process may compile it
MODULE_FAMILY = {'multires': 'wall', 'multires_big': 'wall'}


def run_all(cfgs, seed, work, base_idx=0, par=8):
    """compile-sharing groups are warmed up by their first member, then the
    rest runs `par` at a time"""
    first = {}
    for i, c in enumerate(cfgs):
        first.setdefault((MODULE_FAMILY.get(c['problem'], c['problem']),
                          c['openmp'] is True), i)
    warm = sorted(first.values())
    res = [None] * len(cfgs)
    with ThreadPoolExecutor(max_workers=max(1, min(par, len(warm)))) as ex:
        for i, r in zip(warm, ex.map(
                lambda i: run_one(cfgs[i], seed, work, base_idx + i), warm)):
            res[i] = r
    rest = [i for i in range(len(cfgs)) if res[i] is None]
    with ThreadPoolExecutor(max_workers=par) as ex:
        for i, r in zip(rest, ex.map(
                lambda i: run_one(cfgs[i], seed, work, base_idx + i), rest)):
            res[i] = r
    return res


# scale of a property: what "relative 1e-12 of the sum of magnitudes" is
# measured against.  Accelerations are sums of ~20-60 pair terms that largely
# cancel, so the scale of a property is the largest magnitude it takes in the
# array (in either run) plus the magnitude of the pair terms that feed it,
# which for these problems is bounded by the per-problem constants below.
SCALES = {
    'wall': dict(c0=30.0, rho0=1000.0, L=1.0, dx=0.05),
    'block': dict(c0=35.0, rho0=1000.0, L=1.0, dx=0.1),
    'periodic': dict(c0=10.0, rho0=1.0, L=1.0, dx=1.0 / 16),
    'tie': dict(c0=1.0, rho0=1.0, L=1.0, dx=0.05),
    'gtvf': dict(c0=GTVF_C0, rho0=1.0, L=1.0, dx=1.0 / GTVF_N),
    # (the neighbour count 'nn' is an integer below 2^53: scale = its largest
    # value, i.e. it has to agree exactly)
    'rarefy': dict(c0=RAREFY_RATE, rho0=1.0, L=1.0, dx=RAREFY_DX),
    'multires': dict(c0=30.0, rho0=1000.0, L=1.0, dx=MR_DX),
    'multires_big': dict(c0=30.0, rho0=1000.0, L=1.0, dx=MR_DX),
}


def prop_scale(problem, prop, a, b):
    s = SCALES[problem]
    c0, rho0, L, dx = s['c0'], s['rho0'], s['L'], s['dx']
    base = max(float(np.max(np.abs(a))) if a.size else 0.0,
               float(np.max(np.abs(b))) if b.size else 0.0)
    p = prop
    if p in ('x', 'y', 'z', 'x0', 'y0', 'z0', 'h', 'h0'):
        ext = L
    elif p in ('u', 'v', 'w', 'u0', 'v0', 'w0', 'uhat', 'vhat', 'what',
               'ax', 'ay', 'az', 'cs', 'vmag', 'vmag2'):
        ext = c0 * (c0 if p == 'vmag2' else 1.0)
    elif p in ('au', 'av', 'aw', 'auhat', 'avhat', 'awhat'):
        ext = c0 * c0 / dx
    elif p in ('rho', 'rho0'):
        ext = rho0
    elif p in ('arho',):
        ext = rho0 * c0 / dx
    elif p in ('p', 'p0'):
        ext = rho0 * c0 * c0
    elif p in ('dt_cfl', 'dt_force', 'dt_visc'):
        ext = max(c0, c0 * c0 / dx)
    else:
        ext = 0.0
    return max(base, ext)


def compare(problem, A, B, exact):
    """first difference between two gid-matched results, or None"""
    ka = sorted(k for k in A if not k.endswith((':index', ':nall')))
    kb = sorted(k for k in B if not k.endswith((':index', ':nall')))
    if ka != kb:
        return {'what': 'property sets differ',
                'detail': sorted(set(ka) ^ set(kb))}
    worst = None
    first = None
    for k in ka:
        a, b = A[k], B[k]
        if a.shape != b.shape:
            return {'what': 'shape of %s differs' % k,
                    'detail': [list(a.shape), list(b.shape)]}
        if k.endswith((':gid', ':nreal_attr')):
            if not np.array_equal(a, b):
                return {'what': '%s differs' % k,
                        'detail': [a.tolist()[:8], b.tolist()[:8]]}
            continue
        a = np.asarray(a, dtype=float)
        b = np.asarray(b, dtype=float)
        if exact:
            same = (a.view(np.uint64) == b.view(np.uint64)) | \
                (np.isnan(a) & np.isnan(b))
            if not same.all():
                i = int(np.argwhere(~same)[0][0])
                return {'what': 'not bit-identical', 'prop': k, 'row': i,
                        'gid': int(A[k.split(':')[0] + ':gid'][i]),
                        'a': repr(a[i].tolist()), 'b': repr(b[i].tolist()),
                        'count': int((~same).sum())}
        else:
            if not (np.isfinite(a).all() and np.isfinite(b).all()):
                if not np.array_equal(np.isfinite(a), np.isfinite(b)):
                    return {'what': 'non-finite values differ', 'prop': k}
                continue
            sc = prop_scale(problem, k.split(':')[1], a, b)
            d = np.abs(a - b)
            m = float(d.max()) if d.size else 0.0
            if m > 1e-12 * sc:
                i = int(np.unravel_index(np.argmax(d), d.shape)[0])
                rows = int((d.reshape(d.shape[0], -1).max(axis=1)
                            > 1e-12 * sc).sum())
                if first is None:
                    first = {'what': 'differs beyond summation order',
                             'prop': k, 'row': i,
                             'gid': int(A[k.split(':')[0] + ':gid'][i]),
                             'a': repr(a[i].tolist()),
                             'b': repr(b[i].tolist()),
                             'maxdiff': m, 'scale': sc, 'tol': 1e-12 * sc,
                             'particles': '%d of %d' % (rows, d.shape[0]),
                             'all_props_beyond_tol': {}}
                first['all_props_beyond_tol'][k] = \
                    '%d particles, max %.3g' % (rows, m)
                continue
            if sc > 0 and (worst is None or m / sc > worst):
                worst = m / sc
    return first


def differs_in(c, base):
    w = []
    if c['nnps'] != base['nnps']:
        w.append('nnps=%s' % c['nnps'])
    if c['cache'] != base['cache']:
        w.append('cache')
    if (c['openmp'] is True) != (base['openmp'] is True):
        w.append('openmp')
    elif c['openmp'] and c['threads'] != base['threads']:
        w.append('threads')
    if (c['reorder'] or 0) != (base['reorder'] or 0):
        w.append('reorder')
    if c['sort'] != base['sort']:
        w.append('sort')
    if bool(c.get('fixed_h')) != bool(base.get('fixed_h')):
        w.append('fixed-h')
    if (c.get('knobs') or {}) != (base.get('knobs') or {}):
        w.append('knobs')
    if (c.get('env_threads') or 0) != (base.get('env_threads') or 0):
        w.append('env-threads')
    if omp_threads_of(c) > 1 and omp_threads_of(base) > 1 and \
            c.get('wait', 'passive') != base.get('wait', 'passive'):
        w.append('omp-wait')
    return w


HAS_GHOSTS = {'periodic': True}


def fail_key(c, base, kind):
    """class of failing input, for known_findings.json"""
    if c['nnps'] in ZORDER_FAMILY and MULTI_ARRAY[c['problem']] and \
            base['nnps'] not in ZORDER_FAMILY:
        # C01: z-order family returns no neighbours for a destination whose
        # cell holds no particle of the source array
        return 'C05:inherits-C01:%s' % c['nnps']
    if HAS_GHOSTS.get(c['problem']) and (c['reorder'] or 0) > 0 and \
            (base['reorder'] or 0) == 0:
        # C17: spatially_order_particles does not re-align, ghosts end up
        # among the real particles
        return 'C05:inherits-C17:periodic-reorder'
    w = differs_in(c, base)
    return 'C05:%s:%s:%s' % (kind, c['problem'], '+'.join(w) or 'same-options')


def _cap_failures(R, per_key=3):
    """hcommon keeps at most 200 failures: never let one (possibly known)
    class of failing input crowd out another one"""
    if getattr(R, '_capped', False):
        return
    R._capped = True
    R._per_key = {}
    orig = R.prop_fail

    def prop_fail(key, case, demand, observed):
        n = R._per_key.get(key, 0)
        R._per_key[key] = n + 1
        R.count('fail:' + key)
        if n < per_key:
            orig(key, case, demand, observed)
    R.prop_fail = prop_fail


def judge(results, R, seed):
    """the property's own predicate on the real runs"""
    _cap_failures(R)
    by = {}
    for r in results:
        by.setdefault(r['cfg']['problem'], []).append(r)
    for problem, rs in by.items():
        if problem in ('tie', 'treetie'):
            continue
        ok = [r for r in rs if r['rc'] == 0 and 'data' in r]
        for r in rs:
            if r not in ok:
                c = r['cfg']
                if 'get_spatially_ordered_indices called' in r['log']:
                    key = 'C05:reorder-not-implemented:%s' % c['nnps']
                elif c['nnps'] in ZORDER_FAMILY and MULTI_ARRAY[problem]:
                    key = 'C05:inherits-C01:%s' % c['nnps']
                else:
                    key = 'C05:run-failed:%s:%s' % (problem, c['nnps'])
                R.count('run-failed:%s:%s' % (problem, c['nnps']))
                R.prop_fail(key, {'cfg': c, 'seed': seed},
                            'Application.run completes and yields a state '
                            '(as it does with the other --nnps values)',
                            'exit %s%s: %s' % (
                                r['rc'], _signame(r['rc']), r['log'][-600:]))
        gidful = [r for r in ok if r['cfg']['assign_gid']]
        base = [r for r in gidful if r['cfg'] == dict(
            base_cfg(problem, r['cfg']['steps']))]
        if not base and problem in PAIRWISE and gidful:
            # the reference run itself failed (reported above): the others
            # still have to agree with each other
            R.note('no baseline run for %s: comparing with %s'
                   % (problem, cname(gidful[0]['cfg'])))
            base = [gidful[0]]
        if not base:
            R.note('no baseline run for %s' % problem)
            continue
        base = base[0]
        sorted_ref = None
        for r in gidful:
            c = r['cfg']
            if c['sort'] and c['nnps'] == BASE_NNPS.get(problem, 'll') and \
                    not c['reorder'] and not c.get('fixed_h') and \
                    not c.get('knobs') and \
                    not c['cache'] and c['openmp'] is False:
                sorted_ref = r
                break
        seen = {}
        off_base = set()
        for r in gidful:
            c = r['cfg']
            i = r['info']
            # the options reached the objects they configure
            want_cls = {'ll': 'LinkedListNNPS', 'box': 'BoxSortNNPS',
                        'sh': 'SpatialHashNNPS',
                        'esh': 'ExtendedSpatialHashNNPS',
                        'ci': 'CellIndexingNNPS', 'sfc': 'ZOrderNNPS',
                        'tree': 'OctreeNNPS',
                        'comp_tree': 'CompressedOctreeNNPS',
                        'strat_hash': 'StratifiedHashNNPS',
                        'strat_sfc': 'StratifiedSFCNNPS'}[c['nnps']]
            obs = (i['nnps_class'], i['use_cache'], i['sort_gids'],
                   i['reorder_freq'], i['use_openmp'],
                   i['ae_threads'] if c['openmp'] else 1, i['count'],
                   i.get('fixed_h', False), i['n_threads'])
            dem = (want_cls, c['cache'], c['sort'], c['reorder'] or 0,
                   c['openmp'] is True, c['threads'] if c['openmp'] else 1,
                   c['steps'], bool(c.get('fixed_h')), omp_threads_of(c))
            if obs != dem:
                R.prop_fail('C05:option-not-honoured:%s' % problem,
                            {'cfg': c, 'seed': seed}, repr(dem), repr(obs))
            # (1) equal to the baseline up to summation order
            if r is not base:
                d = compare(problem, base['data'], r['data'], exact=False)
                if d:
                    off_base.add(id(r))
                    R.prop_fail(fail_key(c, base['cfg'], 'differs'),
                                {'cfg': c, 'baseline': base['cfg'], 'seed': seed},
                                'same state per particle (by gid) up to '
                                'summation order (1e-12 relative)', d)
            # (2) sorted neighbours: bit-identical across nnps/cache/threads
            if c['sort']:
                if sorted_ref is None:
                    sorted_ref = r
                elif r is not sorted_ref:
                    d = compare(problem, sorted_ref['data'], r['data'],
                                exact=True)
                    if d:
                        R.prop_fail(
                            fail_key(c, sorted_ref['cfg'], 'sorted-not-bit-identical'),
                            {'cfg': c, 'baseline': sorted_ref['cfg'], 'seed': seed},
                            'bit-identical state with --sort-gids', d)
            # (3) identical options: bit-reproducible
            k = json.dumps(dict(c, rep=0), sort_keys=True)
            if k in seen:
                d = compare(problem, seen[k]['data'], r['data'], exact=True)
                R.count('repeat-pairs')
                if d:
                    R.prop_fail(fail_key(c, seen[k]['cfg'], 'not-reproducible'),
                                {'cfg': c, 'baseline': seen[k]['cfg'], 'seed': seed},
                                'bit-identical state for identical options', d)
            else:
                seen[k] = r
            R.count('problem:' + problem)
            R.count('nnps:' + c['nnps'])
            R.count('openmp:%s' % (('T%d' % c['threads']) if c['openmp'] else 'off'))
            if c['cache']:
                R.count('cache')
            if c['sort']:
                R.count('sort-gids')
            if c['reorder']:
                R.count('reorder:%d' % c['reorder'])
            if c.get('fixed_h'):
                R.count('fixed-h')
            for kk, vv in sorted((c.get('knobs') or {}).items()):
                R.count('knob:%s=%s' % (kk, vv))
            if omp_threads_of(c) > 1 and c.get('wait', 'passive') != 'passive':
                R.count('omp-wait:spin')
            if c.get('env_threads'):
                R.count('env-threads:T%d' % c['env_threads'])
            nontrivial = bool(differs_in(c, base['cfg'])) or c['rep'] > 0
            R.case(cname(c), nontrivial,
                   {'cfg': cname(c), 'info': i, 'wall': round(r['wall'], 1)})
        # (1b) with each other (those that differ from the reference run are
        # already reported, with the reference as the other side)
        if problem in PAIRWISE:
            rest = [r for r in gidful if r is not base and
                    id(r) not in off_base]
            for ai in range(len(rest)):
                for bi in range(ai + 1, len(rest)):
                    ra, rb = rest[ai], rest[bi]
                    if dict(ra['cfg'], rep=0) == dict(rb['cfg'], rep=0):
                        continue
                    R.count('pairwise:' + problem)
                    d = compare(problem, ra['data'], rb['data'], exact=False)
                    if d:
                        R.prop_fail(
                            fail_key(rb['cfg'], ra['cfg'], 'differs'),
                            {'cfg': rb['cfg'], 'baseline': ra['cfg'],
                             'seed': seed},
                            'same state per particle (by gid) up to '
                            'summation order (1e-12 relative)', d)
        # runs without assigned gids (all gid = UINT_MAX, the serial default):
        # neighbours are then sorted by local index
        nog = [r for r in ok if not r['cfg']['assign_gid']]
        ref = None
        for r in nog:
            # particles cannot be matched by gid; match by the (unchanged)
            # rest-frame label the harness can still see: none.  Only usable
            # without re-ordering (index == identity) - compare by index.
            if ref is None:
                ref = r
                continue
            d = compare(problem, _by_index(ref['data']), _by_index(r['data']),
                        exact=r['cfg']['sort'] and ref['cfg']['sort'])
            R.count('nogid-pairs')
            if d:
                R.prop_fail(fail_key(r['cfg'], ref['cfg'], 'nogid'),
                            {'cfg': r['cfg'], 'baseline': ref['cfg'], 'seed': seed},
                            'same state per particle (default gids, no '
                            're-ordering, matched by index)', d)

def _signame(rc):
    if isinstance(rc, int) and rc < 0 and rc != -999:
        import signal
        try:
            return ' (%s)' % signal.Signals(-rc).name
        except ValueError:
            return ' (signal %d)' % -rc
    return ''


def _by_index(D):
    out = {}
    for k, v in D.items():
        nm = k.split(':')[0]
        if k.endswith((':index', ':nall')):
            continue
        inv = np.argsort(D[nm + ':index'], kind='stable')
        out[k] = v[inv] if k.split(':')[1] not in ('nreal_attr',) else v
    return out


# ---------------------------------------------------------------------------
# model tie

def tie_lines(tr, rng, threads):
    """driver lines for one tie trace: the concatenated state (fluid rows then
    solid rows), per loop the ops, a random partition of destinations among
    `threads` threads and a random interleaving"""
    names = ['fluid', 'solid']
    off = {'fluid': 0, 'solid': len(tr['arrays']['fluid']['x'])}
    lines = []
    meta = []
    # the loops of one destination accumulate into the same row: feed the
    # model the rows as they were before the loop (acc of the first loop of a
    # destination is the initialize value 0) and chain the loops
    dests = {}
    for lp in tr['loops']:
        dests.setdefault(lp['dest'], []).append(lp)
    for dest, lps in dests.items():
        nd = len(lps[0]['nbrs'])
        T = max(1, threads)
        owner = [rng.randrange(T) for _ in range(nd)]
        parts = [[i for i in range(nd) if owner[i] == t] for t in range(T)]
        for p in parts:
            rng.shuffle(p)
        nops = sum(len(l) for lp in lps for l in lp['nbrs'])
        sched = [rng.randrange(T) for _ in range(rng.choice([0, nops // 2, nops, 2 * nops]))]
        st = []
        for nm in names:
            a = tr['arrays'][nm]
            st.append((a['x'], a['y'], a['m']))
        x = st[0][0] + st[1][0]
        y = st[0][1] + st[1][1]
        m = st[0][2] + st[1][2]
        loops = []
        for lp in lps:
            loops.append('|'.join(
                H.ilist([off[lp['src']] + j for j in l]) for l in lp['nbrs']))
        line = 'loop doff=%d nd=%d x=%s y=%s m=%s parts=%s sched=%s nb=%s' % (
            off[dest], nd, H.flist(x), H.flist(y), H.flist(m),
            '|'.join(H.ilist(p) for p in parts), H.ilist(sched),
            ';'.join(loops))
        lines.append(line)
        meta.append((dest, nd))
    return lines, meta


def run_tie(results, R, rng):
    lines, metas = [], []
    for r in results:
        if r['cfg']['problem'] != 'tie':
            continue
        if r['rc'] != 0 or 'info' not in r:
            R.disagree({'cfg': r['cfg']}, 'n/a', 'tie run failed: ' +
                       r['log'][-800:], 'tie-run')
            continue
        tr = r['info']['tie']
        ls, meta = tie_lines(tr, rng, r['cfg']['threads'] if r['cfg']['openmp'] else rng.choice([1, 2, 5]))
        for ln, (dest, nd) in zip(ls, meta):
            lines.append(ln)
            metas.append(('loop', r, dest, nd))
        if 'raw_fluid_solid' in tr:
            gs = tr['arrays']['solid']['gid']
            srt = [lp for lp in tr['loops']
                   if lp['dest'] == 'fluid' and lp['src'] == 'solid'][0]['nbrs']
            for i, raw in enumerate(tr['raw_fluid_solid']):
                if len(raw) < 2:
                    continue
                lines.append('sort ids=%s keys=%s' % (
                    H.ilist(raw), H.ilist(gs[j] for j in raw)))
                metas.append(('sort', r, i, srt[i]))
    if not lines:
        return
    out = H.run_model('C05', lines)
    if len(out) != len(lines):
        raise SystemExit('model driver answered %d lines for %d'
                         % (len(out), len(lines)))
    for o, mt in zip(out, metas):
        if mt[0] == 'loop':
            _, r, dest, nd = mt
            a = r['info']['tie']['arrays'][dest]
            impl = 'acc=%s cnt=%s' % (H.flist(a['acc'][:nd]),
                                      H.ilist(a['cnt'][:nd]))
            R.d['traces_validated_against_impl'] += 1
            R.count('tie-loop:' + r['cfg']['nnps'])
            if o != impl:
                R.disagree({'cfg': r['cfg'], 'dest': dest}, o[:300], impl[:300],
                           'fold over the neighbour list, %s' % cname(r['cfg']))
        else:
            _, r, i, srt = mt
            R.count('tie-sort')
            if o != H.ilist(srt):
                R.disagree({'cfg': r['cfg'], 'd_idx': i}, o, H.ilist(srt),
                           'sort of neighbours by gid')
        R.case('tie:' + cname(mt[1]['cfg']) + ':' + str(mt[2]), True, None)


def static_chunks(n, T):
    """OpenMP schedule(static) without a chunk size: contiguous blocks, the
    first n % T threads get one more iteration"""
    q, r = divmod(n, T)
    out, a = [], 0
    for t in range(T):
        b = a + q + (1 if t < r else 0)
        out.append(list(range(a, b)))
        a = b
    return out


def run_treetie(results, R, rng):
    """Model/TreeReduce.lean (parHmax at Float under the static chunks of T
    threads and a random interleaving) against the hmax the real parallel /
    serial build stored in the level-1 children, every build"""
    lines, metas = [], []
    for r in results:
        if r['cfg']['problem'] != 'treetie':
            continue
        if r['rc'] != 0 or 'info' not in r:
            R.disagree({'cfg': r['cfg']}, 'n/a', 'octree tie run failed: ' +
                       r['log'][-800:], 'treetie-run')
            continue
        for rec in r['info']['tree']:
            if rec['err']:
                R.disagree({'cfg': r['cfg'], 'cloud': rec['cloud'],
                            'cls': rec['cls'], 'T': rec['T']}, 'n/a',
                           rec['err'], 'treetie')
                continue
            n, T = rec['n'], rec['T']
            chunks = static_chunks(n, T)
            sched = [rng.randrange(T) for _ in range(rng.choice([0, n // 2, n]))]
            lines.append('hmax oct=%s h=%s chunks=%s sched=%s' % (
                H.ilist(rec['oct']), H.flist(rec['h']),
                '|'.join(H.ilist(c) for c in chunks), H.ilist(sched)))
            metas.append((r, rec))
    if not lines:
        return
    out = H.run_model('C05', lines)
    if len(out) != len(lines):
        raise SystemExit('model driver answered %d lines for %d'
                         % (len(out), len(lines)))
    for o, (r, rec) in zip(out, metas):
        tag = '%s/%s/T%d' % (rec['cloud'], rec['cls'], rec['T'])
        R.count('tie-tree:%s:T%d' % (rec['cls'], rec['T']))
        for tab, cnt in sorted(rec['tables'].items()):
            R.d['traces_validated_against_impl'] += cnt
            if tab != o:
                R.disagree({'cfg': r['cfg'], 'case': tag,
                            'builds_with_this_table': cnt,
                            'builds': sum(rec['tables'].values())},
                           o, tab, 'hmax of the level-1 children, ' + tag)
        R.case('treetie:' + tag + ':leaf%s' % (
            (r['cfg'].get('knobs') or {}).get('leaf_max', 10)), True, None)


def treetie_cfgs(rng):
    return [cfg('treetie', 'tree', env_threads=16, wait='spin', steps=0,
                knobs={'leaf_max': rng.choice([4, 10, 32])})]


# ---------------------------------------------------------------------------
# configuration sets

def quick_cfgs(rng):
    p = 'wall'
    C = [cfg(p),                                            # baseline
         cfg(p, rep=1),                                     # reproducible
         cfg(p, 'tree', openmp=True, threads=4),
         cfg(p, 'tree', openmp=True, threads=4, rep=1),
         cfg(p, 'll', sort=True)]                           # sorted reference
    # every --nnps value once sorted and once unsorted, the other options
    # drawn from the seed
    for nn in NNPS_ALL:
        for srt in (True, False):
            omp = rng.random() < 0.6
            ro = rng.choice([None, None, 1, 2, 3])
            if nn in NO_REORDER and rng.random() < 0.8:
                ro = None       # (known finding: no re-ordering for these)
            C.append(cfg(p, nn, cache=rng.random() < 0.5, openmp=omp,
                         threads=rng.choice([2, 3, 5, 8, 16]) if omp else 1,
                         reorder=ro, sort=srt, fixed_h=rng.random() < 0.25,
                         knobs=rand_knobs(rng, nn, 0.4)))
    C.append(cfg(p, 'ci', openmp=True, threads=3, cache=True, reorder=2))
    C.append(cfg(p, 'comp_tree', sort=True, cache=True, openmp=True, threads=16))
    C.append(cfg(p, 'sh', reorder=1))   # known finding, reproduced every run
    T = [cfg('tie', 'll', steps=1),
         cfg('tie', 'box', cache=True, openmp=True, threads=4, steps=1),
         cfg('tie', 'tree', sort=True, openmp=True, threads=3, steps=1),
         cfg('tie', 'sh', sort=True, cache=True, steps=1),
         cfg('tie', 'll', sort=True, cache=True, reorder=1, steps=1),
         cfg('tie', 'ci', openmp=True, threads=16, reorder=1, steps=1)]
    return dedup(C + T + gtvf_cfgs(rng, 4) + rarefy_cfgs(rng) +
                 multires_cfgs(rng) + treetie_cfgs(rng))


REORDERABLE = [nn for nn in NNPS_ALL if nn not in NO_REORDER]


def gtvf_cfgs(rng, nrandom):
    """multi-step history with re-orders INSIDE the time loop (freq < number
    of steps), on the integrator that re-uses the NNPS across the step
    boundary; compared by gid with the run that never re-orders"""
    p, S = 'gtvf', GTVF_STEPS
    C = [cfg(p, steps=S),                                   # baseline
         cfg(p, 'll', sort=True, steps=S),                  # sorted reference
         cfg(p, 'll', reorder=3, steps=S),                  # re-order only
         cfg(p, 'tree', reorder=4, steps=S)]
    for k in range(nrandom):
        omp = k % 2 == 1
        nn = rng.choice(REORDERABLE)
        C.append(cfg(p, nn, cache=rng.random() < 0.5,
                     openmp=omp, threads=rng.choice([2, 3, 5, 8]) if omp else 1,
                     reorder=rng.randint(2, GTVF_STEPS // 2),
                     sort=rng.random() < 0.5, steps=S,
                     fixed_h=rng.random() < 0.3,
                     knobs=rand_knobs(rng, nn, 0.4)))
    return C


def _rand_opts(rng, p, nn, S, sort=None):
    omp = rng.random() < 0.5
    ro = rng.choice([None, None, 2, 3]) if nn in REORDERABLE else None
    return cfg(p, nn, cache=rng.random() < 0.5, openmp=omp,
               threads=rng.choice([2, 3, 5, 8]) if omp else 1, reorder=ro,
               sort=(rng.random() < 0.5) if sort is None else sort, steps=S,
               knobs=rand_knobs(rng, nn, 0.4))


def rarefy_cfgs(rng, every=False):
    """adaptive h in update_nnps=True groups of a non-periodic problem:
    binning algorithms (cell size = radius_scale*max h) against the octrees
    (no cell size) and against each other.  quick: ll, tree, comp_tree, one
    more binning algorithm and one stratified one; `every`: all of them"""
    p, S = 'rarefy', RAREFY_STEPS
    C = [base_cfg(p, S),                                    # tree, plain
         cfg(p, 'tree', sort=True, steps=S),                # sorted reference
         cfg(p, 'll', steps=S),
         cfg(p, 'll', sort=True, steps=S)]
    if every:
        for nn in NNPS_ALL:
            C.append(cfg(p, nn, steps=S))
            C.append(cfg(p, nn, sort=True, steps=S))
            C.append(_rand_opts(rng, p, nn, S))
            C.append(_rand_opts(rng, p, nn, S))
    else:
        C.append(_rand_opts(rng, p, 'comp_tree', S))
        C.append(_rand_opts(rng, p, rng.choice(GRID_BASED[1:]), S))
        C.append(_rand_opts(rng, p, rng.choice(GRID_BASED), S))
        C.append(_rand_opts(rng, p, rng.choice(STRATIFIED), S, sort=True))
    return C


MR_THREADS = [3, 4, 5, 6, 8, 12, 16]


def multires_cfgs(rng, every=False):
    """h constant in time but not uniform in space (two arrays with different
    h, isolated large-h particles):
      * 'multires': every --nnps value with --fixed-h and with non-default
        tuning knobs (the other options drawn from the seed), against plain
        --nnps ll;
      * 'multires_big' (48 rebuilds per run): the structures that are built /
        filled inside OpenMP regions of the library (octrees: always, whatever
        --openmp says; neighbour cache) under >= 3 threads whose chunks
        overlap in time ('spin'), sorted, each configuration twice:
        bit-identical to the serial sorted run and to its own repetition"""
    p, S = 'multires', MR_STEPS['multires']
    C = [cfg(p, steps=S),                                   # baseline
         cfg(p, 'll', sort=True, steps=S),                  # sorted reference
         cfg(p, 'll', fixed_h=True, steps=S),               # the option alone
         cfg(p, 'll', sort=True, fixed_h=True, cache=True, steps=S)]
    for nn in NNPS_ALL:
        a = _rand_opts(rng, p, nn, S)
        a['fixed_h'] = True
        b = _rand_opts(rng, p, nn, S, sort=True)
        b['knobs'] = rand_knobs(rng, nn, 1.0)
        C += [a, b]
        for _ in range(3 if every else 0):
            c = _rand_opts(rng, p, nn, S)
            c['fixed_h'] = rng.random() < 0.5
            c['knobs'] = rand_knobs(rng, nn)
            C.append(c)
    p, S = 'multires_big', MR_STEPS['multires_big']
    C += [cfg(p, steps=S), cfg(p, 'll', sort=True, steps=S),
          cfg(p, 'tree', sort=True, steps=S),
          cfg(p, 'll', sort=True, fixed_h=True, steps=S)]
    for nn in TREE_BASED:
        for T in (MR_THREADS if every else rng.sample(MR_THREADS, 3)):
            c = cfg(p, nn, openmp=True, threads=T, sort=True, steps=S,
                    wait='spin', cache=rng.random() < 0.3,
                    knobs=rand_knobs(rng, nn, 0.3))
            C += [c, dict(c, rep=1)]
        # threaded build under a serial evaluation
        T = rng.choice(MR_THREADS)
        c = cfg(p, nn, openmp=False, env_threads=T, sort=True, steps=S,
                wait='spin')
        C += [c, dict(c, rep=1)]
    others = [nn for nn in GRID_BASED + STRATIFIED if nn != 'strat_hash']
    for nn in (others if every else rng.sample(others, 2)):
        c = cfg(p, nn, cache=True, openmp=True, threads=rng.choice(MR_THREADS),
                sort=True, steps=S, wait='spin',
                fixed_h=rng.random() < 0.5)
        C += [c, dict(c, rep=1)]
    return C


def dedup(C):
    seen, out = set(), []
    for c in C:
        k = json.dumps(c, sort_keys=True)
        if k not in seen:
            seen.add(k)
            out.append(c)
    return out


def thorough_cfgs(rng):
    C = []
    for p in PROBLEMS:
        C.append(cfg(p))
        C.append(cfg(p, rep=1))
        for nn in NNPS_ALL:
            for cache in (False, True):
                for omp, T in ((False, 1), (True, 1), (True, 3), (True, 16)):
                    for ro in (None, 1, 2):
                        for srt in (False, True):
                            C.append(cfg(p, nn, cache, omp, T, ro, srt))
        # thread counts 1..16 on one algorithm, repeated for reproducibility
        for T in range(1, 17):
            C.append(cfg(p, 'll', openmp=True, threads=T, cache=bool(T % 2)))
            C.append(cfg(p, 'll', openmp=True, threads=T, cache=bool(T % 2), rep=1))
        for _ in range(12):
            c = cfg(p, rng.choice(NNPS_ALL), rng.random() < 0.5, True,
                    rng.randint(2, 16), rng.choice([None, 1, 2, 3]),
                    rng.random() < 0.5)
            C += [c, dict(c, rep=1)]
        # --fixed-h and the tuning knobs of every algorithm
        for nn in NNPS_ALL:
            for k in range(3):
                omp = rng.random() < 0.5
                C.append(cfg(p, nn, rng.random() < 0.5, omp,
                             rng.randint(2, 16) if omp else 1,
                             rng.choice([None, None, 2]), rng.random() < 0.5,
                             fixed_h=(k == 0) or rng.random() < 0.3,
                             knobs=rand_knobs(rng, nn, 0.0 if k == 0 else 0.8)))
        # default gids (UINT_MAX): sorted by local index
        for nn in ('ll', 'box', 'tree', 'sh'):
            C.append(cfg(p, nn, sort=True, assign_gid=False))
            C.append(cfg(p, nn, sort=False, assign_gid=False, cache=True,
                         openmp=True, threads=4))
    for nn in REORDERABLE:
        for ro in (1, 2, 5):
            for srt in (False, True):
                omp = rng.random() < 0.5
                C.append(cfg('gtvf', nn, cache=rng.random() < 0.5, openmp=omp,
                             threads=rng.randint(2, 16) if omp else 1,
                             reorder=ro, sort=srt, steps=GTVF_STEPS))
    C += gtvf_cfgs(rng, 12)
    C += rarefy_cfgs(rng, every=True)
    C += multires_cfgs(rng, every=True)
    T = []
    for nn in NNPS_ALL:
        if nn in ZORDER_FAMILY:
            continue
        for k in range(3):
            omp = k > 0
            T.append(cfg('tie', nn, cache=rng.random() < 0.5, openmp=omp,
                         threads=rng.choice([2, 3, 7, 16]) if omp else 1,
                         reorder=None if nn in NO_REORDER else rng.choice([None, 1]),
                         sort=rng.random() < 0.5, steps=1))
    for _ in range(3):
        T += treetie_cfgs(rng)
    return dedup(C + T)


def search_cfgs(rng, aimed=()):
    """wider failing-input search (used when an obligation broke or model and
    code disagree): all problems, random configurations, plus - aimed at what
    changed - the options of every tie configuration that disagreed"""
    C = []
    for t in aimed:
        for p in PROBLEMS:
            C.append(cfg(p, t['nnps'], t['cache'], t['openmp'], t['threads'],
                         t['reorder'], t['sort']))
            C.append(cfg(p, t['nnps'], sort=t['sort']))
    for p in PROBLEMS:
        C.append(cfg(p))
        C.append(cfg(p, 'll', sort=True))
        for _ in range(14):
            omp = rng.random() < 0.6
            C.append(cfg(p, rng.choice(NNPS_ALL), rng.random() < 0.5, omp,
                         rng.randint(2, 16) if omp else 1,
                         rng.choice([None, 1, 2]), rng.random() < 0.5))
    # re-orders inside a longer history, integrator that re-uses the NNPS
    # across the step boundary
    for t in aimed:
        if t['reorder'] and t['nnps'] in REORDERABLE:
            for ro in (2, 3):
                C.append(cfg('gtvf', t['nnps'], t['cache'], t['openmp'],
                             t['threads'], ro, t['sort'], steps=GTVF_STEPS))
    C += gtvf_cfgs(rng, 8)
    C += rarefy_cfgs(rng, every=True)
    C += multires_cfgs(rng)
    return dedup(C)


def replay(a):
    rp = json.load(open(a.replay))
    case = rp['case']
    seed = case.get('seed', 0)
    R = H.Result('replay')
    case['cfg'] = norm_cfg(case['cfg'])
    if 'baseline' in case:
        case['baseline'] = norm_cfg(case['baseline'])
        cs = [case['baseline'], case['cfg']]
    else:
        cs = [base_cfg(case['cfg']['problem'], case['cfg']['steps']),
              case['cfg']]
    # judge() needs the plain baseline of the problem as well
    b0 = base_cfg(cs[1]['problem'], cs[1]['steps'])
    cs = dedup([b0] + cs)
    if omp_threads_of(cs[-1]) > 1:
        # the outcome may depend on the interleaving: a few more attempts
        cs += [dict(cs[-1], rep=k) for k in (11, 12, 13)]
        cs = dedup(cs)
    res = run_all(cs, seed, a.work)
    judge(res, R, seed)
    print(json.dumps(R.d['property_failures'], indent=1, default=str))
    sys.exit(1 if R.d['property_failures'] else 0)


def main():
    if len(sys.argv) >= 3 and sys.argv[1] == '--worker':
        worker(sys.argv[2])
        return
    a = H.args()
    H.assert_scratch_import()
    if a.replay:
        replay(a)
    R = H.Result(
        'cases = configurations (problem x nnps x cache x openmp x threads x '
        'reorder-freq x sort-gids x repeat) run through Application.run in '
        'their own process and compared with the baseline configuration of '
        'the same problem by gid; distinct = distinct configuration; '
        'non-trivial = differs from the baseline in at least one option or is '
        'a repeat; tie cases = one per destination loop of the fold equation')
    rng = random.Random(a.seed * 7919 + 5)
    cfgs = quick_cfgs(rng) if a.tier == 'quick' else thorough_cfgs(rng)
    if os.environ.get('C05_ONLY'):
        # debugging aid (never set by ./check): restrict to some problems
        only = os.environ['C05_ONLY'].split(',')
        cfgs = [c for c in cfgs if c['problem'] in only]
        R.note('C05_ONLY=%s: %d configurations' % (only, len(cfgs)))
    # is OpenMP really there?
    try:
        import pysph.base.omp_threads as _o  # noqa: F401
        from compyle.config import get_config
        R.note('OpenMP available: pysph.base.omp_threads built; compyle '
               'default use_openmp=%s; cores=%s' % (get_config().use_openmp,
                                                    os.cpu_count()))
    except ImportError as e:
        R.note('OpenMP NOT available in this build (%s): --openmp runs are '
               'serial' % e)
    t0 = time.time()
    res = run_all(cfgs, a.seed, a.work, par=8 if a.tier == 'quick' else 10)
    R.note('%d runs in %.0fs' % (len(res), time.time() - t0))
    R.note('slowest runs: ' + ', '.join(
        '%s %.0fs' % (cname(r['cfg']), r['wall']) for r in
        sorted(res, key=lambda r: -r['wall'])[:6]))
    judge(res, R, a.seed)
    run_tie(res, R, rng)
    run_treetie(res, R, rng)
    if a.broken or R.d['disagreements']:
        rng2 = random.Random(a.seed + 12345)
        aimed = [d['case']['cfg'] for d in R.d['disagreements']
                 if isinstance(d.get('case'), dict) and 'cfg' in d['case']]
        extra = search_cfgs(rng2, dedup([dict(c, problem='tie') for c in aimed]))
        res2 = run_all(extra, a.seed + 1, a.work, base_idx=len(cfgs))
        n0 = len(R.d['property_failures'])
        judge(res2, R, a.seed + 1)
        R.d['search'] = {'extra_configurations': len(extra),
                         'found': len(R.d['property_failures']) - n0}
    R.write(a.out)


if __name__ == '__main__':
    main()
