"""C14 correspondence + property oracle: interpolation of particle data.

impl : pysph.tools.interpolator.Interpolator (set_interpolation_points,
       set_domain, update_particle_arrays, update, interpolate) and
       pysph.tools.sph_evaluator.SPHEvaluator (update_particle_arrays, update,
       evaluate) with the interpolation equations, compiled at run time
       (scratch build of /repo; LinkedListNNPS, the default of both classes)
model: lean PysphVerif.Model.Interp at Float.  The driver gets, per destination
       point, the neighbour records in the order the evaluator visits them, with
       the kernel values W / grad W computed by the harness from the pure-Python
       kernel classes (the oracle for the kernel; C08 is about the kernels) and
       answers the defining folds.  Comparison is BIT-EXACT.
       Neighbour membership is not taken from the implementation: every source
       particle the implementation's neighbour structure did NOT list but whose
       kernel value is non-zero is appended to the model's list (the others
       contribute `+ 0.0`, which leaves an IEEE accumulator that started at +0.0
       unchanged), so a dropped neighbour / dropped source array shows up as a
       disagreement.  Only the visiting ORDER is the implementation's (L2 detail).
       The binding state machine (which objects interpolate fills / evaluates /
       binned) is compared after every operation of a history.
       The staging loop of `interpolate` (requested property -> `temp_prop` of
       every source array, zeros for an array that lacks the property) is tied
       too: per interpolate call and source array the model gets the array's
       property table and the contents `temp_prop` had BEFORE the call (left
       there by an earlier interpolate of another property, or brought along by
       an array handed to the constructor / update_particle_arrays) and its
       answer is compared bit for bit with `temp_prop` after the call.
       The handling of explicit target points is tied as well: the coordinate
       arrays are handed over as N-d numpy arrays in various memory layouts (C,
       Fortran, axis-permuted, strided slices, negative strides, x/y/z laid
       out differently); the model's `ravel` of (shape, strides, offset, memory)
       is compared bit for bit with the coordinates of the target particles in
       particle order, and the model's un-flattening (`result.shape = self.shape`,
       `squeeze`) of the per-particle values with the returned array.
       The coordinate arrays come in every dtype a caller may hold them in
       (float64, float32, int64, int32 numpy arrays, nested Python lists of
       floats or ints, x/y/z of different dtypes; integer lattices live in a box
       [0, S]^d, S = 4 or 6, which half the histories use instead of the unit
       box): the model converts the raveled array to double (`castRavel`) and
       computes the smoothing length the target particles get
       (`createTargetH`: `_get_max_h_in_arrays`, `hmax*np.ones_like(xr)` with
       the ones of the dtype of x); both are compared bit for bit with the
       target particle array after every (re)creation of the points.
       Constants of particle arrays are bound too: every source array carries a
       constant `rho0` (the SPHEvaluator's destination array a constant `gain`)
       with a value of its own; configurations `sphc` run user-supplied
       equations that READ them (`Interpolator(equations=[RefDensitySum])`,
       `SPHEvaluator` with `RefDensitySumGain`); the binding observation lists,
       per array name, the object ALL of whose property carrays the generated
       ParticleArrayWrapper holds and the object all of whose CONSTANT carrays it
       holds (model: `evalObjs`, `evalConsts`).
oracle: the property statement evaluated with brute-force sums over ALL source
       particles (and their periodic images, computed here, not by the domain
       manager), independent of model, neighbour structure, ghost machinery and
       of `temp_prop`: the source values are those of the REQUESTED property read
       from the source arrays before the call (0.0 for every particle of an array
       that does not have the property, as the code documents);
       entry idx of the returned array is judged at the point (x[idx], y[idx],
       z[idx]) of the arrays the CALLER passed (logical indexing), not at
       wherever the implementation put target particle number idx; with an
       automatic grid (no points given / set_domain) at the point the public
       ip.x[idx], ip.y[idx], ip.z[idx] name; about half the Gaussian-kernel
       Interpolators are built with the constructor's default kernel=None; the
       smoothing length of the target points is the largest h of the real source
       particles at the time the points were set, computed here from the
       history (a double, whatever the dtype of the coordinates), NOT the h
       the implementation gave its target particles; for `sphc` the density is
       the constant rho0 the history gave the array CURRENTLY bound and the
       factor the constant of the destination array currently bound;
       tolerance 1e-9 relative to sum |terms| (the statement's "value defined by
       its method" up to rounding): Shepard = weighted mean, inside [min,max] of
       contributing values, constant reproduced, 0.0 where nothing is in range;
       sph/splash/splash_norm = documented sums; order1 reproduces a linear
       field and its gradient where the moment matrix is well conditioned, and
       for any property returns the solution of the documented moment system;
       the volumes m/rho of that system use the summation density computed HERE
       by brute force over all source particles (Remote-tagged ones included;
       periodic images with a periodic domain) -- order1 computes the density
       itself, so about half the order1 histories build their arrays without
       rho (0.0), and nothing is read back from the rho the implementation left.
       With a periodic domain (the ghosts' densities are not those of their
       originals) only what holds for any finite positive volumes is demanded:
       finite values and reproduction of a constant with zero gradient.
shared: the source arrays are state SHARED between calls, with the caller and
       with every other evaluator built over them.  Histories therefore (a) change
       masses, densities, values of the interpolated properties and constants IN
       PLACE WITHOUT update() (`touch`: positions and h stay, so the neighbour
       lists stay valid; model `Op.touch`, the binding state and its `current`
       flag must not change) and interpolate again on the same object, and (b)
       build a SECOND Interpolator / SPHEvaluator over the same arrays (`peer`:
       points of its own; for order1 another kernel, so that the summation
       density it leaves in the shared `rho` is not the first one's; it also
       overwrites every `temp_prop`), interleave its calls with the first one's,
       and judge BOTH with the tie and the oracle.  Every interpolate() must give
       the defining sums of the data as they are at the call.  Per order1 call
       one `O1` line ties the whole compute (model `order1Compute`: group 1
       overwrites rho of every source particle, groups 2 and 3 read it) starting
       from the rho the arrays held BEFORE the call.  A corpus history per
       configuration does all of it (round-4 seed B: order1 re-used the moment
       matrix of an earlier call).  No peer with a periodic domain (two domain
       managers would own the ghosts of the same arrays); there `touch` is
       followed by update() (the ghosts are copies).
jobs:  one process per configuration; a soft time budget per job (no new history
       is started after it, reported) and a hard one (job killed = machinery
       error): the check cannot hang and a loaded machine shortens the random
       part instead of stretching the run.
"""
import json
import math
import multiprocessing as mp
import os
import random
import sys
import time
import traceback

import numpy as np

import hcommon as H

H.assert_scratch_import()

TOL12 = 1e-12
PARENT = os.getpid()            # workers are forked: they see the parent's pid here
NAMES = ['s0', 's1', 's2']
REL = 1e-9


# --------------------------------------------------------------------------
# configurations: each is one run-time compilation (method x #arrays x kernel)

def configs(tier):
    c = []

    def add(method, narr, dim, kernel, periodic=False, api='interp'):
        c.append({'method': method, 'narr': narr, 'dim': dim, 'kernel': kernel,
                  'periodic': periodic, 'api': api})
    add('shepard', 1, 1, 'CubicSpline')
    add('shepard', 2, 2, 'Gaussian', periodic=True)
    add('shepard', 3, 3, 'WendlandQuintic')
    add('sph', 2, 2, 'CubicSpline')
    add('sph', 1, 3, 'Gaussian')
    add('splash', 2, 2, 'QuinticSpline', periodic=True)
    add('splash', 1, 1, 'Gaussian')
    add('splash_norm', 3, 2, 'CubicSpline')
    add('splash_norm', 1, 3, 'WendlandQuintic')
    add('order1', 1, 1, 'CubicSpline')
    add('order1', 2, 2, 'Gaussian')
    add('order1', 1, 3, 'CubicSpline')
    # periodic ghosts are sources of order1 too (their density is computed by
    # the first group, real=False)
    add('order1', 1, 2, 'CubicSpline', periodic=True)
    add('shepard', 2, 2, 'CubicSpline', api='sphe')
    # user-supplied equations that read CONSTANTS of the source arrays (and, with
    # SPHEvaluator, of the destination array): Interpolator(equations=...) and
    # SPHEvaluator with the probe equations below
    add('sphc', 2, 2, 'CubicSpline')
    add('sphc', 1, 2, 'Gaussian', api='sphe')
    if tier != 'quick':
        add('sph', 1, 2, 'Gaussian', api='sphe')
        add('sphc', 2, 2, 'Gaussian', periodic=True)
        add('shepard', 2, 2, 'SuperGaussian')
        add('shepard', 1, 3, 'WendlandQuinticC4', periodic=True)
        add('shepard', 3, 1, 'QuinticSpline', periodic=True)
        add('sph', 3, 2, 'WendlandQuinticC6', periodic=True)
        add('sph', 2, 1, 'WendlandQuinticC2_1D')
        add('splash', 3, 3, 'CubicSpline')
        add('splash_norm', 2, 2, 'Gaussian', periodic=True)
        add('splash_norm', 2, 1, 'QuinticSpline')
        add('order1', 2, 2, 'WendlandQuintic', periodic=True)
        add('order1', 3, 2, 'QuinticSpline')
        add('order1', 2, 3, 'Gaussian')
        add('order1', 2, 1, 'Gaussian')
        add('splash_norm', 1, 2, 'WendlandQuintic', api='sphe')
        add('order1', 1, 2, 'CubicSpline', api='sphe')
    return c


def reset_group_names(cfg, peer=False):
    """pysph numbers unnamed Groups with a process-wide counter and the number
    ends up in the generated source: without this every Interpolator of a run
    is a new ~10 s compilation.  Restart the numbering before each evaluator is
    created, from a base of its own per configuration (two configurations that
    differ only in `dim` would otherwise generate the SAME module in two
    processes at the same time; compyle's build lock gives up after 90 s)."""
    import itertools
    import pysph.sph.equation as EQ
    allc = configs('thorough')
    base = 100 * (1 + allc.index(cfg)) if cfg in allc else 0
    if peer:
        # the second evaluator over the same arrays (see `peer_cfg`): numbering of
        # its own, so that the peers of two configurations that differ only in
        # `dim` are not the same module either
        base += 50
    EQ.group_counter = itertools.count(base)


PEER_KERNEL = {'CubicSpline': 'QuinticSpline', 'Gaussian': 'CubicSpline',
               'QuinticSpline': 'Gaussian', 'WendlandQuintic': 'CubicSpline'}


def peer_cfg(cfg):
    """configuration of the SECOND Interpolator / SPHEvaluator a history builds
    over the same source arrays.  For order1 (which WRITES the shared `rho` of the
    source arrays: summation density with its own kernel) it has another kernel,
    so that what it leaves in the arrays differs from what the first one computes
    (one more run-time compilation per order1 configuration); for the other
    methods the same configuration (same generated module, no compilation) at
    points of its own.  None: no peer (periodic domains: two domain managers
    would both own the ghosts of the shared arrays)."""
    if cfg['periodic']:
        return None
    pc = dict(cfg)
    if cfg['method'] == 'order1' and cfg['api'] == 'interp':
        pc['kernel'] = PEER_KERNEL.get(cfg['kernel'], 'CubicSpline')
    return pc


# The probe equations live in a module of their own, written into the run's work
# directory: pysph's code generator fetches the TEXT of an equation class with
# inspect.getsource, i.e. from the file on disk by line number -- were they
# defined in this file, an edit of harness/c14.py while a run is in progress
# would paste unrelated harness lines into the generated .pyx.
PROBE_SRC = '''"""probe equations of harness/c14.py (generated, do not edit)"""
from pysph.sph.equation import Equation


class RefDensitySum(Equation):
    """probe equation for Interpolator(equations=[...]): the SPH sum with the
    reference density rho0, a CONSTANT of the source array, as density"""

    def initialize(self, d_idx, d_prop):
        d_prop[d_idx] = 0.0

    def loop(self, d_idx, s_idx, s_m, s_rho0, s_temp_prop, d_prop, WIJ):
        d_prop[d_idx] += s_m[s_idx]/s_rho0[0]*WIJ*s_temp_prop[s_idx]


class RefDensitySumGain(Equation):
    """probe equation for SPHEvaluator: the same sum times `gain`, a constant of
    the DESTINATION array"""

    def initialize(self, d_idx, d_prop):
        d_prop[d_idx] = 0.0

    def loop(self, d_idx, s_idx, s_m, s_rho0, s_temp_prop, d_prop, d_gain, WIJ):
        d_prop[d_idx] += d_gain[0]*s_m[s_idx]/s_rho0[0]*WIJ*s_temp_prop[s_idx]
'''

RefDensitySum = RefDensitySumGain = None


def load_probes(work):
    """write the probe equations to <work>/c14_probes_<pid>.py and import them
    (before the workers are forked: they inherit the module)"""
    global RefDensitySum, RefDensitySumGain
    import importlib.util
    os.makedirs(work, exist_ok=True)
    name = 'c14_probes_%d' % os.getpid()
    path = os.path.join(work, name + '.py')
    with open(path, 'w') as fh:
        fh.write(PROBE_SRC)
    spec = importlib.util.spec_from_file_location(name, path)
    mod = importlib.util.module_from_spec(spec)
    sys.modules[name] = mod
    spec.loader.exec_module(mod)
    import inspect
    if inspect.getsource(mod.RefDensitySum).count('s_rho0[0]') != 1:
        raise SystemExit('harness: cannot read back the text of the probe equations')
    RefDensitySum, RefDensitySumGain = mod.RefDensitySum, mod.RefDensitySumGain


def kernel_obj(name, dim):
    from pysph.base import kernels
    return getattr(kernels, name)(dim=dim)


# --------------------------------------------------------------------------
# case generation (explicit data, so that a case is its own replay)

def r6(v):
    return float(v)


def gen_array(rng, cfg, name, n, h0, region, lin, const, has, tagged, prefill=0.0,
              norho=False):
    dim = cfg['dim']
    lo, hi = region
    pos = [[0.0] * n for _ in range(3)]
    for k in range(dim):
        a, b = (lo, hi) if k == 0 else (0.0, 1.0)
        pos[k] = [rng.uniform(a, b) for _ in range(n)]
    style = rng.choice(['var', 'var', 'var', 'equal'])
    if style == 'equal':
        h = [h0] * n
    else:
        h = [h0 * rng.uniform(0.7, 1.4) for _ in range(n)]
    vol = 1.0 / max(n, 1)
    m = [vol * rng.uniform(0.5, 1.5) for _ in range(n)]
    rho = [rng.uniform(0.5, 2.0) for _ in range(n)]
    props = {
        'p': [rng.uniform(-2.0, 3.0) for _ in range(n)],
        'c': [const] * n,
        'lin': [lin[0] + lin[1] * pos[0][i] + lin[2] * pos[1][i] +
                lin[3] * pos[2][i] for i in range(n)],
    }
    if has['q']:
        props['q'] = [rng.uniform(0.0, 1.0) for _ in range(n)]
    if has['r']:
        props['r'] = [rng.uniform(-40.0, -30.0) for _ in range(n)]
    tag = [0] * n
    if tagged:
        for i in range(n):
            if rng.random() < 0.25:
                tag[i] = 1
    if norho:
        # order1 computes the density itself (SummationDensity, first group):
        # an array built WITHOUT rho (get_particle_array leaves it 0.0) is
        # valid input
        rho = None
    sp = {'name': name, 'x': pos[0], 'y': pos[1], 'z': pos[2], 'h': h,
          'm': m, 'rho': rho, 'props': props, 'tag': tag,
          # constants of the array (pa.add_constant): every array of a history
          # carries its own value
          'consts': {'rho0': rng.uniform(0.5, 2.0)}}
    if rng.random() < prefill:
        # the array arrives with a used `temp_prop` (an earlier Interpolator
        # worked on it): far from every property's range, never zero
        sp['temp0'] = [rng.uniform(50.0, 90.0) for _ in range(n)]
    return sp


def gen_psets(rng, narr):
    """which arrays own the optional properties 'q' and 'r'.  With two or more
    arrays each of them is in at least one array and missing from at least one
    (the UNION of the property names over the arrays is what the generated
    source depends on: it stays the same, so no extra compilation)."""
    if narr == 1:
        return {'q': [True], 'r': [True]}
    out = {}
    for nm in ('q', 'r'):
        while True:
            v = [rng.random() < 0.5 for _ in range(narr)]
            if any(v) and not all(v):
                break
        out[nm] = v
    return out


def gen_arrays(rng, cfg, lin, const, psets, prefill=0.0, small=False,
               force_tagged=None, force_norho=None):
    dim, narr = cfg['dim'], cfg['narr']
    ntot = {1: rng.randint(8, 30), 2: rng.randint(30, 80),
            3: rng.randint(50, 110)}[dim]
    if cfg['method'] == 'order1':
        ntot = {1: rng.randint(8, 24), 2: rng.randint(25, 50),
                3: rng.randint(40, 70)}[dim]
    if cfg['periodic']:
        # support radius must stay below half the box
        h0 = rng.uniform(0.05, 0.085)
        ntot = {1: rng.randint(15, 40), 2: rng.randint(60, 140),
                3: rng.randint(150, 260)}[dim]
        if cfg['method'] == 'order1':
            # the summation density of every ghost is tied too: keep it small,
            # but with h about the particle spacing (2-D: ~0.1), so that the
            # moment matrices next to the periodic boundaries are well
            # conditioned and the order1 oracle has something to say there
            ntot = {1: rng.randint(15, 30), 2: rng.randint(90, 130),
                    3: rng.randint(100, 140)}[dim]
            h0 = rng.uniform(0.085, 0.1) if dim == 2 else rng.uniform(0.07, 0.085)
    else:
        h0 = rng.uniform(0.9, 1.6) * ntot ** (-1.0 / dim)
        if dim == 3:
            h0 = min(h0, 0.28)
        if small:
            # minimised corpus cases: a handful of particles, all in range
            ntot = 5 * narr
            h0 = 0.45
    layout = rng.choice(['mixed', 'mixed', 'halves'])
    cuts = sorted(rng.uniform(0.25, 0.75) for _ in range(narr - 1))
    edges = [0.0] + cuts + [1.0]
    sizes = [max(3, ntot // narr + rng.randint(-2, 2)) for _ in range(narr)]
    # which arrays carry 'q' / 'r' is fixed per history (`psets`): rebinding
    # demands arrays with the same properties as before
    tagged = (not cfg['periodic']) and rng.random() < (
        0.4 if cfg['method'] == 'order1' else 0.2)
    if force_tagged is not None:
        tagged = force_tagged
    # order1 only: arrays created without rho, in about half the histories
    norho = cfg['method'] == 'order1' and rng.random() < 0.5
    if force_norho is not None:
        norho = force_norho and cfg['method'] == 'order1'
    out = []
    for a in range(narr):
        region = (edges[a], edges[a + 1]) if layout == 'halves' else (0.0, 1.0)
        sp = gen_array(rng, cfg, NAMES[a], sizes[a], h0, region, lin, const,
                       {'q': psets['q'][a], 'r': psets['r'][a]}, tagged, prefill,
                       norho)
        out.append(sp)
    # make the bounding box span the unit box in every used dimension (the
    # Interpolator infers `dim` from it); keep these two particles real
    a0 = out[0]
    for k, key in enumerate('xyz'[:dim]):
        a0[key][0] = 0.0 if not cfg['periodic'] else 0.001
        a0[key][1] = 1.0 if not cfg['periodic'] else 0.999
    a0['tag'][0] = a0['tag'][1] = 0
    for i in (0, 1):
        a0['props']['lin'][i] = lin[0] + lin[1] * a0['x'][i] + \
            lin[2] * a0['y'][i] + lin[3] * a0['z'][i]
    return out


ND_SHAPES = [[2, 2], [2, 3], [3, 2], [3, 3], [2, 4], [4, 3], [2, 2, 2], [2, 3, 2],
             [3, 2, 2], [2, 2, 3], [1, 4], [3, 1, 2], [2, 1, 3, 1]]


def gen_layout(rng, shape, kind=None):
    """memory layout of one coordinate array of logical shape `shape`: the order
    of the axes in memory (`perm`, slowest first), a step per axis (>1: gaps, a
    strided slice of a larger array), axes stored backwards (`neg`: negative
    strides) and a number of unused leading elements"""
    nd = len(shape)
    ident = list(range(nd))
    if kind is None:
        kind = rng.choice(['C', 'F', 'F', 'P', 'S', 'SF', 'N', 'mix'] if nd > 1
                          else ['C', 'C', 'S', 'N'])
    L = {'kind': kind, 'perm': ident, 'step': [1] * nd, 'neg': [], 'lead': 0}
    if kind in ('F', 'SF'):
        L['perm'] = ident[::-1]
    if kind in ('P', 'mix'):
        perm = ident[:]
        while nd > 1 and perm == ident:
            rng.shuffle(perm)
        L['perm'] = perm
    if kind in ('S', 'SF', 'mix'):
        L['step'] = [rng.choice([1, 2, 3]) for _ in range(nd)]
        L['step'][rng.randrange(nd)] = rng.choice([2, 3])
        L['lead'] = rng.randrange(4)
    if kind in ('N', 'mix'):
        L['neg'] = sorted(set(rng.randrange(nd) for _ in range(rng.randint(1, nd))))
    return L


def strided(a, L):
    """(view, mem, shape, strides, offset): a numpy array (of the dtype of `a`)
    with the logical contents of `a` laid out in the 1-D buffer `mem` as `L`
    says; strides and offset in elements"""
    shape = list(a.shape)
    nd = len(shape)
    strides = [0] * nd
    cur = 1
    for ax in reversed(L['perm']):
        strides[ax] = cur * L['step'][ax]
        cur = strides[ax] * shape[ax]
    offset = L['lead']
    total = L['lead'] + cur + 2
    for ax in L['neg']:
        offset += strides[ax] * (shape[ax] - 1)
        strides[ax] = -strides[ax]
    # unused memory holds a far-away coordinate, not a valid-looking one
    mem = np.full(total, 777, dtype=a.dtype)
    view = np.lib.stride_tricks.as_strided(mem[offset:], shape=shape,
                                           strides=[a.dtype.itemsize * t for t in strides])
    view[...] = a
    if not np.array_equal(view, a):
        raise SystemExit('harness: strided view does not hold the points')
    return view, mem, shape, strides, offset


DTYPES = {'float64': 'f64', 'float32': 'f32', 'int64': 'i64', 'int32': 'i32'}


def gen_dtype(rng, cfg, ints_ok, kind=None):
    """how the caller holds the explicit target points: numpy arrays of which
    dtype (per coordinate), or (nested) Python lists of floats / ints.  Integer
    typed coordinates (np.mgrid[1:6, 1:6], np.arange(n), lists of ints) need a
    box wider than the unit box (`ints_ok`)."""
    if kind is None:
        if rng.random() < 0.5:
            return None, 'ndarray'          # float64 arrays
        kinds = ['float32', 'floatlist', 'mixed']
        if ints_ok:
            kinds += ['int64', 'int64', 'int32', 'intlist', 'intlist', 'mixed']
        kind = rng.choice(kinds)
    if kind == 'float64':
        return None, 'ndarray'
    if kind in ('floatlist', 'intlist'):
        dt = 'float64' if kind == 'floatlist' else 'int64'
        return {key: dt for key in 'xyz'}, 'list'
    if kind == 'mixed':
        pool = ['float64', 'float32'] + (['int64', 'int32'] if ints_ok else [])
        while True:
            d = {key: rng.choice(pool) for key in 'xyz'}
            if len(set(d[key] for key in 'xyz'[:cfg['dim']])) > 1 or cfg['dim'] == 1:
                return d, 'ndarray'
    return {key: kind for key in 'xyz'}, 'ndarray'


def quantize_points(pts):
    """make the coordinates values of their dtype (after scaling): integers for
    the integer dtypes, float32 values for float32.  The spec keeps them as
    Python floats: they are the caller's points, exactly"""
    dt = pts.get('dtype')
    if pts.get('kind') != 'explicit' or not dt:
        return pts
    for key in 'xyz':
        if dt[key].startswith('int'):
            pts[key] = [float(round(v)) for v in pts[key]]
        elif dt[key] == 'float32':
            pts[key] = [float(np.float32(v)) for v in pts[key]]
    return pts


def gen_points(rng, cfg, arrays, allow_grid=True, ints_ok=False, dtype=None):
    dim = cfg['dim']
    if allow_grid and cfg['api'] == 'interp' and rng.random() < 0.25:
        return {'kind': 'grid', 'num_points': rng.choice([8, 12, 20, 27])}
    shape = None
    n = rng.randint(3, 9)
    if cfg['api'] == 'interp' and rng.random() < 0.6:
        # explicit points given as N-d arrays: result[idx] must belong to
        # (x[idx], y[idx], z[idx]) whatever the memory layout of x, y, z
        shape = list(rng.choice(ND_SHAPES))
        n = int(np.prod(shape))
    pts = [[0.0] * n for _ in range(3)]
    lo, hi = (0.02, 0.98) if cfg['periodic'] else (-0.05, 1.05)
    for k in range(dim):
        pts[k] = [rng.uniform(lo, hi) for _ in range(n)]
    # one point on top of a source particle, one far away (nothing in range)
    a = rng.choice(arrays)
    j = rng.randrange(len(a['x']))
    if not cfg['periodic'] or all(0.0 < a[key][j] < 1.0 for key in 'xyz'[:dim]):
        for k, key in enumerate('xyz'):
            pts[k][0] = a[key][j]
    if not cfg['periodic'] and rng.random() < 0.6:
        pts[0][1] = rng.choice([-3.0, 4.5])
    out = {'kind': 'explicit', 'x': pts[0], 'y': pts[1], 'z': pts[2],
           'shape': shape}
    if cfg['api'] == 'interp':
        sh = shape or [n]
        if rng.random() < 0.7:
            L = gen_layout(rng, sh)
            out['layout'] = {key: L for key in 'xyz'}
        else:       # x, y, z laid out differently
            out['layout'] = {key: gen_layout(rng, sh) for key in 'xyz'}
        out['dtype'], out['container'] = gen_dtype(rng, cfg, ints_ok, dtype)
        if out['container'] == 'list':
            del out['layout']       # a nested list has no memory layout
    else:
        # SPHEvaluator: the destination array is the caller's; it carries a
        # constant the probe equation reads
        out['gain'] = rng.uniform(0.5, 2.0)
    return out


def gen_interp_op(rng, cfg, partial=False):
    method = cfg['method']
    if partial:
        prop = rng.choice(['q', 'r', 'absent'])
    elif method == 'order1':
        prop = rng.choice(['lin', 'lin', 'lin', 'p', 'c', 'q', 'r', 'absent'])
        comp = rng.choice(list(range(cfg['dim'] + 1)) + [0])
        if cfg['dim'] < 3 and rng.random() < 0.1:
            comp = cfg['dim'] + 1       # a component that is not solved for
    else:
        prop = rng.choice(['p', 'p', 'c', 'q', 'q', 'r', 'lin', 'absent'])
    if method != 'order1':
        comp = 0
    elif partial:
        comp = rng.choice(list(range(cfg['dim'] + 1)) + [0])
    return {'op': 'interp', 'prop': prop, 'comp': comp}


def gen_interp_seq(rng, cfg):
    """one to three interpolate calls in a row on the same bindings: different
    properties one after the other, in particular one that some (or all) arrays
    lack right after one that every array has"""
    ops = [gen_interp_op(rng, cfg)]
    if rng.random() < 0.5:
        ops.append(gen_interp_op(rng, cfg, partial=True))
    if rng.random() < 0.3:
        ops.append(gen_interp_op(rng, cfg))
    return ops


def gen_mutate(rng, cfg, cur, lin, const, psets, k=None):
    """an in-place change of source array k (same number of particles, same
    tags; positions, h, m, rho, property values and the constants change)"""
    if k is None:
        k = rng.randrange(len(cur))
    old = cur[k]
    new = gen_arrays(rng, cfg, lin, const, psets)[k]
    n = len(old['x'])
    new = resize_spec(rng, new, n, old['tag'], lin)
    if k == 0:
        pin_corners(new, cfg, lin)
    upd = rng.random() < 0.85
    # update(update_domain=False) re-bins with the OLD cell size: only
    # legitimate when the smoothing lengths did not change
    same_h = rng.random() < 0.4
    if same_h:
        new['h'] = list(old['h'])
    return {'op': 'mutate', 'array': k, 'new': new, 'update': upd,
            'update_domain': (not same_h) or rng.random() < 0.4}


def touched_spec(old, op):
    """the history's view of a source array after a `touch` op"""
    new = dict(old)
    st = op['set']
    for key in ('m', 'rho'):
        if st.get(key) is not None:
            new[key] = list(st[key])
    if st.get('props'):
        new['props'] = dict(old['props'])
        for nm, v in st['props'].items():
            new['props'][nm] = list(v)
    if st.get('consts'):
        new['consts'] = dict(old.get('consts') or {})
        new['consts'].update(st['consts'])
    new.pop('temp0', None)
    return new


def gen_touch(rng, cfg, cur, k=None, what=None):
    """the caller changes DATA of source array k in place -- masses, densities,
    values of the interpolated properties, constants; positions and smoothing
    lengths stay, so the neighbour lists stay valid -- and does NOT call
    update(): the next interpolate() must give the defining sums of the data as
    they are now.  (With a periodic domain the ghosts are copies made by
    update(): there the caller has to call it.)"""
    if k is None:
        k = rng.randrange(len(cur))
    old = cur[k]
    n = len(old['x'])
    if what is None:
        what = rng.choice(['m', 'm', 'rho', 'props', 'all', 'all'])
    st = {}
    if what in ('m', 'all'):
        if rng.random() < 0.3:
            f = rng.choice([3.0, 0.25])
            st['m'] = [v * f for v in old['m']]
        else:
            st['m'] = [v * rng.uniform(0.4, 2.5) for v in old['m']]
    if what in ('rho', 'all'):
        st['rho'] = [rng.uniform(0.5, 2.0) for _ in range(n)]
    if what in ('props', 'all'):
        st['props'] = {}
        for nm in sorted(old['props']):
            if nm in ('lin', 'c'):
                continue        # stay the linear / the constant field
            lo, hi = {'p': (-2.0, 3.0), 'q': (0.0, 1.0), 'r': (-40.0, -30.0)}[nm]
            st['props'][nm] = [rng.uniform(lo, hi) for _ in range(n)]
        if rng.random() < 0.5:
            st['consts'] = {'rho0': rng.uniform(0.5, 2.0)}
    return {'op': 'touch', 'array': k, 'set': st,
            'update': bool(cfg['periodic']) or rng.random() < 0.15}


def gen_peer_op(rng, cfg, cur, points, ints_ok=False, dtype=None):
    """a second Interpolator / SPHEvaluator over the SAME source arrays (created
    by the first such op of a history, with points of its own) interpolates: it
    writes the state the two share -- `temp_prop` of every source array, and with
    order1 their `rho`"""
    op = {'op': 'peer', 'points': None,
          'calls': [{'prop': o['prop'], 'comp': o['comp']}
                    for o in gen_interp_seq(rng, cfg)]}
    if points:
        op['points'] = gen_points(rng, cfg, cur, allow_grid=False, ints_ok=ints_ok,
                                  dtype=dtype)
    return op


def scale_case(case, S):
    """the same history in the box [0, S]^d instead of the unit box: positions,
    smoothing lengths, domain bounds times S, masses times S^d (so that m/rho*W
    and the summation density keep their size), slopes of the linear field
    divided by S (so that the property values stay what they are)"""
    case['scale'] = S
    d = case['cfg']['dim']
    done = set()

    def spec(sp):
        if id(sp) in done:
            return
        done.add(id(sp))
        for key in ('x', 'y', 'z', 'h'):
            sp[key] = [v * S for v in sp[key]]
        sp['m'] = [v * S ** d for v in sp['m']]

    def points(q):
        if id(q) in done or q.get('kind') != 'explicit':
            return
        done.add(id(q))
        for key in 'xyz':
            q[key] = [v * S for v in q[key]]
        quantize_points(q)
    for sp in case['arrays']:
        spec(sp)
    points(case['points'])
    for op in case['ops']:
        if op['op'] == 'mutate':
            spec(op['new'])
        elif op['op'] == 'newarrays':
            for sp in op['arrays']:
                spec(sp)
        elif op['op'] == 'newpoints':
            points(op['points'])
        elif op['op'] == 'peer':
            if op.get('points'):
                points(op['points'])
        elif op['op'] == 'touch':
            if op['set'].get('m') is not None and id(op['set']) not in done:
                done.add(id(op['set']))
                op['set']['m'] = [v * S ** d for v in op['set']['m']]
        elif op['op'] == 'setdomain':
            op['bounds'] = [v * S for v in op['bounds']]
    case['lin'] = [case['lin'][0]] + [v / S for v in case['lin'][1:]]
    return case


def gen_case(rng, cfg, nops=None, psets=None, small=False, prefill=None,
             force_tagged=None, force_norho=None, scale=None, dtype=None):
    if scale is None:
        # half the histories live in a box that is not the unit box
        scale = rng.choice([1.0, 1.0, 4.0, 6.0])
    ints_ok = scale >= 3.0
    lin = [rng.uniform(-1, 1), rng.uniform(-2, 2),
           rng.uniform(-2, 2) if cfg['dim'] > 1 else 0.0,
           rng.uniform(-2, 2) if cfg['dim'] > 2 else 0.0]
    const = rng.choice([1.0, -2.5, rng.uniform(-3, 3)])
    if psets is None:
        psets = gen_psets(rng, cfg['narr'])
    if prefill is None:
        # arrays that arrive with a used temp_prop: in about half the histories
        prefill = rng.choice([0.0, 0.0, 0.5, 1.0])
    arrays = gen_arrays(rng, cfg, lin, const, psets, prefill, small,
                        force_tagged, force_norho)
    case = {'cfg': cfg, 'lin': lin, 'const': const, 'psets': psets, 'arrays': arrays,
            # the constructor's default `kernel=None` (= Gaussian of the inferred
            # dimension) instead of an explicit kernel object
            'default_kernel': (cfg['kernel'] == 'Gaussian' and cfg['api'] == 'interp'
                               and rng.random() < 0.5),
            'points': gen_points(rng, cfg, arrays, ints_ok=ints_ok, dtype=dtype), 'ops': []}
    cur = arrays
    ops = case['ops']
    ops.extend(gen_interp_seq(rng, cfg))
    have_peer = False
    for _ in range(nops if nops is not None else rng.randint(2, 5)):
        kind = rng.choice(['interp', 'mutate', 'mutate', 'newarrays',
                           'newpoints', 'movepoints', 'setdomain',
                           'touch', 'touch', 'peer', 'peer'])
        if kind == 'interp':
            ops.extend(gen_interp_seq(rng, cfg))
            continue
        if kind == 'touch':
            op = gen_touch(rng, cfg, cur)
            ops.append(op)
            cur = list(cur)
            cur[op['array']] = touched_spec(cur[op['array']], op)
        elif kind == 'peer':
            if peer_cfg(cfg) is None:
                # no second evaluator with a periodic domain: a data change
                op = gen_touch(rng, cfg, cur)
                ops.append(op)
                cur = list(cur)
                cur[op['array']] = touched_spec(cur[op['array']], op)
            else:
                ops.append(gen_peer_op(rng, cfg, cur, (not have_peer) or rng.random() < 0.3,
                                       ints_ok, dtype))
                have_peer = True
        elif kind == 'mutate':
            op = gen_mutate(rng, cfg, cur, lin, const, psets)
            ops.append(op)
            cur = list(cur)
            cur[op['array']] = op['new']
        elif kind == 'newarrays':
            cur = gen_arrays(rng, cfg, lin, const, psets, prefill, small,
                             force_tagged, force_norho)
            ops.append({'op': 'newarrays', 'arrays': cur})
        elif kind == 'newpoints':
            ops.append({'op': 'newpoints',
                        'points': gen_points(rng, cfg, cur, allow_grid=False,
                                             ints_ok=ints_ok, dtype=dtype)})
        elif kind == 'movepoints':
            ops.append({'op': 'movepoints', 'seed': rng.randrange(10 ** 6),
                        'update': rng.random() < 0.85})
        elif kind == 'setdomain':
            if cfg['api'] != 'interp' or cfg['periodic']:
                continue
            d = cfg['dim']
            b = []
            shape = []
            for k in range(3):
                if k < d:
                    lo = rng.uniform(0.0, 0.4)
                    b += [lo, lo + rng.uniform(0.3, 0.6)]
                    shape.append(rng.choice([2, 3]))
                else:
                    b += [0.0, 0.0]
                    shape.append(1)
            ops.append({'op': 'setdomain', 'bounds': b, 'shape': shape})
        ops.extend(gen_interp_seq(rng, cfg))
    return scale_case(case, scale)


def pin_corners(sp, cfg, lin):
    for k, key in enumerate('xyz'[:cfg['dim']]):
        sp[key][0] = 0.0 if not cfg['periodic'] else 0.001
        sp[key][1] = 1.0 if not cfg['periodic'] else 0.999
    for i in (0, 1):
        sp['props']['lin'][i] = lin[0] + lin[1] * sp['x'][i] + \
            lin[2] * sp['y'][i] + lin[3] * sp['z'][i]


def resize_spec(rng, sp, n, tag, lin):
    out = {'name': sp['name'], 'tag': list(tag), 'props': {},
           'consts': dict(sp.get('consts') or {})}
    for key in ('x', 'y', 'z', 'h', 'm', 'rho'):
        v = sp[key]
        if v is None:
            out[key] = None
            continue
        out[key] = [v[i % len(v)] if i < len(v) else v[i % len(v)] * 1.0
                    for i in range(n)]
    # decorrelate repeated particles
    for i in range(len(sp['x']), n):
        for key in ('x', 'y', 'z'):
            if any(abs(t) > 0 for t in sp[key]):
                out[key][i] = min(0.999, max(0.001, out[key][i] * 0.5 + 0.25 * rng.random()))
    for nm, v in sp['props'].items():
        out['props'][nm] = [v[i % len(v)] for i in range(n)]
    out['props']['lin'] = [lin[0] + lin[1] * out['x'][i] + lin[2] * out['y'][i]
                           + lin[3] * out['z'][i] for i in range(n)]
    return out


# --------------------------------------------------------------------------
# running a case on the real code

def make_pa(sp):
    from pysph.base.utils import get_particle_array
    kw = {k: np.array(sp[k], dtype=float) for k in ('x', 'y', 'z', 'h', 'm', 'rho')
          if sp[k] is not None}
    pa = get_particle_array(name=sp['name'], **kw)
    for nm, v in sp['props'].items():
        pa.add_property(nm)
        pa.get_carray(nm).get_npy_array()[:] = v
    if sp.get('temp0') is not None:
        # an array that was used by another Interpolator before
        pa.add_property('temp_prop')
        pa.get_carray('temp_prop').get_npy_array()[:] = sp['temp0']
    for nm, v in sorted((sp.get('consts') or {}).items()):
        pa.add_constant(nm, v)
    pa.get_carray('tag').get_npy_array()[:] = sp['tag']
    pa.align_particles()
    return pa


def set_in_place(pa, sp):
    """change the real particles of `pa` in place to the data of `sp`.  `pa` was
    aligned when built (real particles first, stable), so is `sp` made here."""
    order = [i for i, t in enumerate(sp['tag']) if t == 0] + \
            [i for i, t in enumerate(sp['tag']) if t != 0]
    nreal = sum(1 for t in sp['tag'] if t == 0)
    for key in ('x', 'y', 'z', 'h', 'm', 'rho'):
        if sp[key] is None:
            continue        # not supplied: whatever the array holds stays
        arr = pa.get(key, only_real_particles=False)
        vals = [sp[key][i] for i in order]
        arr[:len(vals)] = vals
    for nm, v in sp['props'].items():
        if nm in pa.properties:
            arr = pa.get(nm, only_real_particles=False)
            arr[:len(order)] = [v[i] for i in order]
    for nm, v in (sp.get('consts') or {}).items():
        # a constant changed in place (same carray, new value)
        pa.get_carray(nm).get_npy_array()[:] = v
    return nreal


class ImplError(Exception):
    """the implementation raised on a call the history is entitled to make"""


def impl_call(what, fn, *a, **kw):
    try:
        return fn(*a, **kw)
    except Exception as e:      # noqa
        raise ImplError('%s raised %s: %s' % (what, type(e).__name__, str(e)[:300]))


class Session:
    """One Interpolator / SPHEvaluator driven through a case's history."""

    def __init__(self, case, share=None):
        """`share`: another Session -- this one is built over THAT one's source
        arrays (the same objects), with the configuration / points of `case`"""
        from pysph.tools.interpolator import Interpolator
        self.case = case
        self.is_peer = share is not None
        cfg = self.cfg = case['cfg']
        self.kernel = kernel_obj(cfg['kernel'], cfg['dim'])
        self.objs = []          # keep every object alive: ids are labels
        self.labels = {}
        self.blines = []        # driver lines of the binding machine
        self.bstale = []        # the contract's view after each line: stale?
        self.bobs = []          # matching observations of the implementation
        self.domain = None
        self.rlines = []        # driver lines of the flattening of the points
        self.views = {}
        self.expect_pts = None  # the points in logical order (None: as in the
        #                         target array: automatic grid / moved points)
        self.S = float(case.get('scale', 1.0))
        self.h_dtype = 'float64'    # dtype of the caller's x array
        self.h_expect = None        # smoothing length the target points must get
        if cfg['periodic']:
            from pysph.base.nnps import DomainManager
            kw = {}
            for key in 'xyz'[:cfg['dim']]:
                kw[key + 'min'] = 0.0
                kw[key + 'max'] = self.S
                kw['periodic_in_' + key] = True
            self.domain = DomainManager(**kw)
        if share is None:
            self.srcs = [make_pa(sp) for sp in case['arrays']]
            self.specs = list(case['arrays'])   # the history's view of each array
        else:
            self.srcs = list(share.srcs)
            self.specs = list(share.specs)
        self.pre = None
        for pa in self.srcs:
            self.label(pa)
        self.computes_on_points = 0
        pts = case['points']
        reset_group_names(share.cfg if share is not None else cfg, peer=share is not None)
        if cfg['api'] == 'interp':
            kw = {}
            if pts['kind'] == 'explicit':
                kw = self.points_kw(pts)
            else:
                kw = {'num_points': pts['num_points']}
            if cfg['method'] == 'sphc':
                # the `equations=` option: user-supplied equations (the target
                # array is made as for 'sph': one `prop` per point)
                kw['equations'] = [RefDensitySum(dest='interpolate',
                                                 sources=[a.name for a in self.srcs])]
                kw['method'] = 'sph'
            else:
                kw['method'] = cfg['method']
            self.ip = impl_call('Interpolator()', Interpolator, self.srcs,
                                kernel=None if case.get('default_kernel') else self.kernel,
                                domain_manager=self.domain, **kw)
            self.label(self.ip.pa)
            if pts['kind'] != 'explicit':
                self.grid_points()
            self.ravel_lines('construction')
            self.blines.append('B init arrays=%s pts=%d' % (
                H.ilist(self.labels[id(a)] for a in self.srcs),
                self.labels[id(self.ip.pa)]))
        else:
            from pysph.tools.sph_evaluator import SPHEvaluator
            self.dest = self.make_dest(pts)
            self.label(self.dest)
            arrays = self.srcs + [self.dest]
            self.ev = impl_call('SPHEvaluator()', SPHEvaluator, arrays, self.equations(),
                                dim=cfg['dim'], kernel=self.kernel,
                                domain_manager=self.domain)
            self.blines.append('B initeval objs=%s' % H.ilist(
                self.labels[id(a)] for a in arrays))
        self.bobs.append(self.bind_obs())
        self.bstale.append(False)
        if cfg['api'] == 'interp' and self.ip.dim != cfg['dim']:
            raise SystemExit('harness: Interpolator inferred dim %r for a %d-D case'
                             % (self.ip.dim, cfg['dim']))

    # -- helpers
    def label(self, obj):
        self.objs.append(obj)
        self.labels[id(obj)] = len(self.objs)
        return len(self.objs)

    def points_kw(self, pts):
        """keyword arguments for the constructor / set_interpolation_points;
        remembers how each coordinate array lies in memory (for the model's
        `ravel`) and the points in LOGICAL order: entry k of the spec's lists is
        the point at the multi-index whose row-major index is k"""
        kw = {}
        d = self.cfg['dim']
        self.views = {}
        n = len(pts['x'])
        self.expect_pts = [(pts['x'][i], pts['y'][i], pts['z'][i]) for i in range(n)]
        dts = pts.get('dtype') or {}
        self.h_dtype = dts.get('x', 'float64')   # h = hmax*np.ones_like(x.ravel())
        for key in 'xyz'[:d]:
            dt = dts.get(key, 'float64')
            f = np.array(pts[key], dtype=float)
            a = f.astype({'float64': np.float64, 'float32': np.float32,
                          'int64': np.int64, 'int32': np.int32}[dt])
            if not np.array_equal(a.astype(float), f):
                raise SystemExit('harness: points are not %s values' % dt)
            if pts.get('shape'):
                a = a.reshape(pts['shape'])
            if pts.get('container') == 'list':
                # (nested) Python lists of ints / floats: np.asarray makes a C
                # ordered int64 / float64 array of them
                c = np.ascontiguousarray(a)
                st = [1] * c.ndim
                for ax in range(c.ndim - 2, -1, -1):
                    st[ax] = st[ax + 1] * c.shape[ax + 1]
                self.views[key] = (c.ravel(), list(c.shape), st, 0, 'list', dt)
                a = c.tolist()
            elif pts.get('layout'):
                L = pts['layout'][key]
                a, mem, shape, strides, offset = strided(a, L)
                self.views[key] = (mem, shape, strides, offset, L['kind'], dt)
            else:
                c = np.ascontiguousarray(a)
                st = [1] * c.ndim
                for ax in range(c.ndim - 2, -1, -1):
                    st[ax] = st[ax + 1] * c.shape[ax + 1]
                self.views[key] = (c.ravel(), list(c.shape), st, 0, 'C', dt)
            kw[key] = a
        # a coordinate that is not passed: zeros shaped like the others
        self.expect_pts = [tuple(q[k] if k < d else 0.0 for k in range(3))
                           for q in self.expect_pts]
        return kw

    def ravel_lines(self, where):
        """after the target particles were created from explicit arrays: the
        model's `ravel` of each array as it lies in memory against the
        coordinates of the target particles, in particle order"""
        pa = self.ip.pa
        for key, (mem, shape, strides, offset, kind, dt) in sorted(self.views.items()):
            if dt.startswith('int'):
                buf = ','.join(str(int(v)) for v in mem.tolist()) or '_'
            else:
                buf = H.flist([float(v) for v in mem.tolist()])
            line = 'R dtype=%s shape=%s strides=%s offset=%d buf=%s' % (
                DTYPES[dt], H.ilist(shape), ','.join(str(t) for t in strides), offset, buf)
            # (with a periodic domain the target array got ghosts appended)
            got = pa.get(key, only_real_particles=False)[:pa.num_real_particles].tolist()
            self.rlines.append((line, 'flat ' + H.flist(got),
                                where + ' target particles: ' + key,
                                ['points-layout:%s' % kind,
                                 'points-dtype:%s%s' % (dt, '(list)' if kind == 'list' else '')]))
        self.h_line(where)

    def grid_points(self):
        """automatic grid (constructor without points / set_domain): the caller
        learns where entry idx of the result lies from the public ip.x, ip.y,
        ip.z (shaped like the result); the oracle judges the result there, not
        at the target particles in particle order"""
        ip = self.ip
        try:
            xs = [np.asarray(getattr(ip, key), dtype=float) for key in 'xyz']
            ok = xs[0].shape == xs[1].shape == xs[2].shape
        except Exception:       # noqa
            ok = False
        if not ok:
            raise ImplError('Interpolator.x/.y/.z do not describe a grid: %r'
                            % ([np.shape(getattr(ip, key, None)) for key in 'xyz'],))
        self.expect_pts = [(float(xs[0][idx]), float(xs[1][idx]), float(xs[2][idx]))
                           for idx in np.ndindex(*xs[0].shape)]

    def real_h(self):
        """the smoothing lengths of the real particles of every source array, from
        the history (not read back from the implementation)"""
        return [[h for h, t in zip(sp['h'], sp['tag']) if t == 0] for sp in self.specs]

    def h_line(self, where):
        """after the target particles were created: every one of them must have
        got the largest smoothing length of the (real) source particles, as a
        double, whatever the dtype of the caller's coordinate arrays.  The model
        gets the sources' h and the dtype; the oracle keeps the value."""
        hs = self.real_h()
        self.h_expect = max(max(h) for h in hs)
        pa = self.ip.pa
        n = int(pa.num_real_particles)
        dt = self.h_dtype if self.views else 'float64'   # automatic grid: np.mgrid, float64
        line = 'H dtype=%s n=%d lens=%s h=%s' % (
            DTYPES[dt], n, H.ilist(len(h) for h in hs),
            H.flist([v for h in hs for v in h]))
        got = pa.get('h', only_real_particles=False)[:n].tolist()
        self.rlines.append((line, 'h ' + H.flist(got), where + ' target particles: h',
                            ['target-h:points-dtype-%s' % dt]))

    def equations(self):
        from pysph.tools import interpolator as I
        from pysph.sph.equation import Group
        from pysph.sph.basic_equations import SummationDensity
        names = [a.name for a in self.srcs]
        m = self.cfg['method']
        one = {'shepard': I.InterpolateFunction, 'sph': I.InterpolateSPH,
               'splash': I.SPLASHInterpolateProperty,
               'splash_norm': I.SPLASHInterpolatePropertyNormalized}
        if m in one:
            return [one[m](dest='interpolate', sources=names)]
        if m == 'sphc':
            return [RefDensitySumGain(dest='interpolate', sources=names)]
        d = self.cfg['dim']
        return [
            Group(equations=[SummationDensity(dest=n, sources=names)
                             for n in names], real=False),
            Group(equations=[I.SPHFirstOrderApproximationPreStep(
                dest='interpolate', sources=names, dim=d)], real=True),
            Group(equations=[I.SPHFirstOrderApproximation(
                dest='interpolate', sources=names, dim=d)], real=True)]

    def make_dest(self, pts):
        from pysph.base.utils import get_particle_array
        x = np.array(pts['x'], dtype=float)
        self.expect_pts = [(pts['x'][i], pts['y'][i], pts['z'][i])
                           for i in range(len(pts['x']))]
        hmax = max(float(a.h.max()) for a in self.srcs)
        pa = get_particle_array(name='interpolate', x=x,
                                y=np.array(pts['y'], dtype=float),
                                z=np.array(pts['z'], dtype=float),
                                h=hmax * np.ones_like(x),
                                number_density=np.zeros_like(x))
        m = self.cfg['method']
        if m == 'order1':
            pa.add_property('moment', stride=16)
            pa.add_property('p_sph', stride=4)
            pa.add_property('prop', stride=4)
        else:
            pa.add_property('prop')
            if m == 'splash_norm':
                pa.add_property('unity')
        # a constant of the destination array (read by the probe equation as
        # d_gain[0]); every destination array of a history has its own value
        self.gain = float(pts.get('gain', 1.0))
        pa.add_constant('gain', self.gain)
        for a in self.srcs:
            if 'temp_prop' not in a.properties:
                a.add_property('temp_prop')
        return pa

    @property
    def target(self):
        return self.ip.pa if self.cfg['api'] == 'interp' else self.dest

    @property
    def nnps(self):
        return self.ip.nnps if self.cfg['api'] == 'interp' else self.ev.nnps

    def bind_obs(self):
        if not self.bstale or not self.blines[-1].startswith(('B mutate', 'B touch', 'B update')):
            # construction or a rebinding: a NEW neighbour structure, its cell
            # size computed from the present smoothing lengths
            self.h_dom = self.h_binned()
        lab = lambda o: self.labels.get(id(o), 0)  # noqa
        if self.cfg['api'] == 'interp':
            ip = self.ip
            fe = ip.func_eval
            names = [a.name for a in ip.particle_arrays] + ['interpolate']
            filled = [lab(a) for a in ip.particle_arrays]
            result = lab(ip.pa)
            nn = ip.nnps
        else:
            fe = self.ev.func_eval
            names = [a.name for a in self.srcs] + ['interpolate']
            filled = [lab(a) for a in self.srcs]
            result = lab(self.dest)
            nn = self.ev.nnps
        ce = fe.c_acceleration_eval
        evaluated, consts = [], []
        for nm in names:
            w = getattr(ce, nm)
            # what the compiled loops read are the carrays the wrapper holds, one
            # attribute per property / constant: the object all of whose
            # property carrays (resp. constant carrays) the wrapper holds
            ev = co = 0
            for o in self.objs:
                if getattr(o, 'name', None) != nm or not hasattr(o, 'get_carray'):
                    continue
                if all(getattr(w, q) is o.get_carray(q) for q in o.properties):
                    ev = lab(o)
                if all(getattr(w, q) is o.get_carray(q) for q in o.constants):
                    # (an array without constants: the one the wrapper points to)
                    if o.constants or o is w.array:
                        co = lab(o)
            if ev != lab(w.array):
                ev = 0          # `array` and the property carrays disagree
            evaluated.append(ev)
            consts.append(co)
        binned = [lab(a) for a in nn.particles]
        same = (ce.nnps is nn) and (fe.nnps is nn)
        return {'filled': filled, 'evaluated': evaluated, 'binned': binned,
                'result': result, 'consts': consts, 'evalnnps': bool(same)}

    # -- operations
    def apply(self, op):
        """apply a non-interp op; appends the binding line + observation"""
        cfg = self.cfg
        kind = op['op']
        if kind == 'mutate':
            pa = self.srcs[op['array']]
            set_in_place(pa, op['new'])
            self.specs = list(self.specs)
            self.specs[op['array']] = op['new']
            self.blines.append('B mutate o=%d' % self.labels[id(pa)])
            self.bobs.append(self.bind_obs())
            self.bstale.append(True)
            if op['update']:
                ud = op.get('update_domain', True)
                if not ud and self.h_binned() != self.h_dom:
                    # update(update_domain=False) keeps the cell size: legitimate
                    # only when no smoothing length changed since the cell size
                    # was computed -- also not in an EARLIER in-place change that
                    # was left without update()
                    ud = True
                self.do_update(ud)
        elif kind == 'touch':
            pa = self.srcs[op['array']]
            sp = self.specs[op['array']]
            order = [i for i, t in enumerate(sp['tag']) if t == 0] + \
                    [i for i, t in enumerate(sp['tag']) if t != 0]
            st = op['set']
            for key in ('m', 'rho'):
                if st.get(key) is not None:
                    arr = pa.get(key, only_real_particles=False)
                    arr[:len(order)] = [st[key][i] for i in order]
            for nm, v in (st.get('props') or {}).items():
                arr = pa.get(nm, only_real_particles=False)
                arr[:len(order)] = [v[i] for i in order]
            for nm, v in (st.get('consts') or {}).items():
                pa.get_carray(nm).get_npy_array()[:] = v
            self.specs = list(self.specs)
            self.specs[op['array']] = touched_spec(sp, op)
            # data changed, geometry did not: the neighbour lists stay current
            self.blines.append('B touch o=%d' % self.labels[id(pa)])
            self.bobs.append(self.bind_obs())
            self.bstale.append(self.bstale[-1])
            if op['update']:
                self.do_update(True)
        elif kind == 'movepoints':
            rng = random.Random(op['seed'])
            pa = self.target
            n = pa.num_real_particles
            lo, hi = (0.02, 0.98) if cfg['periodic'] else (-0.05, 1.05)
            for key in 'xyz'[:cfg['dim']]:
                arr = pa.get(key, only_real_particles=False)
                arr[:n] = [self.S * rng.uniform(lo, hi) for _ in range(n)]
            if cfg['api'] != 'interp':
                # ... and the destination array's constant changes in place
                self.gain = rng.uniform(0.5, 2.0)
                pa.get_carray('gain').get_npy_array()[:] = self.gain
            # from now on the points are what the target array holds
            self.expect_pts = None
            self.blines.append('B mutate o=%d' % self.labels[id(pa)])
            self.bobs.append(self.bind_obs())
            self.bstale.append(True)
            if op['update']:
                self.do_update(True)
        elif kind == 'newarrays':
            self.srcs = [make_pa(sp) for sp in op['arrays']]
            self.specs = list(op['arrays'])
            for pa in self.srcs:
                self.label(pa)
            if cfg['api'] == 'interp':
                impl_call('update_particle_arrays', self.ip.update_particle_arrays, self.srcs)
                self.blines.append('B updarr arrays=%s' % H.ilist(
                    self.labels[id(a)] for a in self.srcs))
            else:
                for a in self.srcs:
                    if 'temp_prop' not in a.properties:
                        a.add_property('temp_prop')
                arrays = self.srcs + [self.dest]
                impl_call('SPHEvaluator.update_particle_arrays', self.ev.update_particle_arrays, arrays)
                self.blines.append('B evalupdarr objs=%s' % H.ilist(
                    self.labels[id(a)] for a in arrays))
            self.bobs.append(self.bind_obs())
            self.bstale.append(False)
        elif kind == 'newpoints':
            self.computes_on_points = 0
            if cfg['api'] == 'interp':
                impl_call('set_interpolation_points', self.ip.set_interpolation_points,
                          **self.points_kw(op['points']))
                self.label(self.ip.pa)
                self.ravel_lines('set_interpolation_points')
                self.blines.append('B setpts p=%d' % self.labels[id(self.ip.pa)])
            else:
                self.dest = self.make_dest(op['points'])
                self.label(self.dest)
                arrays = self.srcs + [self.dest]
                impl_call('SPHEvaluator.update_particle_arrays', self.ev.update_particle_arrays, arrays)
                self.blines.append('B evalupdarr objs=%s' % H.ilist(
                    self.labels[id(a)] for a in arrays))
            self.bobs.append(self.bind_obs())
            self.bstale.append(False)
        elif kind == 'setdomain':
            self.computes_on_points = 0
            self.expect_pts = None
            self.views = {}
            impl_call('set_domain', self.ip.set_domain, tuple(op['bounds']), tuple(op['shape']))
            self.label(self.ip.pa)
            self.grid_points()
            self.h_line('set_domain')
            self.blines.append('B setpts p=%d' % self.labels[id(self.ip.pa)])
            self.bobs.append(self.bind_obs())
            self.bstale.append(False)
        else:
            raise ValueError(kind)

    def follow(self, other):
        """(peer) the first Session's source arrays were replaced: this one is
        handed the same new arrays"""
        self.srcs = list(other.srcs)
        self.specs = list(other.specs)
        for pa in self.srcs:
            self.label(pa)
        if self.cfg['api'] == 'interp':
            impl_call('update_particle_arrays (second Interpolator)',
                      self.ip.update_particle_arrays, self.srcs)
        else:
            for a in self.srcs:
                if 'temp_prop' not in a.properties:
                    a.add_property('temp_prop')
            impl_call('SPHEvaluator.update_particle_arrays (second evaluator)',
                      self.ev.update_particle_arrays, self.srcs + [self.dest])

    def h_binned(self):
        """the smoothing lengths the cell size of the neighbour structure depends
        on: those of the source arrays (history's view)"""
        return [list(sp['h']) for sp in self.specs]

    def do_update(self, update_domain):
        if self.domain is not None:
            update_domain = True     # ghosts must follow the particles
        if update_domain:
            self.h_dom = self.h_binned()
        if self.cfg['api'] == 'interp':
            impl_call('update', self.ip.update, update_domain=update_domain)
        else:
            impl_call('SPHEvaluator.update', self.ev.update, update_domain=update_domain)
        self.blines.append('B update')
        self.bobs.append(self.bind_obs())
        self.bstale.append(False)

    def pre_stage(self, prop):
        """what the source arrays hold BEFORE interpolate(prop): per array the
        source values the property's formulas range over (`want`: the requested
        property, 0.0 for every particle of an array whose SPEC has no such
        property — decided from the history, not from the implementation's
        book-keeping), a property table for the model's staging loop and the
        present contents of temp_prop"""
        out = []
        for a, sp in zip(self.srcs, self.specs):
            n = int(a.get_number_of_particles())
            names = sorted(sp['props']) + ['h', 'm', 'rho']
            vals = {nm: a.get(nm, only_real_particles=False).copy() for nm in names}
            has = prop in sp['props']
            want = vals[prop].copy() if has else np.zeros(n)
            old = a.get('temp_prop', only_real_particles=False).copy()
            out.append({'n': n, 'names': names, 'vals': vals, 'has': has,
                        'want': want, 'old': old})
        return out

    def interpolate(self, prop, comp):
        """returns the flat result for the real destination particles"""
        self.computes_on_points += 1
        self.pre = self.pre_stage(prop)
        if self.cfg['api'] == 'interp':
            r = impl_call('interpolate', self.ip.interpolate, prop, comp)
            self.last_shape = list(np.shape(r))
            # what the evaluator left per target particle, and the shape the
            # Interpolator un-flattens it to
            raw = self.ip.pa.get('prop', only_real_particles=False)
            if self.cfg['method'] == 'order1':
                raw = raw[comp::4]
            self.last_raw = (raw[:self.ip.pa.num_real_particles].tolist(),
                             [int(t) for t in np.atleast_1d(self.ip.shape)])
            # the returned array listed in row-major order of its own shape
            return [float(r[idx]) for idx in np.ndindex(*np.shape(r))]
        # SPHEvaluator: do what Interpolator.interpolate does around compute
        for a in self.srcs:
            data = a.get(prop, only_real_particles=False) \
                if prop in a.properties else 0.0
            a.get('temp_prop', only_real_particles=False)[:] = data
        impl_call('evaluate', self.ev.evaluate)
        d = self.dest
        n = d.num_real_particles
        full = d.get('prop', only_real_particles=False)
        self.last_shape = [n]
        if self.cfg['method'] == 'order1':
            return full.reshape(-1, 4)[:n, comp].tolist()
        return full[:n].tolist()


# --------------------------------------------------------------------------
# snapshot, model lines, oracle

def snapshot(ses):
    """everything the evaluator read, after a compute"""
    srcs = []
    for a in ses.srcs:
        d = {k: a.get(k, only_real_particles=False).tolist()
             for k in ('x', 'y', 'z', 'h', 'm', 'rho', 'temp_prop')}
        d['tag'] = a.get('tag', only_real_particles=False).tolist()
        d['nreal'] = int(a.num_real_particles)
        # the source values of the requested property (NOT what the
        # implementation staged in temp_prop)
        d['f'] = ses.pre[len(srcs)]['want'].tolist()
        if ses.cfg['method'] == 'sphc':
            # the probe equation's density is the CONSTANT rho0 of the array the
            # neighbour lives in: the value the history gave the array currently
            # bound (not read back through the evaluator)
            rho0 = float(ses.specs[len(srcs)]['consts']['rho0'])
            if a.get_carray('rho0').get_npy_array().tolist() != [rho0]:
                raise SystemExit('harness: source array does not hold its constant')
            d['rho'] = [rho0] * len(d['x'])
        srcs.append(d)
    t = ses.target
    tgt = {k: t.get(k, only_real_particles=False).tolist() for k in ('x', 'y', 'z', 'h')}
    tgt['nreal'] = int(t.num_real_particles)
    if ses.cfg['api'] == 'interp':
        # the smoothing length the points must have got (largest source h at the
        # time they were set), not the one the implementation gave them
        tgt['h'] = [ses.h_expect] * len(tgt['h'])
        tgt['gain'] = 1.0
    else:
        tgt['gain'] = ses.gain
    if ses.cfg['method'] == 'order1':
        tgt['moment'] = t.get('moment', only_real_particles=False).reshape(-1, 16).tolist()
        tgt['p_sph'] = t.get('p_sph', only_real_particles=False).reshape(-1, 4).tolist()
        tgt['prop4'] = t.get('prop', only_real_particles=False).reshape(-1, 4).tolist()
    return srcs, tgt


def nbr_lists(ses, dst_index, n, narr):
    from cyarray.api import UIntArray
    nb = UIntArray()
    nn = ses.nnps
    out = []
    for i in range(n):
        row = []
        for a in range(narr):
            nn.get_nearest_particles(a, dst_index, i, nb)
            row.append(nb.get_npy_array().tolist())
        out.append(row)
    return out


def kern(k, dpos, spos, h, want_grad):
    xij = [dpos[0] - spos[0], dpos[1] - spos[1], dpos[2] - spos[2]]
    r2 = xij[0] * xij[0] + xij[1] * xij[1] + xij[2] * xij[2]
    rij = math.sqrt(r2)
    w = k.kernel(xij, rij, h)
    g = [0.0, 0.0, 0.0]
    if want_grad:
        k.gradient(xij, rij, h, g)
    return float(w), [float(g[0]), float(g[1]), float(g[2])]


def pair_h(method, hd, hs):
    if method == 'splash':
        return hd
    if method == 'splash_norm':
        return hs
    return 0.5 * (hd + hs)


LAST_IDS = []       # (array, index) of the records of the latest records_for call


def records_for(k, method, dpos, hd, srcs, listed, want_grad, rhos=None):
    """neighbour records for one destination: the listed neighbours in the
    implementation's order, then every unlisted particle with a non-zero kernel
    value (or gradient).  Returns (flat list of floats, n_listed, n_extra)."""
    flat = []
    nl = ne = 0
    ids = LAST_IDS
    del ids[:]
    for a, s in enumerate(srcs):
        lst = listed[a]
        seen = set(lst)
        n = len(s['x'])
        for phase in (0, 1):
            idxs = lst if phase == 0 else [j for j in range(n) if j not in seen]
            for j in idxs:
                spos = (s['x'][j], s['y'][j], s['z'][j])
                w, g = kern(k, dpos, spos, pair_h(method, hd, s['h'][j]), want_grad)
                if phase == 1:
                    if w == 0.0 and g[0] == 0.0 and g[1] == 0.0 and g[2] == 0.0:
                        continue
                    ne += 1
                else:
                    nl += 1
                rho = s['rho'][j] if rhos is None else rhos[a][j]
                ids.append((a, j))
                flat += [w, g[0], g[1], g[2], spos[0], spos[1], spos[2],
                         s['m'][j], rho, s['temp_prop'][j]]
    return flat, nl, ne


def shifts_for(cfg, S=1.0):
    if not cfg['periodic']:
        return [(0.0, 0.0, 0.0)]
    rng3 = [(-S, 0.0, S) if k < cfg['dim'] else (0.0,) for k in range(3)]
    return [(a, b, c) for a in rng3[0] for b in rng3[1] for c in rng3[2]]


def brute(k, cfg, method, dpos, hd, srcs, S=1.0):
    """brute-force contributions for one destination: list of (w, V, f) over all
    particles the property's sums range over: every particle present in the
    arrays; with a periodic domain the REAL particles and their images (the
    ghosts the domain manager made are ignored)."""
    out = []
    sh = shifts_for(cfg, S)
    for s in srcs:
        n = len(s['x'])
        for j in range(n):
            if cfg['periodic'] and s['tag'][j] != 0:
                continue
            for (a, b, c) in sh:
                spos = (s['x'][j] + a, s['y'][j] + b, s['z'][j] + c)
                w, _ = kern(k, dpos, spos, pair_h(method, hd, s['h'][j]), False)
                if w != 0.0:
                    out.append((w, s['m'][j] / s['rho'][j], s['f'][j]))
    return out


def wrap_pos(cfg, p, S=1.0):
    if not cfg['periodic']:
        return p
    return tuple(p[k] - S * math.floor(p[k] / S) if k < cfg['dim'] else p[k] for k in range(3))


def observe(ses, op, res, where):
    """after `interpolate`: build the model lines and evaluate the property
    oracle.  Returns dict with lines (deferred to the driver) and failures."""
    cfg = ses.cfg
    method = cfg['method']
    k = ses.kernel
    srcs, tgt = snapshot(ses)
    narr = len(srcs)
    nt = tgt['nreal']
    out = {'lines': [], 'expect': [], 'fails': [], 'counts': {}, 'nontrivial': False,
           'notes': []}
    cnt = out['counts']

    def c(key, n=1):
        cnt[key] = cnt.get(key, 0) + n
    if len(res) != nt:
        out['fails'].append(('C14:%s:result-shape' % method,
                             '%d values, one per interpolation point' % nt,
                             '%d values' % len(res)))
        return out
    # ---- the staging loop: temp_prop after the call against the model run on
    # the array's property table and the OLD contents of temp_prop
    for a, (s1, pre) in enumerate(zip(srcs, ses.pre)):
        stale = bool(np.any(pre['old'] != 0.0))
        if pre['has']:
            c('stage:array-has-prop')
        else:
            c('stage:array-lacks-prop')
            if stale:
                # the situation in which zeros must REPLACE earlier contents
                c('stage:array-lacks-prop-and-temp_prop-was-nonzero')
        if stale and not np.array_equal(pre['old'], pre['want']):
            c('stage:overwrites-different-nonzero-temp_prop')
        if cfg['api'] != 'interp':
            continue        # SPHEvaluator has no interpolate: the harness staged
        out['lines'].append('S prop=%s n=%d names=%s vals=%s old=%s' % (
            op['prop'], pre['n'], ','.join(pre['names']),
            H.flist([v for nm in pre['names'] for v in pre['vals'][nm].tolist()]),
            H.flist(pre['old'].tolist())))
        out['expect'].append(('stage', where + ' temp_prop of source array %d' % a,
                              'temp ' + H.flist(s1['temp_prop']), None))
    if cfg['api'] == 'interp':
        # the un-flattening: per-particle values + self.shape -> returned array
        raw, shp = ses.last_raw
        out['lines'].append('U shape=%s flat=%s' % (H.ilist(shp), H.flist(raw)))
        out['expect'].append(('unflatten', where + ' result un-flattened',
                              'res ' + H.flist(res), None))
        c('unflatten:%d-d' % len(shp))
    # the points of the PROPERTY: entry i of the returned array (row-major) is
    # about the i-th point the caller gave, in the caller's logical indexing
    # (x[idx], y[idx], z[idx]) -- not about wherever target particle i ended up
    exp_pts = ses.expect_pts
    if exp_pts is not None and len(exp_pts) != nt:
        out['fails'].append(('C14:%s:result-shape' % method,
                             '%d target points, one per element of x' % len(exp_pts),
                             '%d target particles' % nt))
        return out
    c('oracle-points:%s' % ('moved-target-array' if exp_pts is None else
                            'callers-arrays' if ses.views else 'public-grid-x-y-z'))
    listed = nbr_lists(ses, narr, nt, narr)
    want_grad = method == 'order1'
    rhos = None
    if method == 'order1':
        # SummationDensity (group 1) overwrote rho of every source particle:
        # tie it first, then feed the implementation's rho to the point lines
        offs = [0]
        for s1 in srcs:
            offs.append(offs[-1] + len(s1['x']))
        o1_lens, o1_sk, o1_sw = [], [], []
        for a1, s1 in enumerate(srcs):
            lst = nbr_lists(ses, a1, len(s1['x']), narr)
            for j in range(len(s1['x'])):
                dpos = (s1['x'][j], s1['y'][j], s1['z'][j])
                flat, nl, ne = records_for(k, 'rho', dpos, s1['h'][j], srcs,
                                           lst[j], False)
                o1_lens.append(len(LAST_IDS))
                o1_sk += [offs[aa] + jj for (aa, jj) in LAST_IDS]
                o1_sw += flat[0::10]
                out['lines'].append('pt method=rho tol=%s nb=%s' % (
                    H.fbits(TOL12), H.flist(flat)))
                out['expect'].append(('rho', where + ' rho[%d][%d]' % (a1, j),
                                      'val ' + H.fbits(s1['rho'][j]), None))
                if ne:
                    c('unlisted-nonzero-neighbours', ne)
        c('rho-lines', sum(len(s['x']) for s in srcs))
    o1_done = False
    for i in range(nt):
        dpos = (tgt['x'][i], tgt['y'][i], tgt['z'][i])
        hd = tgt['h'][i]
        flat, nl, ne = records_for(k, method, dpos, hd, srcs, listed[i], want_grad)
        if ne:
            c('unlisted-nonzero-neighbours', ne)
        if method == 'order1' and not o1_done and (nl >= 2 or i == nt - 1) and \
                all(len(p['vals']['rho']) == len(s1['x']) for p, s1 in zip(ses.pre, srcs)):
            # the whole compute for this point on the SHARED arrays as the call
            # found them (model: order1Compute): the rho the arrays held BEFORE
            # the call (the caller's, or what another evaluator left), the masses
            # and staged values, the kernel values among the sources
            o1_done = True
            old_rho = [v for p in ses.pre for v in p['vals']['rho'].tolist()]
            pn = []
            for t in range(len(LAST_IDS)):
                pn += flat[10 * t:10 * t + 7]
            out['lines'].append(
                'O1 tol=%s dim=%d d=%s m=%s f=%s rho=%s lens=%s sk=%s sw=%s pk=%s pn=%s' % (
                    H.fbits(TOL12), cfg['dim'], H.flist(dpos),
                    H.flist([v for s1 in srcs for v in s1['m']]),
                    H.flist([v for s1 in srcs for v in s1['temp_prop']]),
                    H.flist(old_rho), H.ilist(o1_lens), H.ilist(o1_sk), H.flist(o1_sw),
                    H.ilist(offs[aa] + jj for (aa, jj) in LAST_IDS), H.flist(pn)))
            exp = 'val %s mom %s psph %s rho %s' % (
                H.flist(tgt['prop4'][i]), H.flist(tgt['moment'][i]), H.flist(tgt['p_sph'][i]),
                H.flist([v for s1 in srcs for v in s1['rho']]))
            out['expect'].append(('o1', where + ' whole compute for point %d on the shared arrays' % i,
                                  exp, {'comp': op['comp'], 'res': res[i]}))
            c('order1-whole-compute-lines')
            if any(a != b for a, b in zip(old_rho, [v for s1 in srcs for v in s1['rho']])):
                c('order1-whole-compute:rho-before-call-differs-from-density')
        if nl >= 2:
            out['nontrivial'] = True
        c('nbrs:%s' % ('0' if nl == 0 else '1-4' if nl < 5 else '5-19' if nl < 20 else '20+'))
        if method == 'order1':
            out['lines'].append('pt method=order1 tol=%s dim=%d d=%s nb=%s' % (
                H.fbits(TOL12), cfg['dim'], H.flist(dpos), H.flist(flat)))
            exp = 'val %s mom %s psph %s' % (H.flist(tgt['prop4'][i]),
                                             H.flist(tgt['moment'][i]),
                                             H.flist(tgt['p_sph'][i]))
            out['expect'].append(('order1', where + ' point %d' % i, exp,
                                  {'comp': op['comp'], 'res': res[i]}))
        elif method == 'sphc':
            out['lines'].append('pt method=sphc tol=%s gain=%s nb=%s' % (
                H.fbits(TOL12), H.fbits(tgt['gain']), H.flist(flat)))
            out['expect'].append((method, where + ' point %d' % i,
                                  'val ' + H.fbits(res[i]), None))
        else:
            out['lines'].append('pt method=%s tol=%s nb=%s' % (
                method, H.fbits(TOL12), H.flist(flat)))
            out['expect'].append((method, where + ' point %d' % i,
                                  'val ' + H.fbits(res[i]), None))
    # ---- the property itself, brute force, independent of the above
    o1src = order1_sources(ses, srcs) if method == 'order1' else None
    for i in range(nt):
        pt = exp_pts[i] if exp_pts is not None else (tgt['x'][i], tgt['y'][i], tgt['z'][i])
        dpos = wrap_pos(cfg, pt, ses.S)
        hd = tgt['h'][i]
        got = res[i]
        if method == 'order1':
            oracle_order1(ses, op, i, dpos, hd, o1src, tgt, got, out, c)
            continue
        con = brute(k, cfg, method, dpos, hd, srcs, ses.S)
        fs = [f for (_, _, f) in con]
        fmax = max([abs(f) for f in fs] + [0.0])
        if method == 'shepard':
            den = sum(w for (w, _, _) in con)
            num = sum(w * f for (w, _, f) in con)
            sabs = sum(abs(w * f) for (w, _, f) in con)
            if not con:
                c('oracle:nothing-in-range')
                if got != 0.0:
                    out['fails'].append(('C14:shepard:zero-out-of-range',
                                         '0.0 at point %d (no source in range)' % i, repr(got)))
                continue
            if abs(den - TOL12) <= 1e-6 * TOL12:
                c('oracle:threshold-band')
                continue
            if den <= TOL12:
                if not all(w > 0 for (w, _, _) in con):
                    # a sign-changing kernel (SuperGaussian) cancelled: the
                    # weighted mean is not defined there
                    c('oracle:cancelled-weights-skipped')
                    continue
                c('oracle:below-threshold')
                if not (abs(got) <= TOL12 * fmax * (1 + 1e-6) + 1e-300):
                    out['fails'].append(('C14:shepard:below-threshold',
                                         '|value| <= 1e-12*max|f| at point %d' % i, repr(got)))
                continue
            want = num / den
            c('oracle:weighted-mean')
            if not (abs(got - want) <= REL * (sabs / abs(den)) + 1e-300):
                out['fails'].append((fail_key(ses, 'shepard', 'weighted-mean'),
                                     'sum(w f)/sum(w) = %r at point %d' % (want, i), repr(got)))
                continue
            if all(w > 0 for (w, _, _) in con):
                lo, hi = min(fs), max(fs)
                slack = 1e-12 * max(fmax, 1e-300)
                if not (lo - slack <= got <= hi + slack):
                    out['fails'].append((fail_key(ses, 'shepard', 'bounds'),
                                         'between %r and %r at point %d' % (lo, hi, i), repr(got)))
                if lo == hi:
                    c('oracle:constant')
                    if not (abs(got - lo) <= 1e-12 * max(abs(lo), 1e-300)):
                        out['fails'].append((fail_key(ses, 'shepard', 'constant'),
                                             'constant %r reproduced at point %d' % (lo, i), repr(got)))
        elif method in ('sph', 'splash', 'sphc'):
            # (sphc: V = m/rho0 with rho0 the constant of the source array
            # CURRENTLY bound, times the constant `gain` of the destination)
            g = tgt['gain'] if method == 'sphc' else 1.0
            want = g * sum(v * w * f for (w, v, f) in con)
            sabs = abs(g) * sum(abs(v * w * f) for (w, v, f) in con)
            c('oracle:documented-sum')
            if not con and got != 0.0:
                out['fails'].append(('C14:%s:zero-out-of-range' % method,
                                     '0.0 at point %d' % i, repr(got)))
            elif not (abs(got - want) <= REL * sabs + 1e-300):
                out['fails'].append((fail_key(ses, method, 'documented-sum'),
                                     '%s = %r at point %d' % (
                                         'gain * sum (m/rho0) W f with the constants of the arrays '
                                         'currently set' if method == 'sphc' else 'sum (m/rho) W f',
                                         want, i), repr(got)))
        elif method == 'splash_norm':
            den = sum(v * w for (w, v, f) in con)
            num = sum(v * w * f for (w, v, f) in con)
            sabs = sum(abs(v * w * f) for (w, v, f) in con)
            if not con:
                if got != 0.0:
                    out['fails'].append(('C14:splash_norm:zero-out-of-range',
                                         '0.0 at point %d' % i, repr(got)))
                continue
            if abs(den - TOL12) <= 1e-6 * TOL12:
                continue
            want = num / den if den > TOL12 else num
            sc = sabs / abs(den) if den > TOL12 else sabs
            c('oracle:documented-sum')
            if not (abs(got - want) <= REL * sc + 1e-300):
                out['fails'].append((fail_key(ses, method, 'documented-sum'),
                                     'normalised sum = %r at point %d' % (want, i), repr(got)))
    return out


def fail_key(ses, method, what):
    return 'C14:%s:%s' % (method, what)


def order1_sources(ses, srcs):
    """the source particles order1's sums range over, with the volume the METHOD
    defines for them: V_j = m_j / rho_j with rho_j the summation density
    rho_j = sum_k m_k W(r_jk, (h_j+h_k)/2) over ALL particles of all source
    arrays (real or not: a Remote/ghost tagged particle is a source like any
    other) -- with a periodic domain over the real particles and their periodic
    images.  Computed here by brute force: order1 computes the density itself
    (first group), the user's rho is not an input (it may be absent = 0.0) and
    nothing is taken from the rho the implementation left in the arrays.
    Returns a list of (pos, h, V, f)."""
    cfg = ses.cfg
    k = ses.kernel
    sh = shifts_for(cfg, ses.S)
    P = []      # (pos, h, m, f) of every particle the sums range over
    base = []   # index into P of the unshifted copy
    for s in srcs:
        for j in range(len(s['x'])):
            if cfg['periodic'] and s['tag'][j] != 0:
                continue
            for t in sh:
                if t == (0.0, 0.0, 0.0):
                    base.append(len(P))
                P.append(((s['x'][j] + t[0], s['y'][j] + t[1], s['z'][j] + t[2]),
                          s['h'][j], s['m'][j], s['f'][j]))
    if not P:
        return []
    X = np.array([q[0] for q in P])
    Hh = np.array([q[1] for q in P])
    rs = float(k.radius_scale)
    rho = {}
    for b in base:
        pos, h, m, f = P[b]
        r = np.sqrt(((X - np.array(pos)) ** 2).sum(axis=1))
        near = np.nonzero(r <= rs * 0.5 * (h + Hh) * (1 + 1e-9) + 1e-300)[0]
        tot = 0.0
        for kk in near.tolist():
            w, _ = kern(k, pos, P[kk][0], 0.5 * (h + P[kk][1]), False)
            tot += P[kk][2] * w
        rho[b] = tot
    out = []
    nsh = len(sh)
    for idx, q in enumerate(P):
        b = base[idx // nsh]        # images carry the density of their original
        d = rho[b]
        out.append((q[0], q[1], (q[2] / d) if d > 0.0 else float('inf'), q[3]))
    return out


def oracle_order1(ses, op, i, dpos, hd, o1src, tgt, got, out, c):
    """order1 reproduces a linear field and its gradient where the moment matrix
    (brute force, with the volumes the method defines: m / summation density)
    is well conditioned, and the values it returns there are finite"""
    cfg = ses.cfg
    case = ses.case
    dim = cfg['dim']
    n = dim + 1
    k = ses.kernel
    M = np.zeros((4, 4))
    b = np.zeros(4)
    fmax = 0.0
    rs = float(k.radius_scale)
    for (spos, hs, V, fj) in o1src:
        hij = 0.5 * (hd + hs)
        if max(abs(dpos[0] - spos[0]), abs(dpos[1] - spos[1]),
               abs(dpos[2] - spos[2])) > rs * hij * (1 + 1e-9):
            continue
        w, g = kern(k, dpos, spos, hij, True)
        if w == 0.0 and g == [0.0, 0.0, 0.0]:
            continue
        xij = [dpos[t] - spos[t] for t in range(3)]
        row0 = [w * V] + [-xij[t] * w * V for t in range(3)]
        for cc in range(4):
            M[0, cc] += row0[cc]
        for r in range(3):
            M[r + 1, 0] += g[r] * V
            for t in range(3):
                M[r + 1, t + 1] += -xij[t] * g[r] * V
        # right-hand side from the REQUESTED property's values
        fmax = max(fmax, abs(fj))
        b[0] += fj * w * V
        for r in range(3):
            b[r + 1] += fj * g[r] * V
    Mn = M[:n, :n]
    if not np.all(np.isfinite(Mn)) or abs(Mn[0, 0]) < 1e-3:
        c('oracle:order1-skipped-illconditioned')
        return
    # scale-free conditioning: rows/cols carry different units (W, dW ~ W/h)
    D = np.diag([1.0] + [hd] * dim)
    Ms = D @ Mn @ D
    try:
        cond = np.linalg.cond(Ms)
        minors = [abs(np.linalg.det(Ms[:t, :t])) for t in range(1, n + 1)]
    except Exception:           # noqa
        cond = np.inf
        minors = [0.0]
    if not (cond < 1e4) or min(minors) < 1e-4:
        c('oracle:order1-skipped-illconditioned')
        return
    comp = op['comp']
    if comp > dim:
        # components beyond the dimension are not solved for: they stay 0
        c('oracle:order1-unused-component')
        if got != 0.0:
            out['fails'].append(('C14:order1:unused-component',
                                 '0.0 for comp %d in %d-D at point %d' % (comp, dim, i), repr(got)))
        return
    if cfg['periodic']:
        # The ghosts the domain manager makes are the sources here and the
        # density the first group computes for a ghost (from the ghosts within
        # ITS range, one cell deep) is not that of its original, so the volumes
        # differ from the periodic sums above.  What does not depend on the
        # volumes (any finite positive ones): the value is finite, and a
        # constant field is reproduced with zero gradient.
        c('oracle:order1-periodic-finite')
        if not math.isfinite(got):
            out['fails'].append(('C14:order1:finite',
                                 'a finite value for comp %d of %r at point %d (moment matrix '
                                 'well conditioned: cond %.3g)' % (comp, op['prop'], i, cond),
                                 repr(got)))
            return
        if op['prop'] == 'c':
            want = case['const'] if comp == 0 else 0.0
            c('oracle:order1-linear-reproduction')
            tol = 1e-7 * (abs(case['const']) + 1.0) * (1.0 if comp == 0 else 1.0 / hd)
            if not (abs(got - want) <= tol):
                out['fails'].append(('C14:order1:linear-reproduction',
                                     'comp %d of the constant field = %r at point %d (cond %.3g)'
                                     % (comp, want, i, cond), repr(got)))
        return
    # any property: the value is the solution of the documented moment system
    # M (f, grad f) = sum_j f_j (W, grad W) V_j with f_j the requested property
    # (0.0 for the particles of an array that lacks it)
    try:
        sol = np.linalg.solve(Mn, b[:n])
    except Exception:           # noqa
        sol = None
    if sol is not None and np.all(np.isfinite(sol)):
        c('oracle:order1-moment-system')
        tol = 1e-7 * (fmax + 1.0) * (1.0 if comp == 0 else 1.0 / hd)
        if not (abs(got - sol[comp]) <= tol):
            what = 'moment-system'
            if dim == 3 and ses.computes_on_points > 1:
                what = '3d-repeat-call'
            out['fails'].append(('C14:order1:%s' % what,
                                 'comp %d of the solution of the moment system for %r = %r '
                                 'at point %d (cond %.3g)' % (comp, op['prop'], float(sol[comp]), i, cond),
                                 repr(got)))
            return
    if op['prop'] not in ('lin', 'c'):
        return
    lin = case['lin'] if op['prop'] == 'lin' else [case['const'], 0.0, 0.0, 0.0]
    want_all = [lin[0] + lin[1] * dpos[0] + lin[2] * dpos[1] + lin[3] * dpos[2],
                lin[1], lin[2], lin[3]]
    scale = abs(lin[0]) + abs(lin[1]) + abs(lin[2]) + abs(lin[3]) + 1.0
    c('oracle:order1-linear-reproduction')
    want = want_all[comp]
    tol = 1e-7 * scale * (1.0 if comp == 0 else 1.0 / hd)
    if not (abs(got - want) <= tol):
        what = 'linear-reproduction'
        if dim == 3 and ses.computes_on_points > 1:
            what = '3d-repeat-call'
        out['fails'].append(('C14:order1:%s' % what,
                             'comp %d of linear field = %r at point %d (cond %.3g)'
                             % (comp, want, i, cond), repr(got)))


# --------------------------------------------------------------------------
# one case: run the history, collect lines, compare

def run_case(case, R_like):
    """runs the history on the real code.  Returns a dict merged by main."""
    cfg = case['cfg']
    rec = {'disagreements': [], 'fails': [], 'counts': {}, 'evals': 0,
           'nontrivial': False, 'notes': [], 'sample': None}

    def c(key, n=1):
        rec['counts'][key] = rec['counts'].get(key, 0) + n
    obs = []
    try:
        ses = Session(case)
    except ImplError as e:
        rec['fails'].append({'key': 'C14:%s:raises' % cfg['method'],
                             'demand': 'construction succeeds', 'observed': str(e)})
        return rec
    # the model decides whether neighbour lists are current; mirror its rule
    # here only to know when NOT to interpolate (an out-of-contract call)
    stale = False
    peer = None             # the second evaluator over the same source arrays
    peer_stale = False
    try:
        for t, op in enumerate(case['ops']):
            if op['op'] == 'peer':
                pc = peer_cfg(cfg)
                if pc is None:
                    raise SystemExit('harness: peer op in a configuration without peers')
                if peer is None:
                    if not op.get('points'):
                        raise SystemExit('harness: first peer op without points')
                    pcase = dict(case, cfg=pc, points=op['points'], default_kernel=False)
                    peer = Session(pcase, share=ses)
                    peer_stale = False
                    c('peer:created')
                else:
                    if peer_stale:
                        # the shared arrays moved since: its own update()
                        peer.do_update(True)
                        peer_stale = False
                        c('peer:update')
                    if op.get('points'):
                        peer.apply({'op': 'newpoints', 'points': op['points']})
                        c('peer:newpoints')
                for call in op['calls']:
                    res = peer.interpolate(call['prop'], call['comp'])
                    where = 'op %d second evaluator (%s) interpolate(%s,%d)' % (
                        t, pc['kernel'], call['prop'], call['comp'])
                    o = observe(peer, call, res, where)
                    o['op_index'] = t
                    obs.append(o)
                    c('peer:interp')
                    c('peer:interp:%s' % ('other-kernel' if pc['kernel'] != cfg['kernel']
                                          else 'same-configuration'))
                c('op:peer')
                continue
            if op['op'] == 'interp':
                if stale:
                    c('interp-skipped-stale-neighbours')
                    continue
                prop = op['prop']
                res = ses.interpolate(prop, op['comp'])
                where = 'op %d interpolate(%s,%d)' % (t, prop, op['comp'])
                o = observe(ses, op, res, where)
                o['op_index'] = t
                obs.append(o)
                c('interp:%s' % prop)
                c('after:%s' % (case['ops'][t - 1]['op'] if t else 'construction'))
                if ses.computes_on_points > 1 and t and case['ops'][t - 1]['op'] in ('touch', 'peer'):
                    c('interp-again-on-same-bindings-after:%s' % case['ops'][t - 1]['op'])
            else:
                ses.apply(op)
                c('op:%s' % op['op'])
                if op['op'] in ('mutate', 'movepoints'):
                    stale = not op['update']
                    if stale:
                        c('history-left-stale')
                elif op['op'] == 'touch':
                    # data only: neighbour lists that were current stay current
                    # (an update() that comes with it makes them current)
                    c('touch:%s' % '+'.join(sorted(k for k, v in op['set'].items() if v)))
                    if op['update']:
                        stale = False
                    else:
                        c('touch:without-update')
                else:
                    # a rebinding builds a new neighbour structure
                    stale = False
                if peer is not None:
                    if op['op'] == 'newarrays':
                        peer.follow(ses)
                        peer_stale = False
                    else:
                        peer.specs = list(ses.specs)
                        if op['op'] == 'mutate':
                            peer_stale = True
    except ImplError as e:
        rec['fails'].append({'key': 'C14:%s:raises' % cfg['method'],
                             'demand': 'operation %d of the history succeeds' % t,
                             'observed': str(e)})
        c('history-aborted-by-exception')
    # ---- driver: binding lines first (stateful), then the point lines
    if peer is not None:
        # the second evaluator's target points (ravel / smoothing length lines)
        ses.rlines = ses.rlines + peer.rlines
    lines = list(ses.blines) + [r[0] for r in ses.rlines]
    for o in obs:
        lines += o['lines']
    outl = H.run_model('C14', lines)
    if len(outl) != len(lines):
        raise SystemExit('model driver answered %d lines for %d' % (len(outl), len(lines)))
    nb = len(ses.blines)
    # ---- the flattening of the caller's coordinate arrays into target particles
    for (ln, exp, where, kinds), m in zip(ses.rlines, outl[nb:nb + len(ses.rlines)]):
        rec['evals'] += 1
        for kk in kinds:
            c(kk)
        if m != exp:
            rec['disagreements'].append({'case': short(case), 'where': where,
                                         'model': m[:400], 'impl': exp[:400]})
    outl = outl[:nb] + outl[nb + len(ses.rlines):]
    for ln, m, ob, st in zip(ses.blines, outl[:nb], ses.bobs, ses.bstale):
        if cfg['api'] == 'interp':
            want = 'filled=%s evaluated=%s binned=%s result=%d consts=%s' % (
                H.ilist(ob['filled']), H.ilist(ob['evaluated']), H.ilist(ob['binned']),
                ob['result'], H.ilist(ob['consts']))
            mm = m.rsplit(' current=', 1)[0]
        else:
            # SPHEvaluator fills nothing itself: only what it evaluates / binned
            # and whose constants it reads
            want = 'evaluated=%s binned=%s consts=%s' % (
                H.ilist(ob['evaluated']), H.ilist(ob['binned']), H.ilist(ob['consts']))
            mm = ' '.join(t for t in m.split(' ')
                          if t.startswith(('evaluated=', 'binned=', 'consts=')))
        if mm != want or not ob['evalnnps']:
            rec['disagreements'].append({'case': short(case), 'where': 'bindings after ' + ln,
                                         'model': m, 'impl': want + ' evalnnps=%s' % ob['evalnnps']})
        # the model's `current` flag against the contract (an in-place change
        # makes the neighbour lists stale until update() or a rebinding)
        if not m.endswith(' current=%s' % ('false' if st else 'true')):
            rec['disagreements'].append({'case': short(case), 'where': 'currency after ' + ln,
                                         'model': m, 'impl': 'contract says stale=%s' % st})
        c('binding-states-compared')
    # the model's `current` flag must agree with the harness' reading of the
    # contract (stale <=> an in-place change not followed by update)
    pos = nb
    for o in obs:
        for (kind, where, exp, extra), m in zip(o['expect'], outl[pos:pos + len(o['lines'])]):
            rec['evals'] += 1
            if kind == 'order1':
                cmp_order1(case, where, exp, extra, m, rec, c)
            elif kind == 'o1':
                # the density the call left in the arrays bit for bit; value,
                # moment matrix and right-hand side as for the per-point lines
                mm, _, mr = m.partition(' rho ')
                ee, _, er = exp.partition(' rho ')
                if not same_floats('rho ' + mr, 'rho ' + er, 'rho '):
                    rec['disagreements'].append({'case': short(case), 'where': where + ' rho left in the arrays',
                                                 'model': mr[:400], 'impl': er[:400]})
                else:
                    cmp_order1(case, where, ee, extra, mm, rec, c)
            elif kind == 'unflatten':
                if not same_floats(m, exp, 'res '):
                    rec['disagreements'].append({'case': short(case), 'where': where,
                                                 'model': m[:400], 'impl': exp[:400]})
            elif m != exp:
                rec['disagreements'].append({'case': short(case), 'where': where,
                                             'model': m, 'impl': exp})
        pos += len(o['lines'])
        for (key, demand, observed) in o['fails']:
            rec['fails'].append({'key': key, 'demand': demand + ' [op %d]' % o['op_index'],
                                 'observed': observed})
        for kk, v in o['counts'].items():
            c(kk, v)
        rec['nontrivial'] = rec['nontrivial'] or o['nontrivial']
    if obs:
        rec['sample'] = {'cfg': cfg, 'ops': [o['op'] for o in case['ops']],
                         'first_line_model': outl[nb][:120] if len(outl) > nb else None,
                         'first_line_impl': obs[0]['expect'][0][2][:120] if obs[0]['expect'] else None}
    return rec


def same_floats(m, exp, prefix):
    """bit-equal lists of doubles after `prefix`; any NaN equals any NaN (the
    values are only moved, but Lean's Float.toBits does not keep NaN payloads)"""
    if not (m.startswith(prefix) and exp.startswith(prefix)):
        return False
    a, b = m[len(prefix):].split(','), exp[len(prefix):].split(',')
    if len(a) != len(b):
        return False
    for x, y in zip(a, b):
        if x == y:
            continue
        if x == '_' or y == '_':
            return False
        try:
            fx, fy = H.bits2f(x), H.bits2f(y)
        except Exception:       # noqa
            return False
        if not (math.isnan(fx) and math.isnan(fy)):
            return False
    return True


def parse_vals(s):
    return [H.bits2f(t) for t in s.split(',')] if s != '_' else []


def cmp_order1(case, where, exp, extra, m, rec, c):
    """moment matrix and right-hand side bit-exact; the solution bit-exact, or —
    an incidental detail of the elimination order — within rounding of it"""
    pe = exp.split(' ')
    pm = m.split(' ')
    if len(pm) != 6 or pm[0] != 'val':
        rec['disagreements'].append({'case': short(case), 'where': where, 'model': m, 'impl': exp})
        return
    if pm[3] != pe[3] or pm[5] != pe[5]:
        rec['disagreements'].append({'case': short(case), 'where': where + ' moment/p_sph',
                                     'model': ' '.join(pm[2:]), 'impl': ' '.join(pe[2:])})
        return
    vm, vi = parse_vals(pm[1]), parse_vals(pe[1])
    if vi[extra['comp']] != extra['res'] and not (
            math.isnan(vi[extra['comp']]) and math.isnan(extra['res'])):
        rec['disagreements'].append({'case': short(case), 'where': where + ' returned component',
                                     'model': repr(vi[extra['comp']]), 'impl': repr(extra['res'])})
        return
    if pm[1] == pe[1]:
        c('order1-solution-bit-exact')
        return
    sc = max([abs(v) for v in vi] + [abs(v) for v in vm] + [1e-300])
    if all(abs(a - b) <= 1e-6 * sc for a, b in zip(vm, vi)):
        c('order1-solution-within-rounding-not-bit-exact')
        return
    rec['disagreements'].append({'case': short(case), 'where': where + ' solution',
                                 'model': pm[1], 'impl': pe[1]})


def short(case):
    return case


# --------------------------------------------------------------------------
# workers

def cfg_tag(cfg):
    return '%s/%s/%dD/%darr/%s%s' % (cfg['api'], cfg['method'], cfg['dim'], cfg['narr'],
                                    cfg['kernel'], '/periodic' if cfg['periodic'] else '')


def worker(args):
    """one process per configuration; the result goes to a file, the history
    being run is recorded first so that a crash of the real code (segfault in
    the compiled evaluator) can be attributed to a concrete input"""
    cfg, seed, ncases, extra, budget, outdir, idx = args
    t0 = time.time()
    rng = random.Random('%d/%s' % (seed, json.dumps(cfg, sort_keys=True)))
    recs = []
    res = {'cfg': cfg, 'recs': recs}
    cur = os.path.join(outdir, 'current-%d.json' % idx)
    try:
        cases = list(extra) + [gen_case(rng, cfg) for _ in range(ncases)]
        for ci, case in enumerate(cases):
            if os.getppid() != PARENT:      # the check timed out / was killed
                os._exit(1)
            if ci >= len(extra) + MIN_RANDOM and time.time() - t0 > budget:
                # a loaded machine: stop after the soft time budget (the corpus
                # and the first random histories always run); reported
                res['skipped'] = len(cases) - ci
                break
            with open(cur, 'w') as fh:
                json.dump(case, fh)
            rec = run_case(case, None)
            rec['fingerprint'] = json.dumps(case, sort_keys=True)[:200000]
            if rec['fails'] or rec['disagreements']:
                rec['case'] = case
            recs.append(rec)
    except BaseException:       # noqa
        res['error'] = traceback.format_exc()
    res['wall'] = time.time() - t0
    tmp = os.path.join(outdir, 'result-%d.json.tmp' % idx)
    with open(tmp, 'w') as fh:
        json.dump(res, fh)
    os.replace(tmp, os.path.join(outdir, 'result-%d.json' % idx))
    sys.stdout.flush()
    os._exit(0)


MIN_RANDOM = 3


def budgets(tier, njobs, nproc, search=False):
    """(soft, hard) seconds per configuration job.  soft: the worker starts no
    new history after it; hard: the job is killed (machinery error, the check
    never hangs).  Sized so that all waves of jobs end within ~2.5 min (quick) /
    ~22 min (thorough) even when the machine is so loaded that the budget, not
    the number of histories, ends the jobs."""
    waves = max(1, -(-njobs // nproc))
    total = 150.0 if tier == 'quick' else 1300.0
    if search:
        total *= 0.6
    soft = total / waves
    return soft, 2.0 * soft + 420.0


def run_jobs(jobs, outdir, nproc, hard=None):
    """run worker(job) for every job in its own process, at most nproc at a
    time; returns the list of results (a dict with 'crash' when the process
    died without a result).  A job still running `hard` seconds after its start
    is killed: result with 'timeout'."""
    os.makedirs(outdir, exist_ok=True)
    ctx = mp.get_context('fork')
    pending = list(enumerate(jobs))
    running = {}
    started = {}
    timed_out = set()
    results = [None] * len(jobs)
    while pending or running:
        while pending and len(running) < nproc:
            idx, job = pending.pop(0)
            for f in ('current-%d.json' % idx, 'result-%d.json' % idx):
                try:
                    os.unlink(os.path.join(outdir, f))
                except OSError:
                    pass
            pr = ctx.Process(target=worker, args=(job + (outdir, idx),))
            pr.start()
            running[idx] = pr
            started[idx] = time.time()
        for idx, pr in list(running.items()):
            pr.join(timeout=0.2)
            if pr.is_alive():
                if hard is not None and time.time() - started[idx] > hard:
                    pr.kill()
                    pr.join()
                    timed_out.add(idx)
                else:
                    continue
            del running[idx]
            rf = os.path.join(outdir, 'result-%d.json' % idx)
            if os.path.exists(rf):
                results[idx] = json.load(open(rf))
            else:
                case = None
                cf = os.path.join(outdir, 'current-%d.json' % idx)
                if os.path.exists(cf):
                    try:
                        case = json.load(open(cf))
                    except ValueError:
                        case = None
                results[idx] = {'cfg': jobs[idx][0], 'recs': [], 'wall': 0.0,
                                'crash': pr.exitcode, 'case': case}
                if idx in timed_out:
                    results[idx]['timeout'] = hard
    return results


def corpus(cfg):
    """minimised past failures, per configuration; run first"""
    out = []
    if cfg['method'] == 'order1' and cfg['dim'] == 3 and cfg['api'] == 'interp':
        # 3-D order1, several interpolate calls on the same points: p_sph[3]
        # was not reset between calls (fixed by 34a0735)
        rng = random.Random(14)
        case = gen_case(rng, cfg, nops=0, scale=1.0, dtype='float64')
        case['points'] = {'kind': 'explicit', 'x': [0.4, 0.55, 0.5], 'y': [0.5, 0.45, 0.6],
                          'z': [0.5, 0.5, 0.42], 'shape': None}
        case['ops'] = [{'op': 'interp', 'prop': 'lin', 'comp': 0},
                       {'op': 'interp', 'prop': 'lin', 'comp': 3},
                       {'op': 'interp', 'prop': 'lin', 'comp': 0},
                       {'op': 'interp', 'prop': 'lin', 'comp': 1}]
        out.append(case)
    if cfg['api'] == 'interp' and cfg['narr'] >= 2:
        # staging loop of interpolate: an array that LACKS the requested
        # property must be staged as zeros even when its temp_prop is in use
        # (seeded defect C14-A: `continue` instead of `data = 0.0`, so the
        # values of the previously interpolated property were used).  Needs two
        # arrays with different property sets and a history.
        narr = cfg['narr']
        psets = {'q': [a == 0 for a in range(narr)],
                 'r': [a != 0 for a in range(narr)]}
        small = not cfg['periodic']     # periodic: support << box, keep it populated
        mid = {'kind': 'explicit', 'x': [0.3, 0.5, 0.7],
               'y': [0.4, 0.6, 0.5] if cfg['dim'] > 1 else [0.0] * 3,
               'z': [0.5, 0.45, 0.6] if cfg['dim'] > 2 else [0.0] * 3, 'shape': None}
        # (a) a property every array has, then one only the first array has
        case = gen_case(random.Random(1401), cfg, nops=0, psets=psets, small=small,
                        prefill=0.0, scale=1.0, dtype='float64')
        case['points'] = mid
        case['ops'] = [{'op': 'interp', 'prop': 'p', 'comp': 0},
                       {'op': 'interp', 'prop': 'q', 'comp': 0},
                       {'op': 'interp', 'prop': 'r', 'comp': 0}]
        out.append(case)
        # (b) arrays that arrive with a used temp_prop, at construction and
        # through update_particle_arrays; the first call already asks for a
        # property that some arrays lack
        rng = random.Random(1402)
        case = gen_case(rng, cfg, nops=0, psets=psets, small=small, prefill=1.0,
                        scale=1.0, dtype='float64')
        case['points'] = mid
        again = gen_arrays(rng, cfg, case['lin'], case['const'], psets, 1.0, small)
        case['ops'] = [{'op': 'interp', 'prop': 'q', 'comp': 0},
                       {'op': 'newarrays', 'arrays': again},
                       {'op': 'interp', 'prop': 'r', 'comp': 0},
                       {'op': 'interp', 'prop': 'absent', 'comp': 0}]
        out.append(case)
    if cfg['api'] == 'interp':
        # explicit target points handed over as N-d arrays that are not C
        # contiguous: result[idx] must be the value at (x[idx], y[idx], z[idx])
        # (round-2 seed A: `x.ravel(order='K')` created the target particles in
        # MEMORY order while interpolate un-flattens in logical order).  A
        # Fortran-ordered 2x3 at construction, then set_interpolation_points
        # with an axis-permuted 2x2x3 whose x, y, z are laid out differently.
        rng = random.Random(1403)
        case = gen_case(rng, cfg, nops=0, prefill=0.0, scale=1.0, dtype='float64')
        d = cfg['dim']
        lo, hi = (0.1, 0.9)

        def pts(shape, layouts):
            n = int(np.prod(shape))
            q = {'kind': 'explicit', 'shape': shape, 'layout': layouts}
            for k, key in enumerate('xyz'):
                q[key] = [rng.uniform(lo, hi) if k < d else 0.0 for _ in range(n)]
            return q
        F = gen_layout(rng, [2, 3], 'F')
        case['points'] = pts([2, 3], {'x': F, 'y': F, 'z': F})
        sh = [2, 2, 3]
        second = pts(sh, {'x': gen_layout(rng, sh, 'P'), 'y': gen_layout(rng, sh, 'SF'),
                          'z': gen_layout(rng, sh, 'mix')})
        prop = 'lin' if cfg['method'] == 'order1' else 'p'
        case['ops'] = [{'op': 'interp', 'prop': prop, 'comp': 0},
                       {'op': 'newpoints', 'points': second},
                       {'op': 'interp', 'prop': prop, 'comp': 0}]
        out.append(case)
    if cfg['method'] == 'order1' and cfg['api'] == 'interp':
        # order1 computes the density of EVERY source particle itself, also of
        # Remote-tagged particles and periodic ghosts (first group, real=False):
        # arrays built without rho (0.0) are valid input.  (round-2 seed B: the
        # group ran with real=True, the non-real neighbours kept rho = 0, their
        # volume m/rho was infinite and interpolate returned NaN near them.)
        rng = random.Random(1404)
        case = gen_case(rng, cfg, nops=0, prefill=0.0,
                        force_tagged=not cfg['periodic'], force_norho=True,
                        scale=1.0, dtype='float64')
        d = cfg['dim']
        n = 8
        q = {'kind': 'explicit', 'shape': None}
        for k, key in enumerate('xyz'):
            if k >= d:
                q[key] = [0.0] * n
            elif cfg['periodic']:
                # next to the periodic boundaries: ghosts within range
                q[key] = [rng.choice([rng.uniform(0.005, 0.06), rng.uniform(0.94, 0.995)])
                          if (k == 0 or rng.random() < 0.5) else rng.uniform(0.1, 0.9)
                          for _ in range(n)]
            else:
                q[key] = [rng.uniform(0.2, 0.8) for _ in range(n)]
        case['points'] = q
        again = gen_arrays(rng, cfg, case['lin'], case['const'], case['psets'], 0.0, False,
                           not cfg['periodic'], True)
        case['ops'] = [{'op': 'interp', 'prop': 'c' if cfg['periodic'] else 'lin', 'comp': 0},
                       {'op': 'interp', 'prop': 'c' if cfg['periodic'] else 'lin', 'comp': 1},
                       {'op': 'newarrays', 'arrays': again},
                       {'op': 'interp', 'prop': 'p', 'comp': 0},
                       {'op': 'interp', 'prop': 'c', 'comp': d}]
        out.append(case)
    if cfg['api'] == 'interp':
        # the dtype of the caller's coordinate arrays must not matter: an integer
        # lattice given as an int64 N-d array (np.mgrid[1:4, 1:4]) at
        # construction, then float32 points, a Python list of ints, arrays of
        # mixed dtypes (x int32).  (round-3 seed A: `h = np.full_like(xr, hmax)`
        # gave the target particles h = int(hmax) = 0.)  Box [0, 4]^d.
        rng = random.Random(1405)
        S = 4.0
        case = gen_case(rng, cfg, nops=0, prefill=0.0, scale=S, dtype='float64')
        d = cfg['dim']
        axes = {1: [[1, 2, 3]], 2: [[1, 2, 3], [1, 2, 3]], 3: [[1, 3], [1, 2], [2, 3]]}[d]
        shape = [len(a) for a in axes]
        n = int(np.prod(shape))

        def lattice(shaped, dts, container='ndarray'):
            q = {'kind': 'explicit', 'shape': shape if shaped else None,
                 'dtype': dts, 'container': container}
            for k, key in enumerate('xyz'):
                q[key] = [float(axes[k][idx[k]]) if k < d else 0.0
                          for idx in np.ndindex(*shape)]
            if container != 'list':
                L = gen_layout(rng, shape if shaped else [n], 'F' if shaped and d > 1 else 'C')
                q['layout'] = {key: L for key in 'xyz'}
            return q

        def scattered(dts):
            q = {'kind': 'explicit', 'shape': None, 'dtype': dts, 'container': 'ndarray',
                 'layout': {key: gen_layout(rng, [6], 'C') for key in 'xyz'}}
            for k, key in enumerate('xyz'):
                q[key] = [S * rng.uniform(0.15, 0.85) if k < d else 0.0 for _ in range(6)]
            return quantize_points(q)
        case['points'] = lattice(True, {key: 'int64' for key in 'xyz'})
        prop = 'lin' if cfg['method'] == 'order1' else 'p'
        io = {'op': 'interp', 'prop': prop, 'comp': 0}
        case['ops'] = [
            dict(io),
            {'op': 'newpoints', 'points': scattered({key: 'float32' for key in 'xyz'})},
            dict(io),
            {'op': 'newpoints', 'points': lattice(False, {key: 'int64' for key in 'xyz'}, 'list')},
            dict(io),
            {'op': 'newpoints', 'points': scattered({'x': 'int32', 'y': 'float64', 'z': 'float32'})},
            dict(io)]
        out.append(case)
    if True:
        # state shared between calls and between evaluators: data of the source
        # arrays changed in place WITHOUT update() (masses, densities, property
        # values: the neighbour lists stay valid), and a second Interpolator /
        # SPHEvaluator over the same arrays running in between (it writes their
        # temp_prop and, with order1, their rho); every interpolate() must give
        # the defining sums of the data as they are at the call.  (round-4 seed
        # B: order1 skipped SummationDensity and the moment-matrix group on later
        # calls "when nothing moved": the matrix of an earlier call was solved
        # against a right-hand side with the present volumes.)
        rng = random.Random(1407)
        case = gen_case(rng, cfg, nops=0, prefill=0.0, scale=1.0, dtype='float64',
                        force_tagged=False)
        d = cfg['dim']
        o1 = cfg['method'] == 'order1'
        n = 6
        q = {'kind': 'explicit', 'shape': None}
        for k, key in enumerate('xyz'):
            q[key] = [rng.uniform(0.25, 0.75) if k < d else 0.0 for _ in range(n)]
        if cfg['api'] != 'interp':
            q['gain'] = 1.25
        case['points'] = q
        cur = list(case['arrays'])
        prop = 'lin' if o1 else 'p'
        ops = [{'op': 'interp', 'prop': prop, 'comp': 0}]

        def touch(k, what):
            op = gen_touch(rng, cfg, cur, k=k, what=what)
            cur[k] = touched_spec(cur[k], op)
            ops.append(op)
        touch(0, 'm')
        ops.append({'op': 'interp', 'prop': prop, 'comp': 1 if o1 else 0})
        if peer_cfg(cfg) is not None:
            pq = {'kind': 'explicit', 'shape': None}
            for k, key in enumerate('xyz'):
                pq[key] = [rng.uniform(0.2, 0.8) if k < d else 0.0 for _ in range(4)]
            if cfg['api'] != 'interp':
                pq['gain'] = 0.75
            ops.append({'op': 'peer', 'points': pq,
                        'calls': [{'prop': 'q', 'comp': 0}, {'prop': prop, 'comp': 0}]})
            ops.append({'op': 'interp', 'prop': prop, 'comp': 0})
            ops.append({'op': 'interp', 'prop': prop, 'comp': d if o1 else 0})
        touch(cfg['narr'] - 1, 'all')
        ops.append({'op': 'interp', 'prop': 'p', 'comp': 0})
        ops.append({'op': 'interp', 'prop': prop, 'comp': 0})
        if peer_cfg(cfg) is not None:
            ops.append({'op': 'peer', 'points': None, 'calls': [{'prop': 'c', 'comp': 0}]})
            touch(0, 'rho')
            ops.append({'op': 'interp', 'prop': 'c' if o1 else 'q', 'comp': 0})
        if not cfg['periodic']:
            # ... and the smoothing lengths GROW in place, followed by update():
            # the cell size of the neighbour structure must follow (round-1 seed
            # B: update() skipped update_domain without a domain manager)
            mut = gen_mutate(rng, cfg, cur, case['lin'], case['const'], case['psets'], k=0)
            hmax = max(max(sp['h']) for sp in cur)
            mut['new']['h'] = [1.8 * hmax] * len(mut['new']['h'])
            mut['update'] = True
            mut['update_domain'] = True
            cur[0] = mut['new']
            ops.append(mut)
            ops.append({'op': 'interp', 'prop': prop, 'comp': 0})
        case['ops'] = ops
        out.append(case)
    if cfg['method'] == 'sphc':
        # equations that read array constants: the arrays are replaced by arrays
        # with other constants, a constant is changed in place, the points (the
        # SPHEvaluator's destination array with ITS constant) are replaced.
        # (round-3 seed B: ParticleArrayWrapper bound the constants only when
        # constructed; after update_particle_arrays the old arrays' were read.)
        rng = random.Random(1406)
        case = gen_case(rng, cfg, nops=0, prefill=0.0, scale=1.0, dtype='float64')
        psets = case['psets']
        again = gen_arrays(rng, cfg, case['lin'], case['const'], psets)
        mut = gen_mutate(rng, cfg, again, case['lin'], case['const'], psets, k=0)
        mut['update'] = True
        third = gen_arrays(rng, cfg, case['lin'], case['const'], psets)
        io = {'op': 'interp', 'prop': 'p', 'comp': 0}
        case['ops'] = [
            dict(io),
            {'op': 'newarrays', 'arrays': again}, dict(io),
            mut, dict(io),
            {'op': 'newpoints', 'points': gen_points(rng, cfg, again, allow_grid=False,
                                                     dtype='float64')},
            dict(io),
            {'op': 'movepoints', 'seed': 77, 'update': True}, dict(io),
            {'op': 'newarrays', 'arrays': third}, {'op': 'interp', 'prop': 'q', 'comp': 0}]
        out.append(case)
    return out


def merge(R, results):
    for res in results:
        cfg = res['cfg']
        tag = cfg_tag(cfg)
        if 'timeout' in res:
            # machinery trouble, not a verdict: the job was killed
            raise SystemExit('worker for %s still running after %.0f s: killed; it was on history %s'
                             % (tag, res['timeout'], json.dumps(res.get('case'))[:2000]))
        if 'crash' in res:
            code = res['crash']
            if code in (-11, -6, -7, -8, -4) and res.get('case') is not None:
                # SIGSEGV/ABRT/BUS/FPE/ILL inside the real code on a valid history
                R.prop_fail('C14:%s:crash' % cfg['method'], res['case'],
                            'interpolation of this history returns values',
                            'the process died with signal %d' % (-code))
                R.count('config-crashed:' + tag)
                continue
            raise SystemExit('worker for %s died with exit code %r' % (tag, code))
        if 'error' in res:
            raise SystemExit('worker for %s failed:\n%s' % (tag, res['error']))
        R.count('config:' + tag, len(res['recs']))
        R.note('config %s: %d histories in %.0fs' % (tag, len(res['recs']), res['wall']))
        if res.get('skipped'):
            R.count('histories-not-run-time-budget', res['skipped'])
            R.note('config %s: %d generated histories not run (soft time budget reached)'
                   % (tag, res['skipped']))
        for rec in res['recs']:
            for d in rec['disagreements']:
                R.disagree(d['case'], d['model'], d['impl'], d['where'])
            for f in rec['fails']:
                R.prop_fail(f['key'], rec.get('case'), f['demand'], f['observed'])
            for kk, v in rec['counts'].items():
                R.count(kk, v)
            R.case(rec['fingerprint'], rec['nontrivial'], rec['sample'])
            R.d['evaluations'] += max(rec['evals'] - 1, 0)
            R.d['traces_validated_against_impl'] += 1


def main():
    a = H.args()
    R = H.Result(
        'case = one history on one Interpolator/SPHEvaluator (construction from 1-3 source '
        'arrays whose property sets may differ and which may arrive with a used temp_prop, '
        'then 1-16 operations among interpolate of various properties in sequence / in-place '
        'change + update / update_particle_arrays / set_interpolation_points / set_domain / '
        'moved points / in-place change of masses, densities, property values, constants WITHOUT '
        'update / calls of a second Interpolator or SPHEvaluator built over the same source arrays '
        '(order1: with another kernel); explicit points as 1-d to 4-d arrays in C / Fortran / permuted / strided / '
        'reversed memory layouts and as float64 / float32 / int64 / int32 arrays or Python lists, '
        'in the unit box or a box of side 4 or 6; every array with constants of its own, read by '
        'user-supplied equations in the sphc configurations; order1 arrays with or without rho, '
        'with Remote-tagged particles and periodic ghosts); evaluations = destination points (and, for order1, summation-density '
        'values; per interpolate call and source array the staged temp_prop; per creation of '
        'target points their coordinates and smoothing lengths) compared bit for '
        'bit with the model, plus one per history; distinct = distinct history JSON; non-trivial = some '
        'destination point with at least two listed neighbours')
    load_probes(a.work)
    if a.replay:
        rp = json.load(open(a.replay))
        case = rp['case']
        outdir = os.path.join(a.work, 'c14-replay')
        res = run_jobs([(case['cfg'], 0, 0, [case], 1e9)], outdir, 1, hard=1200.0)[0]
        if 'timeout' in res:
            raise SystemExit('replay still running after 1200 s: killed')
        if 'crash' in res:
            print('the history kills the process: exit code %r' % res['crash'])
            sys.exit(1)
        if 'error' in res:
            raise SystemExit(res['error'])
        rec = res['recs'][0]
        print(json.dumps({'property_failures': rec['fails'],
                          'disagreements': [{'where': d['where'], 'model': d['model'][:200],
                                             'impl': d['impl'][:200]}
                                            for d in rec['disagreements']]}, indent=1))
        sys.exit(1 if rec['fails'] else 0)
    cfgs = configs(a.tier)
    only = os.environ.get('C14_ONLY')
    if only:
        cfgs = [cf for cf in cfgs if only in '%(api)s/%(method)s/%(dim)dD' % cf]
    ncases = 8 if a.tier == "quick" else 60
    if os.environ.get('C14_NCASES'):        # debugging aid
        ncases = int(os.environ['C14_NCASES'])
    if a.broken:
        ncases *= 2
    nproc = min(len(cfgs), max(2, os.cpu_count() or 4), 16)
    soft, hard = budgets(a.tier, len(cfgs), nproc)
    jobs = [(cfg, a.seed, ncases, corpus(cfg), soft) for cfg in cfgs]
    outdir = os.path.join(a.work, 'c14-results')
    merge(R, run_jobs(jobs, outdir, nproc, hard))
    if a.broken or R.d['disagreements']:
        # wider failing-input search on the real code, same configurations
        # (they are compiled already), other seeds
        soft, hard = budgets(a.tier, len(cfgs), nproc, search=True)
        jobs = [(cfg, a.seed + 1000003, ncases * 2, [], soft) for cfg in cfgs]
        before = len(R.d['property_failures'])
        merge(R, run_jobs(jobs, outdir + '-search', nproc, hard))
        R.d['search'] = {'extra_histories': len(jobs) * ncases * 2,
                         'found': len(R.d['property_failures']) - before}
    R.write(a.out)


if __name__ == '__main__':
    main()
