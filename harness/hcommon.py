"""Common parts of the correspondence harnesses.

A harness runs inside the scratch build's environment (PYTHONPATH puts the
scratch copy of /repo first).  It
  * generates structured cases from one random.Random(seed),
  * runs the real implementation and the Lean model (through the driver) on
    the same cases and diffs canonicalised outputs  -> `disagreements`,
  * evaluates the property's own predicate directly on the implementation
    -> `property_failures` (each with a `key` naming the failing class of
    inputs, which is what known_findings.json matches on),
  * writes a JSON result for lib/runcheck.py.
"""
import argparse
import json
import os
import random
import struct
import sys
import time
from fractions import Fraction

sys.path.insert(0, os.path.join(os.path.dirname(os.path.abspath(__file__)),
                                '..', 'lib'))
import vlib  # noqa: E402


def args():
    ap = argparse.ArgumentParser()
    ap.add_argument('--tier', default='quick')
    ap.add_argument('--seed', type=int, default=0)
    ap.add_argument('--work', default='.')
    ap.add_argument('--out', default='res.json')
    ap.add_argument('--broken', default='')
    ap.add_argument('--replay')
    return ap.parse_args()


def assert_scratch_import():
    """The implementation under test must be the scratch build of /repo's
    working tree, never the copy installed in site-packages."""
    import pysph
    want = os.environ.get('PYSPH_VERIF_SCRATCH_REPO')
    got = os.path.dirname(os.path.dirname(os.path.abspath(pysph.__file__)))
    if want and os.path.realpath(got) != os.path.realpath(want):
        raise SystemExit('harness imported pysph from %s, expected %s'
                         % (got, want))


def fbits(x):
    return 'x%016x' % struct.unpack('>Q', struct.pack('>d', float(x)))[0]


def bits2f(s):
    return struct.unpack('>d', struct.pack('>Q', int(s[1:], 16)))[0]


def flist(xs):
    xs = list(xs)
    return ','.join(fbits(x) for x in xs) if xs else '_'


def qstr(x):
    """exact rational of a float / int / Fraction as p/q"""
    f = Fraction(x)
    return str(f.numerator) if f.denominator == 1 else '%d/%d' % (
        f.numerator, f.denominator)


def qlist(xs):
    xs = list(xs)
    return ','.join(qstr(x) for x in xs) if xs else '_'


def ilist(xs):
    xs = list(xs)
    return ','.join(str(int(x)) for x in xs) if xs else '_'


class Result:
    def __init__(self, rule):
        self.t0 = time.time()
        self.d = {
            'evaluations': 0, 'distinct_nontrivial': 0, 'rule': rule,
            'samples': [], 'distribution': {},
            'traces_validated_against_impl': 0,
            'disagreements': [], 'property_failures': [], 'notes': [],
            'search': None,
        }
        self._distinct = set()

    def count(self, key, n=1):
        d = self.d['distribution']
        d[key] = d.get(key, 0) + n

    def case(self, fingerprint, nontrivial, sample=None):
        self.d['evaluations'] += 1
        if nontrivial and fingerprint not in self._distinct:
            self._distinct.add(fingerprint)
            self.d['distinct_nontrivial'] += 1
        if sample is not None and len(self.d['samples']) < 6:
            self.d['samples'].append(sample)

    def disagree(self, case, model, impl, where=''):
        if len(self.d['disagreements']) < 50:
            self.d['disagreements'].append(
                {'case': case, 'model': model, 'impl': impl, 'where': where})

    def prop_fail(self, key, case, demand, observed):
        if len(self.d['property_failures']) < 200:
            self.d['property_failures'].append(
                {'key': key, 'case': case, 'demand': demand,
                 'observed': observed})

    def note(self, s):
        self.d['notes'].append(s)

    def write(self, path):
        with open(path, 'w') as fh:
            json.dump(self.d, fh, default=str)


def run_model(model, lines):
    return vlib.run_driver(model, lines)
