"""C10 correspondence + property oracle: the solver time loop.

impl  : pysph.solver.solver.Solver.solve() of the scratch build, with a stub
        integrator (records step(t, dt), returns a scripted adaptive sequence),
        `particles = []`, an in-memory `dump_output` recorder and recording
        pre/post step callbacks.
model : lean PysphVerif.Model.SolverLoop at Float; whole event traces are
        compared bit for bit.  The damping sine values are computed HERE from the
        documented formula and handed to the model as an oracle list.
oracle: the property statement evaluated directly on the implementation trace
        (independent of the model): reaches tf, strictly increasing time, step
        <= current step size, dumps at start/end/pfreq/requested times, never
        past a requested time, recorded dt nominal, callbacks once per step.
"""
import json
import math
import os
import random
import sys

import numpy as np

import hcommon as H

H.assert_scratch_import()
from pysph.solver.solver import Solver  # noqa: E402

# the solver's documented epsilon: numpy.finfo(float).eps*2  (NOT read from the code)
EPS = 2.0 ** -51
DEFAULT_MAX = 1 << 31


# --------------------------------------------------------------------------
# implementation side

class StepCap(Exception):
    pass


def step_bound(case):
    """A run that honours the property takes at most one step per damped
    iteration, tf/(smallest undamped step) full steps, one per requested time
    and one to land on tf.  Twice that (plus slack) is the cap after which the
    harness gives up on the implementation and reports non-termination."""
    us = [case['dt']] + [v for v in case['seq'] if v is not None]
    umin = min(us)
    n = case['n_damp'] + int(math.ceil(case['tf'] / umin)) + len(case['out']) + 5
    return 2 * n + 50


class StubIntegrator(object):
    def __init__(self, seq, log, solver_ref, cap):
        self.seq = seq
        self.k = 0
        self.log = log
        self.ref = solver_ref
        self.last_ret = None       # last non-None adaptive value returned
        self.cap = cap
        self.nsteps = 0

    def initial_acceleration(self, t, dt):
        pass

    def step(self, t, dt):
        s = self.ref[0]
        self.nsteps += 1
        if self.nsteps > self.cap:
            raise StepCap('more than %d steps' % self.cap)
        self.log.append(('s', float(t), float(dt), int(s.count),
                         float(s._damping_factor), self.last_ret))

    def compute_time_step(self, dt, cfl):
        k = self.k
        self.k += 1
        v = self.seq[k] if k < len(self.seq) else None
        if v is not None:
            self.last_ret = v
        return v

    def set_post_stage_callback(self, cb):
        pass


def damp_formula(count, n_damp):
    """documented factor, written as in the docstring of _damp_timestep with
    the iteration fraction (count+1)/n_damp; numpy's sin, as the code uses"""
    return float(0.5 * (np.sin(np.pi * (-0.5 + (count + 1) / float(n_damp))) + 1.0))


def run_impl(case):
    log = []
    ref = [None]
    integ = StubIntegrator(case['seq'], log, ref, step_bound(case))
    s = Solver(integrator=integ, tf=case['tf'], dt=case['dt'],
               n_damp=case['n_damp'], adaptive_timestep=bool(case['adaptive']),
               output_at_times=list(case['out']))
    ref[0] = s
    s.set_print_freq(case['pfreq'])
    if case['max_steps'] is not None:
        s.set_max_steps(case['max_steps'])
    s.particles = []

    def rec():
        sd = s._get_solver_data()
        log.append(('d', float(s.t), int(s.count), float(sd['dt']),
                    integ.last_ret))
    s.dump_output = rec
    s.add_pre_step_callback(lambda sv: log.append(('b',)))
    s.add_post_step_callback(lambda sv: log.append(('a',)))
    err = None
    try:
        with np.errstate(all='ignore'):
            s.solve(show_progress=False)
    except Exception as e:     # noqa
        err = type(e).__name__ + ': ' + str(e)
    return {'log': log, 't': float(s.t), 'count': int(s.count),
            'dt': float(s.dt), 'err': err}


def impl_tokens(impl):
    toks = []
    for e in impl['log']:
        if e[0] == 'd':
            toks.append('d:%s:%d:%s' % (H.fbits(e[1]), e[2], H.fbits(e[3])))
        elif e[0] == 's':
            toks.append('s:%s:%s' % (H.fbits(e[1]), H.fbits(e[2])))
        else:
            toks.append(e[0])
    if impl['err']:
        toks.append('raised:' + impl['err'].split(':')[0])
    toks.append('e:%s:%d:%s' % (H.fbits(impl['t']), impl['count'],
                                H.fbits(impl['dt'])))
    return toks


def model_line(case):
    nd = case['n_damp']
    damp = [damp_formula(k, nd) for k in range(nd)] if nd > 0 else []
    seq = ','.join('N' if v is None else H.fbits(v) for v in case['seq']) or '_'
    mx = DEFAULT_MAX if case['max_steps'] is None else case['max_steps']
    op = 'solve-pinned' if os.environ.get('C10_MODEL_VARIANT') == 'pinned' else 'solve'
    return (op + ' dt=%s tf=%s pfreq=%d out=%s ndamp=%d damp=%s max=%d '
            'adaptive=%d seq=%s' % (
                H.fbits(case['dt']), H.fbits(case['tf']), case['pfreq'],
                H.flist(case['out']), nd, H.flist(damp), mx,
                1 if case['adaptive'] else 0, seq))


# --------------------------------------------------------------------------
# the property's own predicate on an implementation trace

def ulp(x):
    return math.ulp(abs(x)) if x != 0 else math.ulp(1e-300)


def oracle(case, impl):
    """returns list of (key, demand, observed)"""
    fails = []
    log = impl['log']
    tf = case['tf']
    dt0 = case['dt']
    nd = case['n_damp']
    out = case['out']
    mx = DEFAULT_MAX if case['max_steps'] is None else case['max_steps']
    if impl['err'] and impl['err'].startswith('StepCap'):
        st = [e for e in log if e[0] == 's'][-3:]
        return [('C10:does-not-terminate',
                 'solve() reaches tf = %r (a conforming run needs at most %d steps)'
                 % (tf, (step_bound(case) - 50) // 2),
                 '%s; last steps (t, dt): %r' % (impl['err'], [(e[1], e[2]) for e in st]))]
    if impl['err']:
        return [('C10:raises', 'solve() returns', impl['err'])]
    steps = [e for e in log if e[0] == 's']
    dumps = [e for e in log if e[0] == 'd']
    cnt = impl['count']

    def eps(k):
        return EPS * tf * max(k, 1)

    # --- callbacks exactly once per step, in order ---------------------
    shape = ''.join(e[0] for e in log if e[0] in 'bsa')
    if shape != 'bsa' * len(steps) or cnt != len(steps):
        fails.append(('C10:callbacks', '(pre step post)* and count == number of steps',
                      'shape %s..., count %d, steps %d' % (shape[:30], cnt, len(steps))))
    if cnt > mx:
        fails.append(('C10:max-steps', 'count <= max_steps = %d' % mx, 'count %d' % cnt))
    # --- termination at tf ---------------------------------------------
    by_guard = cnt < mx
    if by_guard and tf > 0:
        if not abs(impl['t'] - tf) <= 2 * eps(cnt) + 2 * ulp(tf):
            fails.append(('C10:ends-at-tf', 't = tf = %r to rounding' % tf,
                          't = %r after %d steps' % (impl['t'], cnt)))
    # --- strictly increasing time; t advances by dt ---------------------
    for i, e in enumerate(steps):
        _, t, dt, k, fac, last = e
        if not dt > 0:
            fails.append(('C10:time-increases', 'every step has dt > 0',
                          'step %d at t=%r has dt=%r' % (i, t, dt)))
            break
        nxt = steps[i + 1][1] if i + 1 < len(steps) else impl['t']
        if not nxt > t:
            fails.append(('C10:time-increases', 'time increases strictly',
                          'step %d: t=%r then t=%r (dt=%r)' % (i, t, nxt, dt)))
            break
        if abs(nxt - (t + dt)) > 4 * ulp(nxt):
            fails.append(('C10:time-advances-by-dt', 't_next = t + dt',
                          'step %d: %r + %r -> %r' % (i, t, dt, nxt)))
            break
        if k != i:
            fails.append(('C10:callbacks', 'count at step i is i',
                          'step %d has count %d' % (i, k)))
            break

    # --- nominal step sizes (independent of the code's bookkeeping) -----
    def undamped_nominal(last):
        if case['adaptive'] and last is not None:
            return last
        return dt0

    def fac_doc(k):
        if nd > 0 and k < nd:
            return 0.5 * (math.sin(math.pi * (-0.5 + (k + 1) / float(nd))) + 1.0)
        return 1.0
    nshort = len(out) + 2
    # --- no step exceeds the current step size -------------------------
    for i, e in enumerate(steps):
        _, t, dt, k, fac, last = e
        nominal = undamped_nominal(last) * fac_doc(k)
        if dt > nominal * (1 + 1e-9) + 2 * eps(k):
            fails.append(('C10:step-exceeds-current-dt',
                          'step <= current step size %r (undamped %r x damping %r)'
                          % (nominal, undamped_nominal(last), fac_doc(k)),
                          'step %d at t=%r has dt=%r' % (i, t, dt)))
            break
    # --- dumps: start, end, every pfreq-th iteration --------------------
    if not dumps or dumps[0][1] != 0.0 or dumps[0][2] != 0 or log[0][0] != 'd':
        fails.append(('C10:dump-at-start', 'first event is a dump at t=0, count=0',
                      repr(log[:1])))
    if not dumps or log[-1][0] != 'd' or dumps[-1][1] != impl['t'] \
            or dumps[-1][2] != cnt:
        fails.append(('C10:dump-at-end', 'last event is a dump at the final t, count',
                      repr(log[-1:])))
    dcounts = set(d[2] for d in dumps)
    for k in range(0, cnt + 1, case['pfreq']):
        if k not in dcounts:
            fails.append(('C10:dump-every-pfreq', 'a dump at iteration %d (pfreq %d)'
                          % (k, case['pfreq']), 'dump counts %r' % sorted(dcounts)[:40]))
            break
    # --- requested times: dumped at, never stepped past -----------------
    for T in out:
        if not (0.0 < T < tf):
            continue
        passed = None
        for i, e in enumerate(steps):
            _, t, dt, k, fac, last = e
            nxt = steps[i + 1][1] if i + 1 < len(steps) else impl['t']
            if t < T - 2 * eps(k) and nxt > T + 2 * eps(k + 1):
                passed = (i, t, dt, nxt)
                break
        if passed:
            fails.append((classify_out('C10:steps-past-requested-time', case, T, passed),
                          'no step goes past requested time %r' % T,
                          'step %d: t=%r dt=%r -> %r' % passed))
            break
        if by_guard:
            hit = [d for d in dumps if abs(d[1] - T) <= 2 * eps(d[2])]
            if not hit:
                fails.append(('C10:no-dump-at-requested-time',
                              'a dump at requested time %r' % T,
                              'dump times %r' % [d[1] for d in dumps][:40]))
                break
    # --- recorded dt is the nominal one ---------------------------------
    for j, d in enumerate(dumps):
        _, t, k, recdt, last = d
        und = undamped_nominal(last)
        # exempt the approach to tf (the step that lands on tf may be any
        # fraction of the nominal one) and everything after it
        if t + und * fac_doc(k) * (1 + 1e-9) + 2 * eps(k) >= tf:
            continue
        if case['adaptive'] and None in case['seq'][:k + 2]:
            # the integrator declined to give a step: the statement does not
            # say which value is "nominal" then beyond the fixed one
            cands = [und, dt0]
        else:
            cands = [und]
        if not any(abs(recdt - u) <= 1e-9 * u + 2 * nshort * eps(k) for u in cands):
            sub = 'adaptive' if case['adaptive'] else ('damped' if nd > 0 else 'fixed')
            fails.append(('C10:recorded-dt-not-nominal:' + sub,
                          'dump %d (t=%r, count=%d) records dt = %r' % (j, t, k, und),
                          'recorded %r' % recdt))
            break
    return fails


def classify_out(prefix, case, T, passed=None):
    """sub-class of a failing requested time (what known_findings.json would
    match on): the step that went past it is the very first one / started
    with two or more requested times within a few epsilon ahead of it"""
    if passed is None:
        return prefix
    i, t, dt, nxt = passed
    if i == 0:
        return prefix + ':first-step'
    tol = 1e-9 * case['tf']
    near = [x for x in case['out'] if 0 <= x - t < tol]
    if len(near) >= 2:
        return prefix + ':cluster-within-eps'
    return prefix


# --------------------------------------------------------------------------
# generators

def nudge(rng, x, k=3):
    n = rng.randint(-k, k)
    for _ in range(abs(n)):
        x = math.nextafter(x, math.inf if n > 0 else -math.inf)
    return x


def gen_case(rng, big=False, aim=None):
    style = rng.choice(['comm', 'comm', 'noncomm', 'noncomm', 'random', 'dyadic'])
    if style == 'dyadic':
        dt = rng.choice([0.25, 0.125, 0.5, 0.0625])
    elif style == 'random':
        dt = 10 ** rng.uniform(-3, 0)
    else:
        dt = rng.choice([0.1, 0.01, 0.2, 1.0 / 3, 0.05, 0.3, 1e-3, 0.7])
    nmax = 400 if big else 120
    nst = rng.choice([1, 2, 3, 5, 10, 17, 33, rng.randint(1, nmax), rng.randint(1, nmax)])
    if style in ('comm', 'dyadic'):
        tf = dt * nst
        if rng.random() < 0.3:
            tf = sum([dt] * nst)
    elif style == 'noncomm':
        tf = dt * (nst + rng.choice([0.5, 0.05, 0.999, 1e-9, 0.3, rng.random()]))
    else:
        tf = dt * nst * rng.uniform(0.8, 1.2)
    if rng.random() < 0.05:
        tf = dt * rng.choice([0.5, 1.0, 0.999999, 1e-3])
    pfreq = rng.choice([1, 2, 3, 5, 10, 100, rng.randint(1, 50)])
    n_damp = rng.choice([0, 0, 0, 1, 2, 5, 10, 50, rng.randint(1, 80)])
    if aim == 'damp' and n_damp == 0:
        n_damp = rng.choice([2, 5, 10])
    max_steps = None
    if rng.random() < 0.12:
        max_steps = rng.choice([0, 1, 2, 5, rng.randint(0, nst + 3)])
    adaptive = rng.random() < (0.6 if aim == 'adaptive' else 0.3)
    seq = []
    if adaptive:
        kind = rng.choice(['const', 'rand', 'smooth', 'withnone', 'shrink'])
        n = 6 * nst + 40
        v = dt
        for i in range(n):
            if kind == 'const':
                x = dt * 0.7
            elif kind == 'rand' or kind == 'withnone':
                x = dt * rng.uniform(0.3, 1.5)
            elif kind == 'smooth':
                v = min(max(v * rng.uniform(0.9, 1.1), 0.3 * dt), 2 * dt)
                x = v
            else:
                x = dt * (0.4 + 0.6 / (1 + i * 0.1))
            if kind == 'withnone' and rng.random() < 0.3:
                x = None
            seq.append(x)
    case = {'dt': dt, 'tf': tf, 'pfreq': pfreq, 'out': [], 'n_damp': n_damp,
            'max_steps': max_steps, 'adaptive': adaptive, 'seq': seq}
    # requested output times
    okind = rng.choice(['none', 'random', 'cluster', 'onstep', 'onstep',
                        'tf', 'mixed', 'mixed', 'dupl', 'edge'])
    if aim in ('out', 'cluster', 'damp', 'adaptive') and okind == 'none':
        okind = rng.choice(['onstep', 'cluster', 'mixed', 'dupl'])
    if aim == 'cluster':
        okind = rng.choice(['cluster', 'dupl', 'mixed'])
    out = []
    step_times = None

    def steps_of_base():
        base = dict(case, out=[], max_steps=min(max_steps or 5000, 5000))
        im = run_impl(base)
        return [e[1] for e in im['log'] if e[0] == 's'] + [im['t']]
    if okind in ('onstep', 'mixed', 'dupl', 'cluster'):
        step_times = steps_of_base()
    if okind in ('random', 'mixed'):
        out += [rng.uniform(0, tf) for _ in range(rng.randint(1, 5))]
    if okind in ('cluster', 'mixed'):
        c0 = rng.uniform(0, tf)
        w = dt * rng.choice([0.5, 0.1, 0.01, 1e-6, 1e-12])
        out += [c0 + w * rng.random() for _ in range(rng.randint(2, 5))]
        if step_times and rng.random() < 0.5:
            c1 = rng.choice(step_times)
            out += [nudge(rng, c1, 2) for _ in range(rng.randint(2, 3))]
            if rng.random() < 0.7:
                out.append(c1 + dt * rng.uniform(0.1, 0.9) * 0.5)
    if okind in ('onstep', 'mixed') and step_times:
        for _ in range(rng.randint(1, 4)):
            x = rng.choice(step_times)
            out.append(nudge(rng, x, rng.choice([0, 1, 3])))
        if rng.random() < 0.4:
            k = rng.randint(1, max(1, nst))
            out.append(k * dt)
    if okind == 'dupl' and step_times:
        x = nudge(rng, rng.choice(step_times), 2)
        out += [x] * rng.randint(2, 3)
        if rng.random() < 0.7:
            out.append(x + dt * rng.uniform(0.1, 0.9))
    if okind in ('tf', 'edge'):
        out.append(tf)
        if okind == 'edge':
            out += [0.0, nudge(rng, tf, 3), tf + dt, rng.uniform(0, tf),
                    math.ulp(1.0), tf * (1 - 1e-15)]
    out = sorted(float(x) for x in out)
    case['out'] = out
    return case


def corpus():
    base = {'dt': 0.1, 'tf': 1.0, 'pfreq': 100, 'out': [], 'n_damp': 0,
            'max_steps': None, 'adaptive': False, 'seq': []}
    return [
        dict(base),
        dict(base, tf=10.05, pfreq=5, out=[0.3, 0.35]),                # test_solver.py
        dict(base, tf=3.0, pfreq=10,
             out=[float(x) for x in np.concatenate((np.arange(0, 1.21, 0.2),
                                                   np.arange(1.25, 1.51, 0.05)))]),
        dict(base, dt=0.2, pfreq=1),
        dict(base, tf=1.05, out=[1.02], pfreq=10),
        dict(base, n_damp=10, tf=2.0, pfreq=3, out=[0.5, 1.0]),
        dict(base, adaptive=True, seq=[0.07] * 60, out=[0.3, 0.31], pfreq=4),
        dict(base, adaptive=True, seq=[None, 0.05, None, 0.08] * 20, pfreq=7),
        dict(base, max_steps=3, pfreq=2),
        dict(base, max_steps=0),
        # three requested times, two of them within epsilon of a step time
        dict(base, out=[0.3, 0.3, 0.35]),
        dict(base, out=[0.30000000000000004, 0.30000000000000004, 0.35]),
        # requested time on a damped step time
        dict(base, n_damp=5, out=[0.0024471741852423235], pfreq=1),
    ]


# --------------------------------------------------------------------------

def nontrivial(case, impl):
    return impl['count'] >= 3 and (
        any(0 < T < case['tf'] for T in case['out']) or case['n_damp'] > 0
        or case['adaptive'])


def check_cases(cases, R, sample_from=0, tag=''):
    impls = [run_impl(c) for c in cases]
    lines = [model_line(c) for c in cases]
    outs = H.run_model('C10', lines)
    if len(outs) != len(lines):
        raise SystemExit('model driver answered %d lines for %d' % (len(outs), len(lines)))
    for k, (c, im, ln, mo) in enumerate(zip(cases, impls, lines, outs)):
        it = impl_tokens(im)
        mt = mo.split(' ')
        if mt != it:
            # first differing event
            j = 0
            while j < min(len(mt), len(it)) and mt[j] == it[j]:
                j += 1
            R.disagree({'case': c, 'line': ln},
                       {'event_index': j, 'events': mt[max(0, j - 2):j + 3], 'n': len(mt)},
                       {'event_index': j, 'events': it[max(0, j - 2):j + 3], 'n': len(it)},
                       'trace')
        for key, demand, obs in oracle(c, im):
            R.prop_fail(key, c, demand, obs)
        R.count('steps:%s' % ('0' if im['count'] == 0 else '1-9' if im['count'] < 10
                              else '10-99' if im['count'] < 100 else '100+'))
        if c['adaptive']:
            R.count('adaptive')
        if c['n_damp'] > 0:
            R.count('damped')
        if c['max_steps'] is not None:
            R.count('max_steps-set')
        if c['out']:
            R.count('with-output-times')
        st = [e for e in im['log'] if e[0] == 's']
        nland = sum(1 for b in st[1:]
                    if c['out'] and any(abs(b[1] - T) <= 4 * EPS * c['tf'] * max(b[3], 1)
                                        for T in c['out']))
        if nland:
            R.count('steps-landing-on-requested-time', nland)
        R.d['events_compared'] = R.d.get('events_compared', 0) + len(it)
        R.case(json.dumps(c, sort_keys=True), nontrivial(c, im),
               {'case': c, 'impl_events': it[:12], 'model_events': mt[:12]}
               if (sample_from + k) < 3 else None)
        R.d['traces_validated_against_impl'] += 1


def main():
    a = H.args()
    R = H.Result(
        'cases = one Solver.solve() schedule each: (dt, tf) commensurate / not / dyadic / '
        'random, pfreq, sorted output_at_times (random, clustered, on step times +-ulps, '
        'duplicates, = tf, outside [0,tf]), n_damp, max_steps, adaptive sequences (with None); '
        'distinct = distinct case JSON; non-trivial = at least 3 steps and a requested time '
        'inside (0,tf) or damping or adaptive stepping')
    if a.replay:
        rp = json.load(open(a.replay))
        case = rp['case']
        im = run_impl(case)
        fails = oracle(case, im)
        for key, demand, obs in fails:
            print('%s\n  demand  : %s\n  observed: %s' % (key, demand, obs))
        if not fails:
            print('property holds on this input now')
        sys.exit(1 if fails else 0)
    rng = random.Random(a.seed * 7919 + 10)
    n = 4000 if a.tier == "quick" else 100000
    cp = corpus()
    check_cases(cp, R, 0)
    R.count('corpus', len(cp))
    big = a.tier != 'quick'
    aims = [None, None, 'out', 'cluster', 'damp', 'adaptive']
    cases = [gen_case(rng, big=big, aim=aims[i % len(aims)]) for i in range(n)]
    for i in range(0, n, 500):
        check_cases(cases[i:i + 500], R, 100 + i)
    if a.broken or R.d['disagreements']:
        rng2 = random.Random(a.seed + 54321)
        extra = 3000
        cs = [gen_case(rng2, big=True, aim=aims[i % len(aims)]) for i in range(extra)]
        for i in range(0, extra, 500):
            check_cases(cs[i:i + 500], R, 10 ** 6)
        R.d['search'] = {'extra_cases': extra,
                         'found': len(R.d['property_failures'])}
    R.write(a.out)


if __name__ == '__main__':
    main()
