"""C01 correspondence + property oracle: every CPU neighbour search returns
exactly the true neighbour set.

impl  : the 12 compiled NNPS classes of pysph.base.nnps (scratch build of /repo),
        get_nearest_particles for every (src, dst, i), cache off / on (miss and
        hit, optionally filled by find_all_neighbors under OpenMP), after update
        histories (move, change h, add, remove; update_domain + update).
model : lean PysphVerif.Model.Nnps at Rat through model_c01 (cell size front
        end, isNbr acceptance test, bruteForce; `self` lines also run the
        Grid / Tree / Cache sub-models against bruteForce).
oracle: the property statement evaluated with exact integer arithmetic
        (dyadic stream) or floats with the 2^-40 band (non-dyadic stream),
        independently of the model.

Inputs on the dyadic grid (k*2^-10) make the double arithmetic that decides
membership exact, so impl, model and oracle must agree exactly, ties included.

Round 3 additions:
 * boundary coincidence with the REAL binning grid (its origin is the padded
   minimum xmin - 0.01*L, so dyadic lattice points are never on its faces):
   stream `padded-face` solves extents, in the double operations of
   _compute_bounds / find_cell_id, such that the particle with the largest
   coordinate, the padded upper limit or inner particles lie exactly on cell
   faces; stream `decimal-lattice` = round-number SPH lattices ~100 cells long.
   NNPS._compute_bounds / _get_number_of_cells are modelled
   (Model/NnpsBounds.lean) and run at Float: xmin / xmax / ncells_per_dim of
   every real object must agree bit for bit (driver `bounds`).
 * ownership of the output array: on every state an API-usage history mixes
   cached, un-cached and prealloc calls and cache resets on the live object
   and on a second object of another class, with output arrays shared between
   the calls; every result is judged by the oracle right after its call and
   every used cache entry is read again at the end; tied to the ownership
   model Model/NnpsAlias.lean (driver `alias`).
"""
import hashlib
import json
import math
import multiprocessing as mp
import os
import random
import signal
import sys
import time
import traceback
from concurrent.futures import ThreadPoolExecutor
from fractions import Fraction

# OpenMP: the workers below oversubscribe the cores on purpose (several
# processes, up to 4 threads each); spinning waits would make that crawl
os.environ.setdefault('OMP_WAIT_POLICY', 'PASSIVE')
os.environ.setdefault('GOMP_SPINCOUNT', '0')
os.environ.setdefault('OMP_DYNAMIC', 'FALSE')

import numpy as np  # noqa: E402

import hcommon as H  # noqa: E402

H.assert_scratch_import()
from pysph.base.utils import get_particle_array  # noqa: E402
from pysph.base import nnps as N  # noqa: E402
from cyarray.api import UIntArray  # noqa: E402
from pysph.base.octree import Octree, CompressedOctree  # noqa: E402
try:
    from pysph.base.omp_threads import set_number_of_threads
except ImportError:                                    # pragma: no cover
    from pysph.base.no_omp_threads import set_number_of_threads

U = 1024                      # dyadic unit: value = k / U
TINY = '1/1000000'
CLASSES = ['LinkedListNNPS', 'BoxSortNNPS', 'DictBoxSortNNPS',
           'SpatialHashNNPS', 'ExtendedSpatialHashNNPS', 'CellIndexingNNPS',
           'ZOrderNNPS', 'ExtendedZOrderNNPS', 'StratifiedHashNNPS',
           'StratifiedSFCNNPS', 'OctreeNNPS', 'CompressedOctreeNNPS']
RATIO_LIMIT = 40.0            # extent / cell_size per axis (memory of key tables)
BAND = 2.0 ** -40
CHILD_TIMEOUT = 90           # seconds for one (scenario, class) run
LONG_RATIO_LIMIT = 260.0      # `long` scenarios (1-D / thin 2-D round-number lattices): one long axis
LONG_CELLS_LIMIT = 6000.0     # ... and this many cells in all
PAD = 0.01                    # the fraction NNPS._compute_bounds pads its limits with.  Used by the
#                               GENERATOR only (it aims particles at the faces of the grid the code will
#                               build); whether they got there is measured on the bounds of the real
#                               object (`bounds:*` counts), the oracle does not depend on it
# classes a second NNPS object of an API-usage history may have
ALIAS_OTHERS = ['LinkedListNNPS', 'SpatialHashNNPS', 'BoxSortNNPS', 'CellIndexingNNPS',
                'ZOrderNNPS', 'OctreeNNPS', 'DictBoxSortNNPS']


# --------------------------------------------------------------------------
# scenario generation (parent; pure python, everything from one rng)

def _pick_knobs(rng, cname, hratio_hint):
    k = {}
    if cname == 'SpatialHashNNPS':
        k['table_size'] = rng.choice([131072, 131072, 64, 7])
    elif cname == 'ExtendedSpatialHashNNPS':
        k['H'] = rng.choice([1, 2, 3])
        k['table_size'] = rng.choice([131072, 131072, 16])
    elif cname == 'ExtendedZOrderNNPS':
        k['H'] = rng.choice([1, 2, 3])
        k['asymmetric'] = rng.choice([False, True])
    elif cname == 'StratifiedHashNNPS':
        k['num_levels'] = rng.choice([1, 2, 3])
        k['H'] = rng.choice([1, 2, 3]) if k['num_levels'] == 1 else rng.choice([1, 2])
        k['table_size'] = rng.choice([131072, 131072, 32])
    elif cname == 'StratifiedSFCNNPS':
        k['num_levels'] = rng.choice([1, 2, 3])
    elif cname in ('OctreeNNPS', 'CompressedOctreeNNPS'):
        k['leaf_max_particles'] = rng.choice([10, 10, 2, 3, 5])
        k['test_parallel'] = rng.choice([False, False, True])
    cfg = {'knobs': k, 'cache0': rng.random() < 0.5,
           'fixed_h': rng.random() < 0.3,
           'sort_gids': rng.random() < 0.25,
           'fill_all': rng.random() < 0.5}
    if cname == 'DictBoxSortNNPS':
        cfg['cache0'] = False
    return cfg


def _axes(dim):
    return ['x', 'y', 'z'][:dim]


def _empty_arr():
    return {'x': [], 'y': [], 'z': [], 'h': []}


def gen_scenario(rng, sid, big=False, force=None):
    """one scenario on the dyadic grid; all numbers are ints in units 1/U"""
    gens = ['uniform', 'uniform', 'varh', 'varh', 'clustered', 'lattice',
            'collinear', 'coplanar', 'coincident', 'single', 'empty', 'far',
            'sparse-multi', 'sparse-multi', 'sparse-multi', 'tie', 'varh-multi',
            'empty-far']
    gen = force or rng.choice(gens)
    dim = rng.choice([1, 2, 3, 3, 2])
    if gen == 'coplanar':
        dim = 3
    if gen == 'collinear':
        dim = rng.choice([2, 3])
    rs_n, rs_d = rng.choice([(2, 1), (2, 1), (2, 1), (3, 2), (3, 1), (1, 1)])
    narr = rng.choice([1, 2, 2, 3])
    if gen in ('sparse-multi', 'varh-multi'):
        narr = rng.choice([2, 2, 3])
    nmax = 60 if not big else 300
    # base smoothing length: power of two times small odd -> exact products
    h0 = rng.choice([64, 128, 256, 512, 96, 160]) * rng.choice([1, 2, 4])
    cell = h0 * rs_n // rs_d if (h0 * rs_n) % rs_d == 0 else h0 * rs_n / rs_d
    ncell = rng.choice([1, 2, 3, 5, 8])        # box side in cells
    L = max(int(cell * ncell), 4)
    off = [0, 0, 0]
    if gen in ('far', 'empty-far') or rng.random() < 0.08:
        off = [rng.choice([-1, 1]) * rng.choice([10 ** 6, 10 ** 5, 12345]) * U
               for _ in range(3)]
    # coordinates of the unused dimensions stay 0 (a dim-D problem lives in
    # the first dim axes)
    consts = [0, 0, 0]

    def pt_uniform():
        return [rng.randrange(0, L + 1) for _ in range(3)]

    arrays = []
    centres = [[rng.randrange(0, L + 1) for _ in range(3)] for _ in range(4)]
    line_d = [rng.choice([-3, -1, 1, 2, 5]) for _ in range(3)]
    for a in range(narr):
        n = rng.choice([1, 2, 3, 5, 8, 13, 21, 34, nmax])
        if big:
            n = rng.choice([5, 21, 55, 144, nmax])
        pts = []
        hs = []
        h_a = h0 if rng.random() < 0.6 else max(4, h0 // rng.choice([2, 4]))
        if gen in ('uniform', 'far', 'empty', 'empty-far', 'single'):
            pts = [pt_uniform() for _ in range(n)]
            hs = [h_a] * n
        elif gen in ('varh', 'varh-multi'):
            decades = rng.choice([1, 3, 5, 7, 10])
            pts = [pt_uniform() for _ in range(n)]
            hs = [max(1, h0 >> rng.randrange(0, decades + 1)) for _ in range(n)]
            if gen == 'varh-multi' and a > 0 and rng.random() < 0.5:
                # destination array with a larger h than the sources around it
                hs = [h0] * n
        elif gen == 'clustered':
            for _ in range(n):
                c = rng.choice(centres)
                s = max(2, int(cell) // rng.choice([1, 2, 8]))
                pts.append([c[k] + rng.randrange(-s, s + 1) for k in range(3)])
            hs = [h_a] * n
        elif gen == 'lattice':
            c = int(cell)
            for _ in range(n):
                pts.append([rng.randrange(0, ncell + 1) * c +
                            rng.choice([0, 0, 0, 1, -1]) for k in range(3)])
            hs = [h0] * n
        elif gen == 'collinear':
            for _ in range(n):
                t = rng.randrange(0, max(2, L // 8))
                pts.append([line_d[k] * t for k in range(3)])
            hs = [h_a] * n
        elif gen == 'coplanar':
            for _ in range(n):
                p = pt_uniform()
                p[rng.choice([2])] = centres[0][2]
                pts.append(p)
            hs = [h_a] * n
        elif gen == 'coincident':
            base = [pt_uniform() for _ in range(3)]
            pts = [list(rng.choice(base)) for _ in range(n)]
            hs = [h_a] * n
        elif gen == 'sparse-multi':
            # array a lives in its own region; regions are 1-3 cells apart so
            # that cross-array neighbours exist while cells are not shared
            n = rng.choice([1, 2, 3, 5, 8])
            c = int(cell)
            org = [a * rng.choice([1, 1, 2]) * c // rng.choice([1, 2, 3]), 0, 0]
            rng.shuffle(org)
            spread = max(2, c // rng.choice([1, 2, 4, 16]))
            pts = [[org[k] + rng.randrange(0, spread + 1) for k in range(3)]
                   for _ in range(n)]
            hs = [h0 if rng.random() < 0.7 else max(1, h0 // 2)] * n
        elif gen == 'tie':
            # pairs at distance exactly rs*h (3-4-5 and axis aligned), +-1 unit
            q = 5 * rs_d * rng.choice([8, 16, 32])       # h
            r = q * rs_n // rs_d                         # = rs*h, multiple of 5
            pts = []
            for _ in range(max(1, n // 2)):
                p = pt_uniform()
                d = rng.choice([[r, 0, 0], [3 * r // 5, 4 * r // 5, 0],
                                [0, 3 * r // 5, 4 * r // 5], [0, r, 0]])
                e = rng.choice([0, 0, 1, -1])
                pts.append(p)
                pts.append([p[0] + d[0] + e, p[1] + d[1], p[2] + d[2]])
            hs = [q] * len(pts)
        if gen == 'single':
            pts, hs = pts[:1], hs[:1]
        if gen in ('empty', 'empty-far') and (a == narr - 1 or rng.random() < 0.4):
            pts, hs = [], []
        arr = _empty_arr()
        for p, hh in zip(pts, hs):
            for k, ax in enumerate('xyz'):
                arr[ax].append((p[k] if k < dim else consts[k]) + off[k])
            arr['h'].append(int(hh))
        arrays.append(arr)
    # history
    nsteps = rng.choice([0, 1, 1, 2, 3])
    steps = []
    for _ in range(nsteps):
        ops = []
        for _ in range(rng.choice([1, 1, 2, 3])):
            a = rng.randrange(narr)
            kind = rng.choice(['move', 'move', 'seth', 'add', 'remove'])
            # indices are taken modulo the array's current length by the worker
            idx = sorted(set(rng.randrange(0, 400) for _ in range(rng.choice([1, 2, 5, 20]))))
            if kind == 'move':
                s = rng.choice([1, int(cell) // 4 + 1, int(cell) + 1, 2 * int(cell) + 1])
                ops.append({'op': 'move', 'a': a, 'idx': idx,
                            'd': [[rng.randrange(-s, s + 1) if k < dim else 0
                                   for k in range(3)] for _ in idx]})
            elif kind == 'seth':
                ops.append({'op': 'seth', 'a': a, 'idx': idx,
                            'sh': [rng.choice([-3, -1, -1, 1, 1, 2]) for _ in idx]})
            elif kind == 'add':
                m = rng.choice([1, 2, 5])
                pts = [pt_uniform() for _ in range(m)]
                ops.append({'op': 'add', 'a': a,
                            'x': [(p[0] if 0 < dim else consts[0]) + off[0] for p in pts],
                            'y': [(p[1] if 1 < dim else consts[1]) + off[1] for p in pts],
                            'z': [(p[2] if 2 < dim else consts[2]) + off[2] for p in pts],
                            'h': [max(1, h0 >> rng.randrange(0, 3)) for _ in pts]})
            else:
                ops.append({'op': 'remove', 'a': a, 'idx': idx[:rng.choice([1, 2, 6])]})
        steps.append(ops)
    scn = {'sid': sid, 'gen': gen, 'dim': dim, 'rs': [rs_n, rs_d], 'unit': U,
           'arrays': arrays, 'steps': steps,
           'threads': rng.choice([1, 1, 2, 3, 4])}
    scn['cfgs'] = {c: _pick_knobs(rng, c, None) for c in CLASSES}
    scn['gid_mode'] = rng.choice(['default', 'default', 'unique', 'shared', 'shared3'])
    # own stream: does not shift the scenarios of existing seeds
    scn['ctx'] = random.Random('ctx-%s-%d' % (sid, len(scn['arrays'][0]['h']))).choice(
        ['explicit', 'implicit', 'implicit'])
    return scn


def gen_nondyadic(rng, sid):
    """non-dyadic stream: random doubles; membership inside the 2^-40 band may
    go either way"""
    dim = rng.choice([1, 2, 3])
    narr = rng.choice([1, 2])
    h0 = rng.uniform(0.05, 0.3)
    arrays = []
    for a in range(narr):
        n = rng.choice([3, 10, 30, 60])
        arr = _empty_arr()
        for _ in range(n):
            for k, ax in enumerate('xyz'):
                arr[ax].append(rng.uniform(0.0, 1.0) if k < dim else 0.0)
            arr['h'].append(h0 * rng.uniform(0.5, 1.0))
        arrays.append(arr)
    scn = {'sid': sid, 'gen': 'nondyadic', 'dim': dim, 'rs': [2, 1], 'unit': 0,
           'arrays': arrays, 'steps': [], 'threads': rng.choice([1, 4])}
    scn['cfgs'] = {c: _pick_knobs(rng, c, None) for c in CLASSES}
    scn['gid_mode'] = rng.choice(['default', 'default', 'unique', 'shared', 'shared3'])
    # own stream: does not shift the scenarios of existing seeds
    scn['ctx'] = random.Random('ctx-%s-%d' % (sid, len(scn['arrays'][0]['h']))).choice(
        ['explicit', 'implicit', 'implicit'])
    return scn


def _ulps(x, k):
    for _ in range(abs(k)):
        x = math.nextafter(x, math.inf if k > 0 else -math.inf)
    return x


def solve_top(xmin, n, cs):
    """a double xmax > xmin such that, measured from the lower limit the code computes for
    (xmin, xmax), the particle at xmax is EXACTLY n cell sizes away -- in the double operations of
    _compute_bounds and find_cell_id"""
    guess = xmin + n * cs / (1 + PAD)
    for k in sorted(range(-24, 25), key=abs):
        c = _ulps(guess, k)
        lo = xmin - (c - xmin) * PAD
        if c > xmin and (c - lo) / cs == float(n):
            return c
    return None


def solve_hi(xmin, n, cs):
    """xmax such that the padded extent is exactly n cells: cell_size1*(xmax' - xmin') == n"""
    guess = xmin + n * cs / (1 + 2 * PAD)
    for k in sorted(range(-24, 25), key=abs):
        c = _ulps(guess, k)
        lx = c - xmin
        if c > xmin and (1.0 / cs) * ((c + lx * PAD) - (xmin - lx * PAD)) == float(n):
            return c
    return None


def on_face(lo, j, cs):
    """a double x with (x - lo)/cs == j exactly"""
    guess = lo + j * cs
    for k in sorted(range(-6, 7), key=abs):
        c = _ulps(guess, k)
        if (c - lo) / cs == float(j):
            return c
    return None


def _face_points(rng, dim, narr, h0, cs, npts):
    """one configuration whose extreme particles sit on cell faces of the PADDED grid"""
    axes = []
    for k in range(3):
        if k >= dim:
            axes.append(None)
            continue
        n = rng.choice([1, 2, 3, 4, 5, 7, 10] if dim < 3 else [1, 2, 3, 4, 5])
        xmin = rng.choice([0.0, 0.0, 1.0, -0.37, rng.uniform(-3, 3), 1234.5])
        mode = rng.choice(['top', 'top', 'top', 'hi', 'free'])
        xmax = None
        if mode == 'top':
            xmax = solve_top(xmin, n, cs)
        elif mode == 'hi':
            xmax = solve_hi(xmin, n, cs)
        if xmax is None:
            mode = 'free'
            xmax = xmin + cs * rng.uniform(0.3, n)
        lo = xmin - (xmax - xmin) * PAD
        axes.append({'n': n, 'xmin': xmin, 'xmax': xmax, 'lo': lo, 'mode': mode})

    def coord(ax):
        if ax is None:
            return 0.0
        r = rng.random()
        if r < 0.22:
            return ax['xmax']                       # the last layer
        if r < 0.30:
            return ax['xmin']
        if r < 0.45:                                # within one cell of the last layer
            return max(ax['xmin'], ax['xmax'] - cs * rng.uniform(0, 1.0))
        if r < 0.65:                                # exactly on an inner face / just below it
            j = rng.randrange(1, ax['n'] + 1)
            c = on_face(ax['lo'], j, cs)
            if c is not None and ax['xmin'] <= c <= ax['xmax']:
                return c if rng.random() < 0.6 else max(ax['xmin'], _ulps(c, -1))
        return rng.uniform(ax['xmin'], ax['xmax'])
    pts = []
    # the extremes are attained: by one corner particle or by different particles
    if rng.random() < 0.5:
        pts.append([ax['xmin'] if ax else 0.0 for ax in axes])
        pts.append([ax['xmax'] if ax else 0.0 for ax in axes])
    else:
        for k in range(dim):
            for e in ('xmin', 'xmax'):
                q = [coord(ax) for ax in axes]
                q[k] = axes[k][e]
                pts.append(q)
    while len(pts) < npts:
        pts.append([coord(ax) for ax in axes])
    rng.shuffle(pts)
    return pts, [None if ax is None else ax['mode'] for ax in axes]


def gen_face(rng, sid):
    """non-dyadic stream, boundary coincidence with the REAL grid: the origin of the binning grid
    is the padded minimum, so points on multiples of the cell size are never on its faces; here the
    extents are solved (in the double operations the code uses) such that the particle with the
    largest coordinate / the padded upper limit / inner particles lie exactly on cell faces"""
    dim = rng.choice([1, 2, 2, 3])
    narr = rng.choice([1, 1, 2])
    h0 = rng.choice([0.01, 0.0125, 0.1, 0.05, 0.3, rng.uniform(0.02, 0.2)])
    cs = 2.0 * h0
    sizes = [rng.choice([4, 9, 20, 35]) for _ in range(narr)]
    nstates = rng.choice([1, 2, 2])
    confs = []
    for _ in range(nstates):
        pts, modes = _face_points(rng, dim, narr, h0, cs, sum(sizes))
        confs.append(pts)
    hs = [h0 if (k == 0 or rng.random() < 0.7) else h0 * rng.uniform(0.5, 1.0)
          for k in range(sum(sizes))]

    def split(pts):
        out, k = [], 0
        for n in sizes:
            out.append(pts[k:k + n])
            k += n
        return out
    arrays = []
    k = 0
    for a, ps in enumerate(split(confs[0])):
        arr = _empty_arr()
        for q in ps:
            arr['x'].append(q[0]); arr['y'].append(q[1]); arr['z'].append(q[2])   # noqa: E702
            arr['h'].append(hs[k])
            k += 1
        arrays.append(arr)
    steps = []
    for pts in confs[1:]:
        steps.append([{'op': 'setpos', 'a': a, 'x': [q[0] for q in ps], 'y': [q[1] for q in ps],
                       'z': [q[2] for q in ps]} for a, ps in enumerate(split(pts))])
    scn = {'sid': sid, 'gen': 'padded-face', 'dim': dim, 'rs': [2, 1], 'unit': 0,
           'arrays': arrays, 'steps': steps, 'threads': rng.choice([1, 1, 3])}
    scn['cfgs'] = {c: _pick_knobs(rng, c, None) for c in CLASSES}
    for c in CLASSES:
        scn['cfgs'][c]['fixed_h'] = False
    scn['gid_mode'] = rng.choice(['default', 'default', 'unique', 'shared'])
    scn['ctx'] = rng.choice(['explicit', 'implicit', 'implicit'])
    return scn


def gen_decimal(rng, sid, big=False):
    """non-dyadic stream: the round-number lattices SPH set-ups are made of (spacing 0.01, 0.02,
    0.025 ..., h = hdx*dx, an extent that is a round number of cells, possibly ~100 cells long in one
    direction); pairs exactly at the cut-off fall into the rounding band the statement allows"""
    dim = rng.choice([1, 2])
    dx = rng.choice([0.01, 0.01, 0.02, 0.05, 0.1, 0.025, 0.004])
    hdx = rng.choice([1.0, 1.0, 1.0, 1.2, 1.3, 1.5, 2.0])
    h = hdx * dx
    cs = 2.0 * h
    ncell = rng.choice([100, 100, 100, 50, 25, 10, 200 if big else 20])
    nx = int(round(ncell * cs / dx)) + 1
    x0 = rng.choice([0.0, 0.0, 0.0, -1.0, 0.5])
    cap = 1500 if big else 640
    rows = 1
    if dim == 2:
        rows = max(2, min(rng.choice([2, 3, 3, 5]), cap // nx))
    while nx * rows > cap and nx > 11:
        nx = (nx - 1) // 2 + 1
    arr = _empty_arr()
    for j in range(rows):
        for i in range(nx):
            arr['x'].append(x0 + i * dx)
            arr['y'].append(j * dx if dim == 2 else 0.0)
            arr['z'].append(0.0)
            arr['h'].append(h)
    arrays = [arr]
    if dim == 2 and rng.random() < 0.5:
        # a column standing on the first half of the bed (second array half of the time)
        col = _empty_arr()
        crows = rng.choice([2, 4])
        while crows > 0 and nx * rows + crows * ((nx + 1) // 2) > cap:
            crows -= 1
        for j in range(rows, rows + crows):
            for i in range((nx + 1) // 2):
                col['x'].append(x0 + i * dx); col['y'].append(j * dx)   # noqa: E702
                col['z'].append(0.0); col['h'].append(h)                # noqa: E702
        if rng.random() < 0.5:
            arrays.append(col)
        else:
            for ax in ('x', 'y', 'z', 'h'):
                arr[ax] += col[ax]
    scn = {'sid': sid, 'gen': 'decimal-lattice', 'dim': dim, 'rs': [2, 1], 'unit': 0, 'long': True,
           'arrays': arrays, 'steps': [], 'threads': rng.choice([1, 2])}
    scn['cfgs'] = {c: _pick_knobs(rng, c, None) for c in CLASSES}
    # one long axis: keep the key tables of the classes with one entry per Morton key small
    k = scn['cfgs']['ExtendedZOrderNNPS']['knobs']
    k['H'] = 1 if ncell > 100 else min(k['H'], 2)
    k = scn['cfgs']['StratifiedSFCNNPS']['knobs']
    k['num_levels'] = 1 if ncell > 100 else min(k['num_levels'], 2)
    k = scn['cfgs']['ExtendedSpatialHashNNPS']['knobs']
    k['H'] = min(k['H'], 2)
    scn['gid_mode'] = rng.choice(['default', 'default', 'unique'])
    scn['ctx'] = rng.choice(['explicit', 'implicit'])
    return scn


def gen_alias(scn):
    """API-usage histories (one per state of the scenario), from their own stream: which calls of
    the query API are made on which object with which output array.  Raw: pair / particle numbers
    are taken modulo what exists in the state."""
    rng = random.Random('alias|%s|%d' % (scn['sid'], len(scn['arrays'])))
    out = []
    for _ in range(len(scn['steps']) + 1):
        nscr = rng.choice([1, 1, 2, 3])
        spec = {'other': rng.choice(ALIAS_OTHERS), 'other_cache': rng.random() < 0.4,
                'reserve': rng.choice([0, 0, 4096]), 'ops': []}
        if spec['other'] == 'DictBoxSortNNPS':
            spec['other_cache'] = False
        ops = spec['ops']

        def big():
            return rng.randrange(1 << 20)

        def direct(a):
            if rng.random() < 0.5:
                return {'k': 'n', 'o': 0, 'p': big(), 'i': big(), 'a': a, 'pre': rng.random() < 0.25}
            return {'k': 'g', 'o': 1, 'p': big(), 'i': big(), 'a': a}
        for _ in range(rng.choice([3, 6, 10])):
            a = rng.randrange(nscr)
            r = rng.random()
            if r < 0.6:
                # a cached entry, other queries with the same output array, the entry again
                p, i = big(), big()
                ops.append({'k': 'g', 'o': 0, 'p': p, 'i': i, 'a': a})
                for _ in range(rng.choice([1, 1, 2, 3])):
                    ops.append(direct(a if rng.random() < 0.8 else rng.randrange(nscr)))
                ops.append({'k': 'g', 'o': 0, 'p': p, 'i': i,
                            'a': a if rng.random() < 0.7 else rng.randrange(nscr)})
            elif r < 0.9:
                ops.append(rng.choice([direct(a), {'k': 'g', 'o': rng.choice([0, 1]), 'p': big(),
                                                   'i': big(), 'a': a}]))
            else:
                ops.append({'k': 'r', 'o': rng.choice([0, 0, 1])})
        out.append(spec)
    return out


# --------------------------------------------------------------------------
# implementation side (runs in forked workers)

def _val(scn, k):
    return k / scn['unit'] if scn['unit'] else k


def build_arrays(scn):
    pas = []
    for a, arr in enumerate(scn['arrays']):
        n = len(arr['h'])
        if n:
            pa = get_particle_array(
                name='a%d' % a,
                x=np.array([_val(scn, v) for v in arr['x']], dtype=float),
                y=np.array([_val(scn, v) for v in arr['y']], dtype=float),
                z=np.array([_val(scn, v) for v in arr['z']], dtype=float),
                h=np.array([_val(scn, v) for v in arr['h']], dtype=float))
        else:
            pa = get_particle_array(name='a%d' % a)
        pas.append(pa)
    set_gids(scn, pas)
    return pas


def set_gids(scn, pas):
    """gids as the scenario prescribes: 'default' leaves UINT_MAX (sorting then
    uses the index), 'unique' numbers the particles, 'shared' gives pairs of
    particles the same gid (as periodic/mirror ghosts share their original's):
    sorting the neighbours by gid must never lose or duplicate a neighbour."""
    mode = scn.get('gid_mode', 'default')
    if mode == 'default':
        return
    for pa in pas:
        n = pa.get_number_of_particles()
        if n == 0:
            continue
        g = pa.get_carray('gid').get_npy_array()
        if mode == 'unique':
            g[:] = np.arange(n)[::-1]
        else:
            g[:] = np.arange(n) // (2 if mode == 'shared' else 3)


def apply_ops(scn, pas, ops):
    for op in ops:
        pa = pas[op['a']]
        n = pa.get_number_of_particles()
        if op['op'] == 'add':
            pa.add_particles(x=np.array([_val(scn, v) for v in op['x']], dtype=float),
                             y=np.array([_val(scn, v) for v in op['y']], dtype=float),
                             z=np.array([_val(scn, v) for v in op['z']], dtype=float),
                             h=np.array([_val(scn, v) for v in op['h']], dtype=float))
            continue
        if op['op'] == 'setpos':
            if n != len(op['x']):
                raise RuntimeError('setpos: array size changed')
            if n:
                pa.x[:] = np.array([_val(scn, v) for v in op['x']], dtype=float)
                pa.y[:] = np.array([_val(scn, v) for v in op['y']], dtype=float)
                pa.z[:] = np.array([_val(scn, v) for v in op['z']], dtype=float)
            continue
        if n == 0:
            continue
        idx = sorted(set(i % n for i in op['idx']))
        if op['op'] == 'move':
            for i, d in zip(idx, op['d']):
                pa.x[i] += _val(scn, d[0])
                pa.y[i] += _val(scn, d[1])
                pa.z[i] += _val(scn, d[2])
        elif op['op'] == 'seth':
            for i, s in zip(idx, op['sh']):
                hv = pa.h[i] * (2.0 ** s)
                if hv * scn['unit'] >= 1 and hv <= 64.0 and \
                        float(hv * scn['unit']).is_integer():
                    pa.h[i] = hv
        elif op['op'] == 'remove':
            pa.remove_particles(np.array(idx, dtype=np.int64))
    set_gids(scn, pas)


def read_state(scn, pas):
    st = []
    for pa in pas:
        d = {}
        for ax in ('x', 'y', 'z', 'h'):
            v = np.array(pa.get(ax, only_real_particles=False), dtype=float)
            if scn['unit']:
                k = v * scn['unit']
                if not np.all(k == np.rint(k)):
                    raise RuntimeError('state left the dyadic grid')
                d[ax] = [int(t) for t in k]
            else:
                d[ax] = [float(t) for t in v]
        st.append(d)
    return st


def state_unsafe(scn, st, phantom_origin=False):
    """True when the algorithms' key tables would need unreasonable memory:
    extent / cell size above RATIO_LIMIT on some axis"""
    allh = [v for a in st for v in a['h']]
    if not allh:
        return False
    rs = Fraction(*scn['rs'])
    cs = float(rs) * max(allh)
    if scn['unit'] and cs / scn['unit'] < 1e-6:
        cs = scn['unit']
    ext = 0
    cells = 1.0
    for ax in ('x', 'y', 'z'):
        vs = [v for a in st for v in a[ax]]
        # an empty array contributes 0 to the bounds (carray min/max of an
        # empty array are 0)
        if phantom_origin and any(len(a['h']) == 0 for a in st):
            vs = vs + [0]
        ext = max(ext, max(vs) - min(vs))
        cells *= (max(vs) - min(vs)) / cs + 2
    if scn.get('long'):
        return ext / cs > LONG_RATIO_LIMIT or cells > LONG_CELLS_LIMIT
    return ext / cs > RATIO_LIMIT


def empty_far(scn, st):
    """an empty array next to particles so far from the origin that bounds
    which include the origin would be unreasonably large"""
    return any(len(a['h']) == 0 for a in st) and not state_unsafe(scn, st) \
        and state_unsafe(scn, st, phantom_origin=True)


def oracle_lists(scn, st):
    """the property statement: j is a neighbour of i iff
    dist(i,j) < rs*max(h_i,h_j).  Dyadic: exact ints.  Returns for each (d,s)
    (definite lists, band lists)."""
    rs_n, rs_d = scn['rs']
    out = {}
    for d, da in enumerate(st):
        for s, sa in enumerate(st):
            nd, ns = len(da['h']), len(sa['h'])
            if nd == 0:
                out[(d, s)] = ([], [])
                continue
            if ns == 0:
                out[(d, s)] = ([[] for _ in range(nd)], [[] for _ in range(nd)])
                continue
            if scn['unit']:
                D2 = np.zeros((nd, ns), dtype=object)
                for ax in ('x', 'y', 'z'):
                    a = np.array(da[ax], dtype=object).reshape(nd, 1)
                    b = np.array(sa[ax], dtype=object).reshape(1, ns)
                    D2 = D2 + (a - b) * (a - b)
                hi = np.array(da['h'], dtype=object).reshape(nd, 1)
                hj = np.array(sa['h'], dtype=object).reshape(1, ns)
                hm = np.maximum(hi + 0 * hj, hj + 0 * hi)
                inn = (D2 * (rs_d * rs_d)) < (hm * hm * (rs_n * rs_n))
                inn = np.array(inn, dtype=bool)
                band = np.zeros_like(inn)
            else:
                D2 = np.zeros((nd, ns))
                for ax in ('x', 'y', 'z'):
                    a = np.array(da[ax]).reshape(nd, 1)
                    b = np.array(sa[ax]).reshape(1, ns)
                    D2 = D2 + (a - b) * (a - b)
                hm = np.maximum(np.array(da['h']).reshape(nd, 1),
                                np.array(sa['h']).reshape(1, ns))
                r2 = (rs_n / rs_d * hm) ** 2
                inn = D2 < r2 * (1 - BAND / 2)
                band = (~inn) & (D2 <= r2 * (1 + BAND / 2))
            out[(d, s)] = ([np.nonzero(inn[i])[0].tolist() for i in range(nd)],
                           [np.nonzero(band[i])[0].tolist() for i in range(nd)])
    return out


def lists_text(narr, lists):
    """canonical text, identical to the model driver's P blocks"""
    blocks = []
    for d in range(narr):
        for s in range(narr):
            ls = lists[(d, s)]
            body = '-' if not ls else '|'.join(
                (','.join(str(j) for j in l) if l else '_') for l in ls)
            blocks.append('P %d:%d:%s' % (d, s, body))
    return ' '.join(blocks)


def construct(scn, cname, cfg, pas):
    cls = getattr(N, cname)
    kw = dict(dim=scn['dim'], particles=pas,
              radius_scale=scn['rs'][0] / scn['rs'][1],
              sort_gids=cfg['sort_gids'])
    kw['cache'] = cfg['cache0']
    kw.update(cfg['knobs'])
    # fixed_h promises that h does not change with time (so it may only be
    # set when the history has no smoothing-length change, addition or
    # removal); it must not change the neighbour criterion
    if cfg.get('fixed_h') and cname != 'DictBoxSortNNPS' and not any(
            op['op'] in ('seth', 'add', 'remove') for st in scn['steps'] for op in st):
        kw['fixed_h'] = True
    return cls(**kw)


def query_all(nps, pas, cached, fill_all, implicit=False, rev=False):
    narr = len(pas)
    out = {}
    nb = UIntArray()
    pairs = [(d, s) for d in range(narr) for s in range(narr)]
    if rev:
        pairs.reverse()
    for d, s in pairs:
        nd = pas[d].get_number_of_particles()
        fill = cached and fill_all and (d + s) % 2 == 0
        if cached and not implicit:
            # as AccelerationEval does before it asks for neighbours
            nps.set_context(s, d)
        elif fill and nd:
            # implicit: the context is what get_nearest_particles establishes
            nps.get_nearest_particles(s, d, 0, nb)
        if fill and (nd or not implicit):
            nps.cache[d * narr + s].find_all_neighbors()
        ls = []
        for i in range(nd):
            nps.get_nearest_particles(s, d, i, nb)
            ls.append(nb.get_npy_array().tolist())
        if cached:
            # second pass: served from the cache (hits)
            for i in range(nd):
                nps.get_nearest_particles(s, d, i, nb)
                l2 = nb.get_npy_array().tolist()
                if l2 != ls[i]:
                    ls[i] = ls[i] + ['hit-differs'] + l2
        out[(d, s)] = ls
    return out


def canon(lists):
    out = {}
    for k, ls in lists.items():
        out[k] = [sorted(l, key=lambda t: (isinstance(t, str), t)) for l in ls]
    return out


def dump_real_tree(cname, cfg, pa):
    """the REAL octree of one particle array: built by the same builder on the
    same array as OctreeNNPS._refresh does (Octree.build_tree -> c_build_tree),
    read back through the Python API of pysph.base.octree (get_root /
    get_children / get_indices / xmin / length / hmax).  Nested lists
    ['L', xmin, ymin, zmin, hmax, length, [pids]] / ['N', ..., [children]]."""
    if pa.get_number_of_particles() == 0:
        return None
    cls = Octree if cname == 'OctreeNNPS' else CompressedOctree
    tree = cls(int(cfg['knobs'].get('leaf_max_particles', 10)))
    tree.build_tree(pa, bool(cfg['knobs'].get('test_parallel', False)))

    def rec(nd, depth):
        if depth > 300:
            raise RuntimeError('octree deeper than 300 levels')
        head = [float(nd.xmin[0]), float(nd.xmin[1]), float(nd.xmin[2]),
                float(nd.hmax), float(nd.length)]
        if nd.is_leaf:
            ids = [int(v) for v in nd.get_indices(tree).get_npy_array()]
            return ['L'] + head + [ids]
        return ['N'] + head + [[rec(c, depth + 1) for c in nd.get_children()
                                if c is not None]]
    out = rec(tree.get_root(), 0)
    del tree
    return out


def tree_tokens(t):
    head = [t[0]] + [H.qstr(Fraction(v)) for v in t[1:6]]
    if t[0] == 'L':
        return head + [','.join(str(j) for j in t[6]) if t[6] else '_']
    toks = head + [str(len(t[6]))]
    for c in t[6]:
        toks += tree_tokens(c)
    return toks


def tree_stats(t):
    """(nodes, leaves, depth)"""
    if t[0] == 'L':
        return 1, 1, 1
    n, l, d = 1, 0, 0
    for c in t[6]:
        a, b, e = tree_stats(c)
        n, l, d = n + a, l + b, max(d, e)
    return n, l, d + 1


def _cell(v, x0, size):
    return int(math.floor((v - x0) / size))


def _all_coincident(pas):
    """every particle of every array at one point: _compute_bounds then pads
    all three axes by 0.5"""
    pts = set()
    for pa in pas:
        for j in range(pa.get_number_of_particles()):
            pts.add((float(pa.x[j]), float(pa.y[j]), float(pa.z[j])))
    return len(pts) == 1


def classify(scn, cname, cfg, nps, pas, d, s, i, missing, extra):
    """name the class of failing input (what known_findings.json matches on)"""
    if extra is True:
        return 'returns-duplicate'
    if extra:
        return 'returns-non-neighbour'
    multi = (d != s)
    try:
        hs = [float(v) for pa in pas for v in pa.h]
        varh = len(set(hs)) > 1
        if cname in ('ZOrderNNPS', 'ExtendedZOrderNNPS'):
            cd = int(nps.get_cids(d)[i])
            cs_src = set(int(c) for c in nps.get_cids(s))
            if multi and cd not in cs_src:
                return 'dst-cell-unoccupied-by-src'
            if cname == 'ExtendedZOrderNNPS' and not cfg['knobs'].get('asymmetric'):
                if not multi and varh:
                    return 'symmetric-variable-h'
                if multi:
                    return 'symmetric-multi-array'
        if cname == 'StratifiedSFCNNPS':
            L = cfg['knobs'].get('num_levels', 1)
            rs = scn['rs'][0] / scn['rs'][1]
            x0 = [float(v) for v in nps.xmin.get_npy_array()]
            cell0 = rs * ((nps.cell_size / rs) / (2 ** (L - 1)))

            def lev(h):
                return L - int(min(L, math.ceil(math.log2(
                    (nps.cell_size + 1e-13) / rs / h))))

            def key(pa, j):
                return (lev(pa.h[j]), _cell(pa.x[j], x0[0], cell0),
                        _cell(pa.y[j], x0[1], cell0), _cell(pa.z[j], x0[2], cell0))
            kd = key(pas[d], i)
            ks = set(key(pas[s], j) for j in range(pas[s].get_number_of_particles()))
            if multi and kd not in ks:
                return 'dst-cell-unoccupied-by-src'
            if multi:
                return 'multi-array-src-cell-hmax-below-dst-h'
            # a missed source particle stored at a level whose cell size is
            # below its cut-off: _get_level adds an ABSOLUTE EPS to cell_size
            for j in (missing or []):
                hj = float(pas[s].h[j])
                if rs * hj > rs * ((nps.cell_size / rs) / (2 ** (L - 1 - lev(hj)))):
                    return 'level-eps-sliver'
        if cname == 'StratifiedSFCNNPS' and varh:
            return 'variable-h'
        if 'Octree' in cname:
            leaf = cfg['knobs'].get('leaf_max_particles', 10)
            for pa in pas:
                pts = [(float(pa.x[j]), float(pa.y[j]), float(pa.z[j]))
                       for j in range(pa.get_number_of_particles())]
                if pts and max(pts.count(p) for p in set(pts)) >= leaf:
                    return 'coincident-points-fill-a-leaf'
        if cname == 'LinkedListNNPS' and scn['dim'] < 3 and _all_coincident(pas):
            return 'dim-lt-3-all-particles-coincident'
    except Exception as e:      # noqa
        return 'unclassified-%s' % type(e).__name__
    return 'misses-neighbour' + ('-multi-array' if multi else '-single-array')


PROGRESS = None        # file object the child reports its current state to


def _morton(i, j, k):
    """bit interleave written independently of z_order.h::get_key"""
    key = 0
    for b in range(21):
        key |= (((i >> b) & 1) << (3 * b)) | (((j >> b) & 1) << (3 * b + 1)) | \
            (((k >> b) & 1) << (3 * b + 2))
    return key


def dump_zorder(nps, pas, cname, cfg):
    """internals of a REAL ZOrderNNPS / ExtendedZOrderNNPS through its Python
    accessors (get_keys / get_cids / get_pids / get_nbr_boxes, max_cid), and
    the integer cell of every particle computed with the same double
    operations as find_cell_id_raw (x - xmin, / h_sub, floor)."""
    ns = [pa.get_number_of_particles() for pa in pas]
    if sum(ns) == 0 or sum(ns) > 120:
        return None
    H = int(cfg['knobs'].get('H', 3 if cname == 'ExtendedZOrderNNPS' else 1))
    sym = cname == 'ExtendedZOrderNNPS' and not cfg['knobs'].get('asymmetric', False)
    xmin = [float(v) for v in nps.xmin.get_npy_array()]
    xmax = [float(v) for v in nps.xmax.get_npy_array()]
    hsub = float(nps.cell_size) / H

    def cell(x, y, z):
        return [int(math.floor((x - xmin[0]) / hsub)), int(math.floor((y - xmin[1]) / hsub)),
                int(math.floor((z - xmin[2]) / hsub))]
    cells = []
    for pa in pas:
        x, y, z = (np.array(pa.get(ax, only_real_particles=False), dtype=float)
                   for ax in ('x', 'y', 'z'))
        cells.append([cell(float(a), float(b), float(c)) for a, b, c in zip(x, y, z)])
    top = cell(xmax[0], xmax[1], xmax[2])
    allc = [v for cs_ in cells for c in cs_ for v in c] + top
    if min(allc) < 0 or max(allc) + H >= 2 ** 21:
        return None
    max_cid = int(nps.max_cid)
    real = []
    for a, n in enumerate(ns):
        if n == 0:
            real.append({'keys': [], 'cids': [], 'pids': [], 'rows': None})
            continue
        keys = [int(v) for v in nps.get_keys(a)]
        cids = [int(v) for v in nps.get_cids(a)]
        pids = [int(v) for v in nps.get_pids(a)]
        rows = None
        if not sym:
            rows = []
            for cid in range(max_cid):
                row = [int(v) for v in nps.get_nbr_boxes(a, cid)]
                pre = []
                for v in row:
                    if v < 0:
                        break
                    pre.append(v)
                rows.append(pre)
        real.append({'keys': keys, 'cids': cids, 'pids': pids, 'rows': rows})
    return {'H': H, 'sym': sym, 'maxkey': 1 + _morton(*top), 'cells': cells,
            'max_cid': max_cid, 'real': real,
            'mykeys': [[_morton(*c) for c in cs_] for cs_ in cells]}


def dump_levels(scn, cname, cfg, nps, pas):
    """per-level particle counts of a REAL stratified object: StratifiedSFCNNPS
    through get_number_of_particles(pa_index, level) of the live object,
    StratifiedHashNNPS through count_particles(level) of a second object built
    from the same arrays (count_particles reads the CURRENT context; the live
    object's context must not be touched)."""
    if sum(pa.get_number_of_particles() for pa in pas) == 0:
        return None
    if cname == 'StratifiedSFCNNPS':
        L = int(nps.num_levels)
        counts = [[int(nps.get_number_of_particles(a, l)) for l in range(L)]
                  for a in range(len(pas))]
        obj = nps
    else:
        obj = construct(scn, cname, dict(cfg, cache0=False), pas)
        L = int(obj.num_levels)
        counts = []
        for a in range(len(pas)):
            obj.set_context(a, a)
            counts.append([int(obj.count_particles(l)) for l in range(L)])
    return {'L': L, 'cs': float(obj.cell_size).hex(), 'hmin': float(obj.hmin).hex(),
            'counts': counts}


def _progress(st):
    if PROGRESS is not None:
        PROGRESS.write('S ' + json.dumps(st) + '\n')
        PROGRESS.flush()


def read_bounds(cname, nps):
    """xmin / xmax of the real object (bit patterns) and, where the class has one, the box"""
    out = {'lo': [H.fbits(float(v)) for v in nps.xmin.get_npy_array()],
           'hi': [H.fbits(float(v)) for v in nps.xmax.get_npy_array()], 'nc': None}
    if cname in ('LinkedListNNPS', 'BoxSortNNPS'):
        out['nc'] = [int(v) for v in nps.ncells_per_dim.get_npy_array()]
    return out


def resolve_alias(spec, ns):
    """raw API-usage history -> concrete calls for a state with ns[a] particles in array a.
    The same for every class (the model is asked once per state): object 0 is taken to have its
    cache on.  `prealloc=True` is only used on an output array that is not a view of a cache (the
    flag promises a caller-owned, pre-allocated array).  At the end every entry of the caches of
    object 0 that were used is read again with a fresh array."""
    narr = len(ns)
    pairs = [(d, s) for d in range(narr) for s in range(narr) if ns[d] > 0]
    if not pairs:
        return []
    view, ops, touched = {}, [], []
    for op in spec['ops']:
        if op['k'] == 'r':
            if op['o'] == 0 or spec['other_cache']:
                ops.append(['r', op['o']])
            continue
        d, s = pairs[op['p'] % len(pairs)]
        i, a = op['i'] % ns[d], op['a']
        if op['k'] == 'g':
            ops.append(['g', op['o'], s, d, i, a])
            view[a] = op['o'] == 0 or bool(spec['other_cache'])
            if op['o'] == 0 and (d, s) not in touched:
                touched.append((d, s))
        else:
            pre = bool(op['pre']) and not view.get(a, False)
            ops.append(['n', op['o'], s, d, i, a, int(pre)])
            view[a] = False
    for d, s in touched[:3]:
        for i in range(min(ns[d], 64)):
            ops.append(['g', 0, s, d, i, 9])
    return ops


def run_alias(scn, cname, nps, pas, spec, definite, band, step, res):
    """one API-usage history on the live object `nps` (cache on, freshly reset) and a second
    object of another class over the same arrays: every call's result, read right after the
    call, is judged by the oracle.  -> {'ops', 'got'} for the tie with Model/NnpsAlias"""
    ns = [pa.get_number_of_particles() for pa in pas]
    ops = resolve_alias(spec, ns)
    if not ops:
        return None
    live_cache = cname != 'DictBoxSortNNPS'
    try:
        ocfg = dict(scn['cfgs'][spec['other']], cache0=bool(spec['other_cache']))
        other = construct(scn, spec['other'], ocfg, pas)
    except Exception as e:      # noqa
        return {'skipped': 'second object: %s: %s' % (type(e).__name__, e)}
    if live_cache:
        nps.set_use_cache(True)
    objs = [nps, other]
    scratch = {}
    got = []
    for k, op in enumerate(ops):
        if op[0] == 'r':
            if op[1] == 1 or live_cache:
                objs[op[1]].set_use_cache(True)
            got.append('-')
            continue
        o, s, d, i, a = op[1:6]
        if a not in scratch:
            scratch[a] = UIntArray()
            if spec['reserve'] and a != 9:
                scratch[a].reserve(int(spec['reserve']))
        nb = scratch[a]
        try:
            if op[0] == 'g':
                objs[o].get_nearest_particles(s, d, i, nb)
                l = nb.get_npy_array().tolist()
            else:
                if op[6]:
                    nb.reserve(ns[s] + 16)
                objs[o].get_nearest_particles_no_cache(s, d, i, nb, bool(op[6]))
                # (prealloc=True does not keep the numpy view's length in step)
                l = [int(nb.get(t)) for t in range(int(nb.length))]
        except Exception as e:      # noqa
            l = ['raises-%s' % type(e).__name__]
        w = definite[(d, s)][i]
        core = sorted((j for j in l if j not in band[(d, s)][i]),
                      key=lambda t: (isinstance(t, str), t))
        got.append(','.join(str(j) for j in core) if core else '_')
        if core != w:
            what = 'cached' if (op[0] == 'g' and o == 0) else \
                'direct' if op[0] == 'n' else 'second-object-%s' % spec['other']
            key = 'query-history-' + what
            ks = res.setdefault('fail_keys', {}).setdefault(str(step), [])
            if key not in ks:
                ks.append(key)
            res['nfail_queries'] = res.get('nfail_queries', 0) + 1
            if len([f for f in res['fails'] if f['key'] == key]) < 2:
                res['fails'].append({
                    'step': step, 'mode': 'api-history call %d of %r' % (k, ops[max(0, k - 4):k + 1]),
                    'd': d, 's': s, 'i': i, 'key': key, 'got': core, 'want': w})
    del other
    return {'ops': ops, 'got': '|'.join(got)}


def run_class(scn, cname, cfg, want_states=None):
    """run one class over the whole history.  Returns dict with per step/mode
    sha of canonical lists, failures vs the oracle, states."""
    set_number_of_threads(int(scn['threads']))
    res = {'cname': cname, 'steps': [], 'fails': [], 'error': None,
           'skipped': None, 'states': [], 'oracle_text': [], 'cs': []}
    pas = build_arrays(scn)
    st = read_state(scn, pas)
    if state_unsafe(scn, st):
        res['skipped'] = 'unsafe-initial'
        return res
    hratio = 1.0
    allh = [v for a in st for v in a['h']]
    if allh:
        hratio = max(allh) / min(allh)
    if cname == 'StratifiedHashNNPS' and cfg['knobs'].get('num_levels', 1) > 1 \
            and hratio > 8:
        # the per-level mask grows with (h ratio)^3: resource limit, not C01
        cfg = dict(cfg, knobs=dict(cfg['knobs'], num_levels=1))
        res['cfg_changed'] = 'num_levels=1 (h ratio %g)' % hratio
    res['cfg'] = cfg
    narr = len(pas)
    nb0 = UIntArray()
    _progress(st)
    try:
        nps = construct(scn, cname, cfg, pas)
    except Exception as e:      # noqa
        res['error'] = 'construct: %s: %s' % (type(e).__name__, e)
        res['fails'].append({'step': 0, 'mode': 'construct', 'd': 0, 's': 0, 'i': 0,
                             'key': ('empty-array-far-offset' if empty_far(scn, st) else
                                     'raises-%s' % type(e).__name__),
                             'got': str(e), 'want': 'a neighbour search'})
        return res
    mode = bool(cfg['cache0'])
    implicit = scn.get('ctx') == 'implicit'
    nq = 0
    for step in range(len(scn['steps']) + 1):
        if step > 0:
            apply_ops(scn, pas, scn['steps'][step - 1])
            st = read_state(scn, pas)
            if state_unsafe(scn, st):
                res['skipped'] = 'unsafe-step-%d' % step
                break
            allh = [v for a in st for v in a['h']]
            if cname == 'StratifiedHashNNPS' and cfg['knobs'].get('num_levels', 1) > 1 \
                    and allh and max(allh) / min(allh) > 8:
                res['skipped'] = 'strat-hash-hratio-step-%d' % step
                break
            _progress(st)
            try:
                nps.update_domain()
                nps.update()
            except Exception as e:      # noqa
                res['error'] = 'update: %s: %s' % (type(e).__name__, e)
                res['fails'].append({'step': step, 'mode': 'update', 'd': 0, 's': 0,
                                     'i': 0, 'key': ('empty-array-far-offset' if empty_far(scn, st)
                                                     else 'raises-%s' % type(e).__name__),
                                     'got': str(e), 'want': 'an updated neighbour search'})
                break
        orc = oracle_lists(scn, st)
        definite = {k: v[0] for k, v in orc.items()}
        band = {k: v[1] for k, v in orc.items()}
        res['states'].append(st)
        res['oracle_text'].append(lists_text(narr, definite))
        res['cs'].append([float(nps.cell_size), float(nps.hmin)])
        try:
            res.setdefault('bd', []).append(read_bounds(cname, nps))
        except Exception as e:      # noqa
            res.setdefault('bd', []).append({'error': '%s: %s' % (type(e).__name__, e)})
        if cname in ('StratifiedHashNNPS', 'StratifiedSFCNNPS'):
            try:
                res.setdefault('lv', []).append(dump_levels(scn, cname, cfg, nps, pas))
            except Exception as e:      # noqa
                res.setdefault('lv', []).append({'error': '%s: %s' % (type(e).__name__, e)})
        if cname in ('ZOrderNNPS', 'ExtendedZOrderNNPS'):
            try:
                res.setdefault('zo', []).append(dump_zorder(nps, pas, cname, cfg))
            except Exception as e:      # noqa
                res.setdefault('zo', []).append({'error': '%s: %s' % (type(e).__name__, e)})
        modes = [mode] if cname == 'DictBoxSortNNPS' else [mode, not mode]
        shas = []
        for mi, m in enumerate(modes):
            if mi > 0:
                nps.set_use_cache(m)
            # consecutive passes run over the (dst, src) pairs forwards and
            # backwards: the first pair after an update is the last before it
            got = canon(query_all(nps, pas, m, cfg['fill_all'], implicit, nq % 2 == 1))
            nq += 1
            txt = lists_text(narr, got)
            nondy = not scn['unit']
            if nondy:
                # canonicalise the band away: band members are dropped from both
                for k in got:
                    got[k] = [[j for j in l if j not in band[k][i]]
                              for i, l in enumerate(got[k])]
                txt = lists_text(narr, got)
            shas.append(hashlib.sha1(txt.encode()).hexdigest())
            if txt != res['oracle_text'][-1]:
                nf = 0
                for (d, s), ls in got.items():
                    for i, l in enumerate(ls):
                        w = definite[(d, s)][i]
                        if l != w:
                            missing = [j for j in w if j not in l]
                            extra = [j for j in l if j not in w] or \
                                (len(l) != len(set(map(str, l))))
                            key = classify(scn, cname, cfg, nps, pas, d, s, i,
                                           missing, extra)
                            if empty_far(scn, st):
                                key = 'empty-array-far-offset'
                            elif m and implicit and step > 0:
                                nps.get_nearest_particles_no_cache(s, d, i, nb0, False)
                                if sorted(nb0.get_npy_array().tolist()) == w:
                                    key = 'stale-context-after-update'
                            nf += 1
                            ks = res.setdefault('fail_keys', {}).setdefault(str(step), [])
                            if key not in ks:
                                ks.append(key)
                            if len([f for f in res['fails'] if f['key'] == key]) < 2:
                                res['fails'].append({
                                    'step': step, 'mode': 'cache' if m else 'nocache',
                                    'd': d, 's': s, 'i': i, 'key': key,
                                    'got': l, 'want': w})
                res.setdefault('nfail_queries', 0)
                res['nfail_queries'] += nf
                res.setdefault('impl_text', {})['%d:%d' % (step, mi)] = txt[:4000]
        mode = modes[-1]
        res['steps'].append(shas)
        # API-usage history on this state (shared output arrays, cached / un-cached calls mixed,
        # a second object); the cache mode is put back afterwards
        spec = (scn.get('alias') or [None] * (step + 1))[step] if not empty_far(scn, st) else None
        if spec is not None:
            _progress(st)
            res.setdefault('alias', []).append(
                run_alias(scn, cname, nps, pas, spec, definite, band, step, res))
            if cname != 'DictBoxSortNNPS':
                nps.set_use_cache(mode)
        else:
            res.setdefault('alias', []).append(None)
        if 'Octree' in cname and scn.get('dump_tree', True):
            try:
                res.setdefault('trees', []).append(
                    [dump_real_tree(cname, cfg, pa) for pa in pas])
            except Exception as e:      # noqa
                res.setdefault('trees', []).append({'error': '%s: %s' % (type(e).__name__, e)})
    return res


def probe_first_cached_query(scn, cname):
    """`get_nearest_particles(0, 0, i, nbrs)` as the very first query of an
    NNPS built with cache=True, without a prior set_context (in a child
    process: it may die).  -> None when fine, else a description"""
    rd, wr = os.pipe()
    pid = os.fork()
    if pid == 0:
        code = 0
        try:
            os.close(rd)
            signal.alarm(CHILD_TIMEOUT)
            set_number_of_threads(1)
            pas = build_arrays(scn)
            cfg = dict(scn['cfgs'][cname], cache0=True)
            nps = construct(scn, cname, cfg, pas)
            nb = UIntArray()
            nps.get_nearest_particles(0, 0, 0, nb)
            got = sorted(nb.get_npy_array().tolist())
            with os.fdopen(wr, 'w') as fh:
                fh.write(json.dumps(got))
        except BaseException:      # noqa
            code = 3
        finally:
            os._exit(code)
    os.close(wr)
    with os.fdopen(rd) as fh:
        data = fh.read()
    _, status = os.waitpid(pid, 0)
    if os.WIFSIGNALED(status):
        return 'process died with signal %d' % os.WTERMSIG(status)
    if os.WEXITSTATUS(status) != 0:
        return 'exit status %d' % os.WEXITSTATUS(status)
    st = read_state_static(scn)
    want = oracle_lists(scn, st)[(0, 0)][0][0]
    if json.loads(data) != want:
        return 'returned %s, neighbours are %s' % (data, want)
    return None


def read_state_static(scn):
    return [{ax: list(a[ax]) for ax in ('x', 'y', 'z', 'h')} for a in scn['arrays']]


def _run_isolated(scn, cname):
    """run one class in its own forked process: heap corruption or a crash in
    the compiled code is then attributed to the class that caused it"""
    rd, wr = os.pipe()
    pid = os.fork()
    if pid == 0:
        code = 0
        try:
            os.close(rd)
            signal.alarm(CHILD_TIMEOUT)      # a hang becomes `signal 14`
            import resource                  # a runaway key table becomes a crash
            resource.setrlimit(resource.RLIMIT_AS, (8 << 30, 8 << 30))
            global PROGRESS
            with os.fdopen(wr, 'w') as fh:
                PROGRESS = fh
                try:
                    r = run_class(scn, cname, scn['cfgs'][cname])
                except Exception:      # noqa
                    r = {'cname': cname, 'machinery': traceback.format_exc()[-1500:]}
                fh.write('R ' + json.dumps(r) + '\n')
        except BaseException:      # noqa
            code = 3
        finally:
            os._exit(code)
    os.close(wr)
    with os.fdopen(rd) as fh:
        data = fh.read()
    _, status = os.waitpid(pid, 0)
    last_state, r, nstates = None, None, 0
    for line in data.split('\n'):
        try:
            if line.startswith('S '):
                last_state = json.loads(line[2:])
                nstates += 1
            elif line.startswith('R '):
                r = json.loads(line[2:])
        except ValueError:
            pass
    if os.WIFSIGNALED(status):
        return {'cname': cname, 'crash': 'signal %d' % os.WTERMSIG(status),
                'crash_state': last_state, 'crash_nstates': nstates,
                'cfg': scn['cfgs'][cname]}
    if r is None:
        return {'cname': cname, 'crash': 'exit status %d, no result' % status,
                'crash_state': last_state}
    if os.WEXITSTATUS(status) != 0:
        # the result was produced, the process died while tearing down
        r['crash_at_exit'] = os.WEXITSTATUS(status)
    return r


def worker_main(jobs, path):
    """jobs: list of (scn, [class names]); one JSON line per class run"""
    # the compiled code prints domain-size warnings: keep them out of the log
    dn = os.open(os.devnull, os.O_WRONLY)
    os.dup2(dn, 1)
    os.dup2(dn, 2)
    with open(path, 'a') as fh:
        for scn, names in jobs:
            for cname in names:
                t1 = time.time()
                r = _run_isolated(scn, cname)
                r['sid'] = scn['sid']
                r['secs'] = time.time() - t1
                fh.write(json.dumps(r) + '\n')
                fh.flush()


def run_workers(scns, work, nproc, tag):
    """run every (scenario, class) in forked workers; survive crashes"""
    ctx = mp.get_context('fork')
    nproc = max(1, min(nproc, len(scns)))
    pending = [[] for _ in range(nproc)]
    for k, scn in enumerate(scns):
        pending[k % nproc].append((scn, list(CLASSES)))
    results = {}
    crashes = []
    rounds = 0
    while any(pending) and rounds < 40:
        rounds += 1
        procs = []
        for w in range(nproc):
            if not pending[w]:
                continue
            path = os.path.join(work, 'c01-%s-w%d-r%d.jsonl' % (tag, w, rounds))
            p = ctx.Process(target=worker_main, args=(pending[w], path))
            p.start()
            procs.append((w, p, path))
        for w, p, path in procs:
            p.join()
            done = set()
            begun = None
            if os.path.exists(path):
                for line in open(path):
                    try:
                        r = json.loads(line)
                    except ValueError:
                        continue
                    if 'begin' in r:
                        begun = tuple(r['begin'])
                    else:
                        results[(r['sid'], r['cname'])] = r
                        done.add((r['sid'], r['cname']))
                        begun = None
            if begun is not None:
                crashes.append((begun, p.exitcode))
                done.add(begun)
            rest = []
            for scn, names in pending[w]:
                left = [c for c in names if (scn['sid'], c) not in done]
                if left:
                    rest.append((scn, left))
            if p.exitcode == 0 and begun is None:
                rest = []
            pending[w] = rest
    return results, crashes


# --------------------------------------------------------------------------
# model side

def qfmt(scn, v):
    if scn['unit']:
        return H.qstr(Fraction(int(v), scn['unit']))
    return H.qstr(Fraction(float(v)))


def model_line(scn, st, cmd='q'):
    rs = Fraction(*scn['rs'])
    toks = ['%s rs=%s tiny=%s' % (cmd, H.qstr(rs), TINY)]
    for a in st:
        toks.append('A ' + ' '.join(
            '%s=%s' % (ax, ','.join(qfmt(scn, v) for v in a[ax]) if a[ax] else '_')
            for ax in ('x', 'y', 'z', 'h')))
    return ' '.join(toks)


def _arr_tokens(scn, a):
    return ' '.join('%s=%s' % (ax, ','.join(qfmt(scn, v) for v in a[ax]) if a[ax] else '_')
                    for ax in ('x', 'y', 'z', 'h'))


def tree_line(scn, st, s, tree):
    """`tree` line of the driver: the real tree of source array s, the source
    array, every array as a destination"""
    rs = Fraction(*scn['rs'])
    return ' '.join(['tree rs=%s' % H.qstr(rs), 'T'] + tree_tokens(tree) +
                    ['S', _arr_tokens(scn, st[s])] +
                    ['D ' + _arr_tokens(scn, a) for a in st])


def check_real_trees(scns, results, R):
    """send every dumped REAL octree to the model driver: TreeInv (the
    hypothesis of tree_query_exact), the leaf index lists hold every source
    index exactly once, and the model's traversal of that tree returns the
    brute-force sets.  Anything but ok is a correspondence disagreement."""
    lines, where = [], []
    for scn in scns:
        sid = scn['sid']
        for c in ('OctreeNNPS', 'CompressedOctreeNNPS'):
            r = results.get((sid, c))
            if not r or not r.get('trees'):
                continue
            for k, trees in enumerate(r['trees']):
                if k >= len(r.get('states', [])):
                    continue
                if isinstance(trees, dict):
                    R.count('octree-real-tree:dump-error')
                    R.disagree({'scenario': scn, 'cls': c, 'step': k}, 'a tree',
                               trees.get('error'), 'octree-dump')
                    continue
                for s, t in enumerate(trees):
                    if t is None:
                        continue
                    try:
                        lines.append(tree_line(scn, r['states'][k], s, t))
                    except (ValueError, OverflowError) as e:
                        R.disagree({'scenario': scn, 'cls': c, 'step': k, 'src': s},
                                   'finite node data', str(e), 'octree-dump')
                        continue
                    where.append((scn, c, k, s, t))
    outs = run_model_parallel(lines)
    for (scn, c, k, s, t), o, ln in zip(where, outs, lines):
        if o == 'bad-op':
            raise SystemExit('model driver rejected: ' + ln[:300])
        kv = dict(tok.split('=', 1) for tok in o.split() if '=' in tok)
        R.count('octree-real-tree:checked')
        R.count('octree-real-tree:%s' % c)
        n, l, d = tree_stats(t)
        R.count('octree-real-tree:depth-%s' % ('1' if d == 1 else '2-3' if d <= 3 else '4+'))
        if int(kv.get('nodes', -1)) != n:
            R.disagree({'scenario': scn, 'cls': c, 'step': k, 'src': s}, o, 'nodes=%d' % n,
                       'octree-node-count')
        bad = [f for f in ('inv', 'nodup', 'all', 'query') if kv.get(f) != 'ok']
        if bad:
            R.count('octree-real-tree:BAD-' + '-'.join(bad))
            R.disagree({'scenario': scn, 'cls': c, 'cfg': scn['cfgs'][c], 'step': k, 'src': s,
                        'line': ln[:3000]},
                       'TreeInv / exactly-once / exact traversal hold on the real tree', o,
                       'octree-TreeInv' if ('inv' in bad or 'nodup' in bad or 'all' in bad)
                       else 'octree-model-traversal')


def check_zorder_internals(scns, results, R):
    """the bookkeeping of the REAL z-order objects (sorted keys, pids, the cell
    ids shared by all arrays, the rows of nbr_boxes) against the model of
    Model/NnpsZOrder.lean run on the same integer cells.  Incidental: the
    order of the pids inside a run of equal keys (std::sort is not stable)."""
    lines, where = [], []
    for scn in scns:
        for c in ('ZOrderNNPS', 'ExtendedZOrderNNPS'):
            r = results.get((scn['sid'], c))
            if not r or not r.get('zo'):
                continue
            for k, z in enumerate(r['zo']):
                if z is None:
                    R.count('zorder-internals:not-dumped')
                    continue
                if 'error' in z:
                    R.disagree({'scenario': scn, 'cls': c, 'step': k}, 'readable internals',
                               z['error'], 'zorder-internals-dump')
                    continue
                toks = ['zo maxkey=%d H=%d' % (z['maxkey'], z['H'])]
                for cs_ in z['cells']:
                    toks.append('A c=' + (','.join('%d:%d:%d' % tuple(t) for t in cs_) or '_'))
                lines.append(' '.join(toks))
                where.append((scn, c, k, z))
    outs = run_model_parallel(lines)

    def ints(v):
        return [] if v == '_' else [int(t) for t in v.split(',')]
    for (scn, c, k, z), o, ln in zip(where, outs, lines):
        if o == 'bad-op':
            raise SystemExit('model driver rejected: ' + ln[:300])
        kv = dict(t.split('=', 1) for t in o.split() if '=' in t)
        R.count('zorder-internals:checked')
        R.count('zorder-internals:%s%s' % (c, '-sym' if z['sym'] else ''))
        bad = []
        if int(kv['maxcid']) != z['max_cid']:
            bad.append('max_cid model %s impl %d' % (kv['maxcid'], z['max_cid']))
        for a, ra in enumerate(z['real']):
            mk, mc, mp_ = ints(kv['K%d' % a]), ints(kv['C%d' % a]), ints(kv['P%d' % a])
            if sorted(z['mykeys'][a]) != ra['keys']:
                bad.append('keys[%d] differ from an independent Morton interleave' % a)
            if mk != ra['keys']:
                bad.append('keys[%d] model %r impl %r' % (a, mk[:20], ra['keys'][:20]))
            if mc != ra['cids']:
                bad.append('cids[%d] model %r impl %r' % (a, mc[:20], ra['cids'][:20]))
            # canonical pids: ascending inside each run of equal keys
            cp, run = [], []
            for pos, pid in enumerate(ra['pids']):
                if pos > 0 and ra['keys'][pos] != ra['keys'][pos - 1]:
                    cp += sorted(run)
                    run = []
                run.append(pid)
            cp += sorted(run)
            if mp_ != cp:
                bad.append('pids[%d] model %r impl %r' % (a, mp_[:20], cp[:20]))
            if ra['rows'] is not None:
                body = kv['R%d' % a]
                mrows = [] if body == '-' else [ints(t) for t in body.split('|')]
                if mrows != ra['rows']:
                    dif = [i for i in range(min(len(mrows), len(ra['rows'])))
                           if mrows[i] != ra['rows'][i]][:3]
                    bad.append('nbr_boxes[%d] rows %r: model %r impl %r' % (
                        a, dif, [mrows[i] for i in dif], [ra['rows'][i] for i in dif]))
                R.count('zorder-internals:rows-compared')
        if bad:
            R.count('zorder-internals:BAD')
            R.disagree({'scenario': scn, 'cls': c, 'cfg': scn['cfgs'][c], 'step': k,
                        'line': ln[:3000]}, o[:2000], '; '.join(bad)[:2000], 'zorder-internals')


def check_strat_levels(scns, results, R):
    """the level of every particle as the model computes it (exact arithmetic
    on the exact values of cell_size, hmin, EPS and h) against the per-level
    particle counts of the REAL StratifiedHashNNPS / StratifiedSFCNNPS."""
    lines, where = [], []
    for scn in scns:
        for c, kind, eps in (('StratifiedHashNNPS', 'hash', 1e-6), ('StratifiedSFCNNPS', 'sfc', 1e-13)):
            r = results.get((scn['sid'], c))
            if not r or not r.get('lv'):
                continue
            for k, z in enumerate(r['lv']):
                if z is None or k >= len(r.get('states', [])):
                    continue
                if 'error' in z:
                    R.disagree({'scenario': scn, 'cls': c, 'step': k}, 'readable level counts',
                               z['error'], 'strat-levels-dump')
                    continue
                st = r['states'][k]
                if not (math.isfinite(float.fromhex(z['cs'])) and math.isfinite(float.fromhex(z['hmin']))):
                    # never a crash of the harness: an implementation that reports an
                    # infinite / NaN cell size disagrees with the model's front end
                    R.disagree({'scenario': scn, 'cls': c, 'step': k}, 'finite cell_size / hmin',
                               'cell_size %s hmin %s' % (float.fromhex(z['cs']), float.fromhex(z['hmin'])),
                               'strat-levels-nonfinite')
                    continue
                toks = ['lev kind=%s rs=%s cs=%s hmin=%s eps=%s L=%d' % (
                    kind, H.qstr(Fraction(*scn['rs'])), H.qstr(Fraction(float.fromhex(z['cs']))),
                    H.qstr(Fraction(float.fromhex(z['hmin']))), H.qstr(Fraction(eps)), z['L'])]
                for a in st:
                    toks.append('H h=' + (','.join(qfmt(scn, v) for v in a['h']) or '_'))
                lines.append(' '.join(toks))
                where.append((scn, c, k, z))
    outs = run_model_parallel(lines)
    for (scn, c, k, z), o, ln in zip(where, outs, lines):
        if o == 'bad-op':
            raise SystemExit('model driver rejected: ' + ln[:300])
        R.count('strat-levels:checked')
        R.count('strat-levels:%s-L%d' % (c, z['L']))
        blocks = [b.strip() for b in o.split('V')[1:]]
        mcounts = []
        for b in blocks:
            lv = [] if b in ('_', '') else [int(t) for t in b.split(',')]
            mcounts.append([sum(1 for v in lv if v == l) for l in range(z['L'])])
        if mcounts != z['counts']:
            R.count('strat-levels:BAD')
            R.disagree({'scenario': scn, 'cls': c, 'cfg': scn['cfgs'][c], 'step': k, 'line': ln[:2000]},
                       'per-level counts %r' % (mcounts,), 'per-level counts %r' % (z['counts'],),
                       'strat-levels')


def _fval(scn, v):
    return (v / scn['unit']) if scn['unit'] else float(v)


def check_bounds(scns, results, states, R):
    """NNPS._compute_bounds / _get_number_of_cells of Model/NnpsBounds.lean run at Float (the
    operations of the compiled code in the same order) on every state: xmin / xmax of every REAL
    object must agree bit for bit, ncells_per_dim of LinkedList / BoxSort too; `valid` is the
    conclusion of padded_bounds_valid evaluated in doubles on that state.  Also measures how many
    states have particles exactly on faces of the real grid."""
    lines, where = [], []
    for scn in scns:
        sid = scn['sid']
        for k, st in enumerate(states.get(sid, [])):
            cs = None
            for c in CLASSES:
                r = results.get((sid, c))
                if r and len(r.get('cs', [])) > k and math.isfinite(r['cs'][k][0]) \
                        and r['cs'][k][0] > 0:
                    cs = r['cs'][k][0]
                    break
            if cs is None:
                continue
            toks = ['bounds big=%s pad=%s eps=%s half=%s cs=%s' % (
                H.fbits(1e100), H.fbits(0.01), H.fbits(1e-12), H.fbits(0.5), H.fbits(cs))]
            for a in st:
                toks.append('A ' + ' '.join('%s=%s' % (ax, H.flist(_fval(scn, v) for v in a[ax]))
                                            for ax in ('x', 'y', 'z')))
            lines.append(' '.join(toks))
            where.append((scn, k))
    outs = run_model_parallel(lines)
    for (scn, k), o, ln in zip(where, outs, lines):
        if o == 'bad-op':
            raise SystemExit('model driver rejected: ' + ln[:300])
        kv = dict(t.split('=', 1) for t in o.split() if '=' in t)
        R.count('bounds:states')
        for f in ('face', 'top', 'hiface'):
            if int(kv[f]) > 0:
                R.count('bounds:states-with-%s' % {
                    'face': 'a-particle-exactly-on-a-cell-face',
                    'top': 'the-largest-coordinate-exactly-on-a-cell-face',
                    'hiface': 'padded-extent-a-whole-number-of-cells'}[f])
        if kv['valid'] != 'ok':
            R.count('bounds:BAD-valid')
            R.disagree({'scenario': scn, 'step': k, 'line': ln[:3000]},
                       'every particle is binned into a valid cell of the LinkedList / BoxSort box '
                       '(padded_bounds_valid evaluated in doubles)', o, 'bounds-valid-in-doubles')
        lo, hi = kv['lo'].split(','), kv['hi'].split(',')
        nc = [int(t) for t in kv['nc'].split(',')]
        for c in CLASSES:
            r = results.get((scn['sid'], c))
            if not r or len(r.get('bd', [])) <= k:
                continue
            b = r['bd'][k]
            R.count('bounds:compared')
            if 'error' in b:
                R.disagree({'scenario': scn, 'cls': c, 'step': k}, 'readable xmin / xmax',
                           b['error'], 'bounds-dump')
                continue
            bad = []
            if b['lo'] != lo or b['hi'] != hi:
                bad.append('xmin/xmax model %s / %s impl %s / %s' % (
                    [H.bits2f(t) for t in lo], [H.bits2f(t) for t in hi],
                    [H.bits2f(t) for t in b['lo']], [H.bits2f(t) for t in b['hi']]))
            if b['nc'] is not None:
                R.count('bounds:ncells-compared')
                if b['nc'] != nc:
                    bad.append('ncells_per_dim model %r impl %r' % (nc, b['nc']))
            if bad:
                R.count('bounds:BAD')
                R.disagree({'scenario': scn, 'cls': c, 'step': k, 'line': ln[:3000]}, o,
                           '; '.join(bad), 'padded-bounds')


def check_alias(scns, results, states, R):
    """the API-usage histories against the ownership model of Model/NnpsAlias.lean (one model
    line per state: the history is the same for every class)"""
    lines, where = [], []
    for scn in scns:
        sid = scn['sid']
        for k, st in enumerate(states.get(sid, [])):
            recs = []
            for c in CLASSES:
                r = results.get((sid, c))
                if r and len(r.get('alias', [])) > k and r['alias'][k] is not None:
                    a = r['alias'][k]
                    if 'skipped' in a:
                        R.count('query-history:skipped')
                        R.note('API history skipped (%s %s step %d): %s' % (sid, c, k, a['skipped']))
                        continue
                    recs.append((c, a))
            if not recs:
                continue
            ops = recs[0][1]['ops']
            for c, a in recs:
                if a['ops'] != ops:
                    raise SystemExit('API histories differ between classes (%s, %s)' % (sid, c))
            toks = []
            for op in ops:
                if op[0] == 'r':
                    toks.append('r:%d' % op[1])
                elif op[0] == 'g' and (op[1] == 0 or scn['alias'][k]['other_cache']):
                    toks.append('c:%d:%d:%d:%d:%d' % tuple(op[1:6]))
                else:
                    toks.append('n:%d:%d:%d:%d:%d:%d' % (tuple(op[1:6]) + (op[6] if op[0] == 'n' else 0,)))
            lines.append(' '.join(['alias rs=%s' % H.qstr(Fraction(*scn['rs']))] +
                                  ['A ' + _arr_tokens(scn, a) for a in st] + ['O'] + toks))
            where.append((scn, k, st, ops, recs))
    outs = run_model_parallel(lines)
    for (scn, k, st, ops, recs), o, ln in zip(where, outs, lines):
        if o == 'bad-op' or not o.startswith('safe='):
            raise SystemExit('model driver rejected: ' + ln[:300])
        head, _, body = o.partition(' R ')
        if head != 'safe=ok':
            raise SystemExit('harness generated an unsafe API history: ' + ln[:300])
        mres = body.split('|')
        if len(mres) != len(ops):
            raise SystemExit('model answered %d calls for %d' % (len(mres), len(ops)))
        if not scn['unit']:
            # band members may go either way: dropped on both sides
            orc = oracle_lists(scn, st)
            for j, op in enumerate(ops):
                if op[0] != 'r' and mres[j] != '_':
                    b = orc[(op[3], op[2])][1][op[4]]
                    keep = [t for t in mres[j].split(',') if int(t) not in b]
                    mres[j] = ','.join(keep) if keep else '_'
        mtxt = '|'.join(mres)
        R.count('query-history:states')
        R.count('query-history:calls', len(ops))
        kinds = set()
        view = {}
        for op in ops:
            if op[0] == 'r':
                kinds.add('reset-between-queries')
                continue
            a = op[5]
            cachedcall = op[0] == 'g' and (op[1] == 0 or scn['alias'][k]['other_cache'])
            if not cachedcall and view.get(a):
                kinds.add('un-cached-query-with-an-array-that-is-a-view-of-a-cache')
            if cachedcall and a in view:
                kinds.add('output-array-reused-for-a-cached-query')
            if op[0] == 'n' and op[6]:
                kinds.add('prealloc')
            if op[1] == 1:
                kinds.add('second-object')
            view[a] = cachedcall
        for kd in kinds:
            R.count('query-history:states-with-' + kd)
        for c, a in recs:
            R.count('query-history:compared')
            R.d['traces_validated_against_impl'] += 1
            if a['got'] != mtxt:
                r = results.get((scn['sid'], c))
                fk = {'C01:%s:%s' % (c, kk) for kk in r.get('fail_keys', {}).get(str(k), [])}
                if fk and fk <= known_keys():
                    R.count('known-finding-disagreement')
                    continue
                g, m = a['got'].split('|'), mres
                dif = [j for j in range(min(len(g), len(m))) if g[j] != m[j]][:4]
                R.disagree({'scenario': scn, 'cls': c, 'cfg': r.get('cfg'), 'step': k,
                            'history': scn['alias'][k]},
                           'calls %r: %r' % (dif, [(ops[j], m[j]) for j in dif]),
                           'calls %r: %r' % (dif, [(ops[j], g[j]) for j in dif]), 'query-history')


def _cpu():
    import resource
    a, b = resource.getrusage(resource.RUSAGE_CHILDREN), resource.getrusage(resource.RUSAGE_SELF)
    return a.ru_utime + a.ru_stime + b.ru_utime + b.ru_stime


def run_model_parallel(lines, nthreads=12):
    if not lines:
        return []
    chunks = [lines[k::nthreads] for k in range(nthreads)]
    with ThreadPoolExecutor(nthreads) as ex:
        outs = list(ex.map(lambda c: H.run_model('C01', c) if c else [], chunks))
    for c, o in zip(chunks, outs):
        if len(c) != len(o):
            raise SystemExit('model driver answered %d lines for %d' % (len(o), len(c)))
    res = [None] * len(lines)
    for k in range(nthreads):
        for j, o in enumerate(outs[k]):
            res[k + j * nthreads] = o
    return res


def parse_model(out):
    """-> (cs Fraction, hmin Fraction|None, flags dict, P text)"""
    head, _, ptxt = out.partition(' P ')
    kv = dict(t.split('=', 1) for t in head.split() if '=' in t)
    cs = Fraction(kv['cs'])
    hm = None if kv.get('hmin') == 'none' else Fraction(kv['hmin'])
    flags = {k: kv[k] for k in ('grid', 'tree', 'cache', 'store', 'zorder', 'strat') if k in kv}
    return cs, hm, flags, ('P ' + ptxt) if ptxt else ''


def nondy_model_text(scn, st, ptxt):
    """drop band members from the model's lists (non-dyadic stream)"""
    orc = oracle_lists(scn, st)
    narr = len(st)
    lists = {}
    for blk in ptxt.split(' P ') if ptxt else []:
        blk = blk[2:] if blk.startswith('P ') else blk
        d, s, body = blk.split(':', 2)
        d, s = int(d), int(s)
        if body == '-':
            lists[(d, s)] = []
        else:
            lists[(d, s)] = [[] if l == '_' else [int(t) for t in l.split(',')]
                             for l in body.split('|')]
    for k in lists:
        lists[k] = [[j for j in l if j not in orc[k][1][i]]
                    for i, l in enumerate(lists[k])]
    return lists_text(narr, lists)


# --------------------------------------------------------------------------

def crash_condition(scn, cname, st, nstates=1):
    """class of input on which the compiled code died"""
    st = st if st is not None else scn['arrays']
    if empty_far(scn, st):
        return '-empty-array-far-offset'
    if nstates > 1 and scn.get('ctx') == 'implicit':
        r2 = _run_isolated(dict(scn, ctx='explicit'), cname)
        if not r2.get('crash'):
            return '-stale-context-after-update'
    if any(len(a['h']) == 0 for a in st):
        return '-with-empty-array'
    if cname == 'LinkedListNNPS' and scn['dim'] < 3 and \
            len({(x, y, z) for a in st for x, y, z in zip(a['x'], a['y'], a['z'])}) == 1:
        return '-dim-lt-3-all-particles-coincident'
    if 'Octree' in cname:
        leaf = scn['cfgs'][cname]['knobs'].get('leaf_max_particles', 10)
        for a in st:
            pts = list(zip(a['x'], a['y'], a['z']))
            if pts and max(pts.count(p) for p in set(pts)) >= leaf:
                return '-coincident-points-fill-a-leaf'
    if cname == 'StratifiedSFCNNPS' and len({h for a in st for h in a['h']}) > 1:
        return '-variable-h'
    return ''


def known_keys():
    import vlib
    try:
        ks = {e['key'] for e in vlib.known_findings('C01') if e.get('kind') == 'known'}
    except Exception:      # noqa
        ks = set()
    extra = os.environ.get('C01_ASSUME_KNOWN', '')
    return ks | {k for k in extra.split(',') if k}


def evaluate(scns, R, work, tag, nproc=16):
    known = known_keys()
    for scn in scns:
        if 'alias' not in scn:
            scn['alias'] = gen_alias(scn)
    tw, tc = time.time(), _cpu()
    results, crashes = run_workers(scns, work, nproc, tag)
    R.note('%s: implementation runs of %d scenarios took %.0f s wall, %.0f s cpu' % (
        tag, len(scns), time.time() - tw, _cpu() - tc))
    by_sid = {s['sid']: s for s in scns}
    if crashes:
        raise SystemExit('harness worker died: %r' % (crashes[:3],))
    for (sid, cname), r in sorted(results.items()):
        if r.get('crash'):
            scn = by_sid[sid]
            key = 'C01:%s:crash%s' % (cname, crash_condition(scn, cname, r.get('crash_state'),
                                                            r.get('crash_nstates', 1)))
            R.count('fail:' + key)
            if R.d['distribution']['fail:' + key] <= 3:
                R.prop_fail(key, {'scenario': scn, 'cls': cname, 'cfg': scn['cfgs'][cname]},
                            'a neighbour list for every query',
                            'the process running the neighbour search died: %s; arrays at '
                            'that point: %s' % (r['crash'], json.dumps(r.get('crash_state'))[:1500]))
    # states per scenario: from the first class that produced them
    lines, where = [], []
    states = {}
    for scn in scns:
        sid = scn['sid']
        best = None
        for c in CLASSES:
            r = results.get((sid, c))
            if r and r.get('machinery'):
                raise SystemExit('harness error in %s/%s:\n%s' % (sid, c, r['machinery']))
            if r and r.get('states') and (best is None or len(r['states']) > len(best)):
                best = r['states']
        states[sid] = best or []
        for c in CLASSES:
            r = results.get((sid, c))
            if r and r.get('states'):
                if r['states'] != states[sid][:len(r['states'])]:
                    raise SystemExit('state histories differ between classes (%s, %s)' % (sid, c))
        for k, st in enumerate(states[sid]):
            small = sum(len(a['h']) for a in st) <= 24
            lines.append(model_line(scn, st, 'self' if small else 'q'))
            where.append((sid, k))
    tw, tc = time.time(), _cpu()
    outs = run_model_parallel(lines)
    R.note('%s: model q/self lines took %.0f s wall, %.0f s cpu' % (tag, time.time() - tw, _cpu() - tc))
    model = {}
    for (sid, k), o, ln in zip(where, outs, lines):
        if o == 'bad-op':
            raise SystemExit('model driver rejected: ' + ln[:300])
        cs, hm, flags, ptxt = parse_model(o)
        scn = by_sid[sid]
        if not scn['unit']:
            ptxt = nondy_model_text(scn, states[sid][k], ptxt)
        model[(sid, k)] = (cs, hm, flags, ptxt, ln)
        for f, v in flags.items():
            R.count('model-selftest-%s' % f)
            if v != 'ok':
                R.disagree({'line': ln}, 'sub-model %s differs from bruteForce' % f,
                           'n/a', 'model-selftest')
    # compare
    for scn in scns:
        sid = scn['sid']
        R.count('gen:' + scn['gen'])
        R.count('dim:%d' % scn['dim'])
        R.count('narr:%d' % len(scn['arrays']))
        R.count('steps:%d' % len(scn['steps']))
        for c in CLASSES:
            r = results.get((sid, c))
            if r is None:
                continue
            if r.get('skipped'):
                R.count('skipped:' + r['skipped'].split('-step')[0])
            if r.get('cfg_changed'):
                R.count('cfg-changed:' + c)
            nontrivial = False
            for k, shas in enumerate(r.get('steps', [])):
                cs, hm, flags, ptxt, ln = model[(sid, k)]
                msha = hashlib.sha1(ptxt.encode()).hexdigest()
                # model vs oracle (the oracle text travelled with the worker result)
                if ptxt != r['oracle_text'][k]:
                    R.disagree({'scenario': scn, 'step': k, 'line': ln[:2000]}, ptxt[:2000],
                               r['oracle_text'][k][:2000], 'model-vs-independent-oracle')
                if ',' in ptxt.replace(':', ','):
                    nontrivial = nontrivial or any(',' in b.split(':', 2)[2]
                                                   for b in ptxt.split(' P ') if ':' in b)
                # front end: cell size and hmin
                ics, ihm = r['cs'][k]

                def _q(v):
                    # the implementation may report inf/nan (never a crash of
                    # the harness: it is a disagreement with the model)
                    return Fraction(v) if math.isfinite(v) else None
                if _q(ics) != cs:
                    R.disagree({'scenario': scn, 'step': k, 'cls': c}, H.qstr(cs),
                               repr(ics), 'cell_size')
                if hm is not None and _q(ihm) != hm:
                    R.disagree({'scenario': scn, 'step': k, 'cls': c}, H.qstr(hm),
                               repr(ihm), 'hmin')
                for mi, sh in enumerate(shas):
                    R.d['traces_validated_against_impl'] += 1
                    if sh != msha:
                        fk = {'C01:%s:%s' % (c, kk)
                              for kk in r.get('fail_keys', {}).get(str(k), [])}
                        if fk and fk <= known:
                            R.count('known-finding-disagreement')
                        else:
                            R.disagree({'scenario': scn, 'cls': c, 'cfg': r.get('cfg'),
                                        'step': k, 'mode': mi}, ptxt[:1500],
                                       r.get('impl_text', {}).get('%d:%d' % (k, mi), '')[:1500],
                                       'neighbour-lists')
            for f in r.get('fails', []):
                key = 'C01:%s:%s' % (c, f['key'])
                R.count('fail:' + key)
                if R.d['distribution']['fail:' + key] > 3:
                    continue            # three replays per key are enough
                R.prop_fail(key, {'scenario': scn, 'cls': c, 'cfg': r.get('cfg'),
                                  'step': f['step'], 'mode': f['mode'],
                                  'd': f['d'], 's': f['s'], 'i': f['i']},
                            'neighbours of destination %d of array %d in source array %d '
                            '= %r (every j with dist < radius_scale*max(h_i,h_j), once each)'
                            % (f['i'], f['d'], f['s'], f['want']),
                            'returned %r' % (f['got'],))
            R.count('class-runs')
            fp = hashlib.sha1(json.dumps([scn['arrays'], scn['steps'], scn['rs'], scn['dim'],
                                          c, r.get('cfg')], sort_keys=True).encode()).hexdigest()
            R.case(fp, nontrivial and bool(r.get('steps')),
                   {'scenario': {k2: scn[k2] for k2 in ('gen', 'dim', 'rs', 'steps')},
                    'n': [len(a['h']) for a in scn['arrays']], 'cls': c,
                    'cfg': r.get('cfg'), 'model': model[(sid, 0)][3][:300] if (sid, 0) in model else None,
                    'impl_sha': r.get('steps')} if len(R.d['samples']) < 4 and c == 'ZOrderNNPS' else None)
    for fn in (check_real_trees, check_zorder_internals, check_strat_levels):
        tw, tc = time.time(), _cpu()
        fn(scns, results, R)
        R.note('%s: %s took %.0f s wall, %.0f s cpu' % (tag, fn.__name__, time.time() - tw, _cpu() - tc))
    for fn in (check_bounds, check_alias):
        tw, tc = time.time(), _cpu()
        fn(scns, results, states, R)
        R.note('%s: %s took %.0f s wall, %.0f s cpu' % (tag, fn.__name__, time.time() - tw, _cpu() - tc))
    return results


def corpus():
    """minimised past failures; always run first"""
    base = {'dim': 2, 'rs': [2, 1], 'unit': U, 'steps': [], 'threads': 1, 'gen': 'corpus'}
    out = []
    # F1: destination (array 1) sits in a cell that holds no particle of array 0
    out.append(dict(base, sid='corpus-f1', arrays=[
        {'x': [0, 100], 'y': [0, 0], 'z': [0, 0], 'h': [256, 256]},
        {'x': [700], 'y': [0], 'z': [0], 'h': [256]}]))
    # F2: single array, variable h, symmetric ExtendedZOrder
    out.append(dict(base, sid='corpus-f2', dim=1, arrays=[
        {'x': [0, 300, 600, 900, 1200, 1500, 1800], 'y': [0] * 7, 'z': [0] * 7,
         'h': [512, 64, 64, 512, 64, 64, 256]}]))
    # exact ties: distance == radius_scale*h must NOT be a neighbour
    out.append(dict(base, sid='corpus-tie', dim=3, arrays=[
        {'x': [0, 768, 769, 767], 'y': [0, 1024, 1024, 1024], 'z': [0, 0, 0, 0],
         'h': [640, 640, 640, 640]}]))
    # empty array next to a populated one; all arrays empty
    out.append(dict(base, sid='corpus-empty', arrays=[
        {'x': [0, 512, 1024], 'y': [0, 0, 512], 'z': [0, 0, 0], 'h': [256, 256, 256]},
        _empty_arr()]))
    # empty array + cloud far from the origin
    F = 10 ** 6 * U
    out.append(dict(base, sid='corpus-empty-far', dim=3, arrays=[
        {'x': [F, F + 512, F + 1024], 'y': [F, F, F + 512], 'z': [F, F + 100, F],
         'h': [256, 256, 256]}, _empty_arr()]))
    # cached query repeated after update() without a new set_context
    g = random.Random(7)
    out.append(dict(base, sid='corpus-stale-ctx', dim=3, ctx='implicit', arrays=[
        {'x': [g.randrange(0, 2048) for _ in range(40)], 'y': [g.randrange(0, 2048) for _ in range(40)],
         'z': [g.randrange(0, 2048) for _ in range(40)], 'h': [256] * 40}],
        steps=[[{'op': 'add', 'a': 0, 'x': [g.randrange(0, 2048) for _ in range(400)],
                 'y': [g.randrange(0, 2048) for _ in range(400)],
                 'z': [g.randrange(0, 2048) for _ in range(400)], 'h': [128] * 400}]]))
    rng = random.Random(20260925)
    for s in out:
        s['cfgs'] = {c: _pick_knobs(rng, c, None) for c in CLASSES}
    # pin the configurations the findings are about
    out[0]['cfgs']['ExtendedZOrderNNPS']['knobs'] = {'H': 3, 'asymmetric': True}
    out[1]['cfgs']['ExtendedZOrderNNPS']['knobs'] = {'H': 3, 'asymmetric': False}
    for c in CLASSES:
        # cache off first: step 1 then starts with the cached pass
        out[-1]['cfgs'][c]['cache0'] = False
    if True:
        # pinned corpus state of a repaired defect (known_findings.json, fixed:
        # C01:StratifiedSFCNNPS:level-eps-sliver); see Props/C01.lean
        # sfc_level_eps_sliver.  StratifiedSFCNNPS, 2 levels,
        # cell_size 2^-9: source particle 3 has rs*h = s0*(1 + 2e-11) with s0 the
        # level-0 cell size, is binned at level 0, sits two cells from
        # destination particle 2 at distance s0*(1 + 1e-11) < rs*h.
        hmax = 2.0 ** -10
        s0 = hmax
        X = 40 * s0
        xmin = 0.0 - 0.01 * X
        xq = xmin + 10 * s0
        while math.floor((xq - xmin) / s0) != 9:
            xq = float(np.nextafter(xq, -1))
        xj = xq + s0 * (1 + 1e-11)
        sl = dict(base, sid='corpus-sfc-eps-sliver', dim=1, unit=0, gen='corpus', arrays=[
            {'x': [0.0, X, xq, xj], 'y': [0.0] * 4, 'z': [0.0] * 4,
             'h': [hmax, hmax, 0.3 * s0 / 2, (s0 / 2) * (1 + 2e-11)]}])
        sl['cfgs'] = {c: _pick_knobs(rng, c, None) for c in CLASSES}
        sl['cfgs']['StratifiedSFCNNPS']['knobs'] = {'num_levels': 2}
        sl['cfgs']['StratifiedHashNNPS']['knobs'] = {'num_levels': 2, 'H': 1, 'table_size': 131072}
        for c in CLASSES:
            sl['cfgs'][c]['fixed_h'] = False
        out.append(sl)
    return out


def replay(case, R):
    scn = case['scenario']
    cname = case['cls']
    if case.get('probe') == 'first-cached-query':
        why = probe_first_cached_query(scn, cname)
        print('first cached query without set_context:', why or 'fine')
        return 1 if why else 0
    cfg = case.get('cfg') or scn['cfgs'][cname]
    scn = dict(scn)
    scn['cfgs'] = dict(scn.get('cfgs', {}))
    scn['cfgs'][cname] = cfg
    res = _run_isolated(scn, cname)
    if res.get('crash'):
        print('the process running the neighbour search died: %s' % res['crash'])
        return 1
    if res.get('machinery'):
        print(res['machinery'])
        return 2
    print(json.dumps({'fails': res['fails'], 'error': res['error'],
                      'skipped': res['skipped']}, indent=1)[:6000])
    return 1 if res['fails'] else 0


def main():
    a = H.args()
    R = H.Result(
        'one case = one (scenario, class, knob setting): 1-3 particle arrays of 0-60 '
        '(thorough: 300) particles on the dyadic grid in 1/2/3-D, generator classes uniform / '
        'variable h over up to 3 decades / clustered / lattice on cell faces / collinear / '
        'coplanar / coincident / single / empty arrays / far from origin / sparse multi-array / '
        'exact ties, followed by 0-3 update steps (move, change h, add, remove); every '
        '(src, dst, i) is queried with the cache off and on (miss, hit, OpenMP fill); '
        'distinct = distinct (arrays, history, class, knobs); non-trivial = at least one '
        'query has two or more neighbours and the class ran at least one step.  Added streams: '
        'padded-face (extents solved so that the largest coordinate / the padded upper limit / inner '
        'particles lie EXACTLY on cell faces of the grid whose origin is the padded minimum, 1-2 states), '
        'decimal-lattice (round-number SPH lattices, one axis up to 100 (thorough 200) cells long); on '
        'every state of every scenario an API-usage history is run (cached / un-cached / prealloc '
        'calls and cache resets mixed on the live object and a second object of another class, output '
        'arrays shared between the calls, every used cache entry read again at the end) and the bounds '
        'xmin / xmax / ncells_per_dim of every real object are compared bit for bit with the Float run '
        'of Model/NnpsBounds')
    R.work = a.work
    if a.replay:
        rp = json.load(open(a.replay))
        sys.exit(replay(rp['case'], R))
    # the very first cached query, without set_context (one per class)
    probe = corpus()[2]
    for c in CLASSES:
        if c == 'DictBoxSortNNPS':
            continue
        why = probe_first_cached_query(probe, c)
        R.count('probe-first-cached-query')
        if why:
            R.count('fail:C01:NNPS:cached-query-before-set_context')
            if len([f for f in R.d['property_failures']
                    if f['key'] == 'C01:NNPS:cached-query-before-set_context']) < 2:
                R.prop_fail('C01:NNPS:cached-query-before-set_context',
                            {'probe': 'first-cached-query', 'scenario': probe, 'cls': c},
                            'get_nearest_particles(0, 0, 0, nbrs) on a freshly built %s('
                            'cache=True) returns the neighbours of particle 0' % c, why)
    rng = random.Random(a.seed * 1000003 + 101)
    nscn = 130 if a.tier == 'quick' else 1500
    nscn = int(os.environ.get('C01_NSCN', nscn))
    scns = corpus()
    R.count('corpus', len(scns))
    scns += [gen_scenario(rng, 's%d' % k, big=(a.tier != 'quick' and k % 10 == 0))
             for k in range(nscn)]
    scns += [gen_nondyadic(rng, 'n%d' % k) for k in range(10 if a.tier == 'quick' else 100)]
    # own streams (do not shift the scenarios above): particles exactly on faces of the padded
    # grid; round-number lattices up to ~100 (thorough: 200) cells long
    rngf = random.Random(a.seed * 7919 + 11)
    scns += [gen_face(rngf, 'f%d' % k) for k in range(int(os.environ.get(
        'C01_NFACE', 24 if a.tier == 'quick' else 300)))]
    scns += [gen_decimal(rngf, 'l%d' % k, big=(a.tier != 'quick')) for k in range(int(os.environ.get(
        'C01_NDEC', 5 if a.tier == 'quick' else 40)))]
    # the real octrees are dumped and checked (TreeInv) for every scenario of a quick
    # run; a thorough run samples the larger ones (every 4th)
    for k, scn in enumerate(scns):
        npart = sum(len(arr['h']) for arr in scn['arrays'])
        scn['dump_tree'] = (a.tier == 'quick' or k % 4 == 0 or npart <= 80) and \
            (npart <= 320 or (a.tier != 'quick' and k % 8 == 0))
    t0 = time.time()
    evaluate(scns, R, a.work, 'main')
    R.note('main pass: %d scenarios x 12 classes in %.0f s' % (len(scns), time.time() - t0))
    unknown = [f for f in R.d['property_failures'] if f['key'] not in known_keys()]
    if (a.broken or R.d['disagreements'] or unknown) and not os.environ.get('C01_NOSEARCH'):
        # failing-input search on the real code: more scenarios, weighted towards
        # the multi-array / variable-h generators where the bookkeeping differs
        rng2 = random.Random(a.seed + 777)
        extra = [gen_scenario(rng2, 'x%d' % k,
                              force=rng2.choice(['sparse-multi', 'varh', 'varh-multi',
                                                 'lattice', 'tie', None]))
                 for k in range(250)]
        extra += [gen_face(rng2, 'xf%d' % k) for k in range(60)]
        before = len(R.d['property_failures'])
        evaluate(extra, R, a.work, 'search')
        R.d['search'] = {'extra_scenarios': len(extra),
                         'found': len(R.d['property_failures']) - before}
    R.write(a.out)


if __name__ == '__main__':
    main()
