"""C19 correspondence + property oracle: adaptive time step.

impl : pysph.sph.integrator.Integrator.compute_time_step / compute_h_minimum,
       pysph.solver.solver.Solver._compute_timestep  (scratch build of /repo)
model: lean PysphVerif.Model.AdaptDt at Float (bit-exact comparison)
oracle: the property statement evaluated with numpy (tolerance 1e-12 rel.)
"""
import json
import math
import random
import sys

import numpy as np

import hcommon as H

H.assert_scratch_import()
from pysph.base.utils import get_particle_array  # noqa: E402
from pysph.sph.integrator import Integrator  # noqa: E402
from pysph.solver.solver import Solver  # noqa: E402

CRIT = ('dt_cfl', 'dt_force', 'dt_visc')


class _AEval:
    def __init__(self, arrays):
        self.particle_arrays = arrays


def gen_case(rng, big=False):
    narr = rng.choice([1, 1, 2, 2, 3, 4 if big else 3])
    style = rng.choice(['mixed', 'mixed', 'allzero', 'nocrit', 'adapt',
                        'bigh', 'smallh'])
    arrs = []
    for a in range(narr):
        n = rng.choice([0, 1, 2, 3, 5, 8 if big else 4])
        if rng.random() < 0.15:
            n = 0
        nghost = rng.choice([0, 0, 1, 2]) if n > 0 else 0
        nghost = min(nghost, n)
        if rng.random() < 0.04 and n > 0:
            nghost = n          # only ghosts
        tags = [0] * (n - nghost) + [2] * nghost
        if style == 'bigh':
            h = [rng.choice([1.5, 2.0, 3.25, 10.0]) * rng.choice([1, 1.5])
                 for _ in range(n)]
        elif style == 'smallh':
            h = [rng.uniform(1e-6, 0.5) for _ in range(n)]
        else:
            h = [10 ** rng.uniform(-3, 1.5) for _ in range(n)]
        props = {}
        for c in CRIT:
            if style == 'nocrit':
                continue
            if rng.random() < 0.6:
                if style == 'allzero' or rng.random() < 0.15:
                    props[c] = [0.0] * n
                else:
                    props[c] = [rng.choice([0.0, 10 ** rng.uniform(-4, 4)])
                                for _ in range(n)]
        if (style == 'adapt' and rng.random() < 0.7) or rng.random() < 0.08:
            z = rng.random()
            props['dt_adapt'] = [
                (0.0 if z < 0.15 and rng.random() < 0.5
                 else 10 ** rng.uniform(-6, 0)) for _ in range(n)]
        arrs.append({'name': 'a%d' % a, 'tag': tags, 'h': h, 'props': props})
    case = {
        'arrays': arrs,
        'cfl': rng.choice([0.3, 0.25, 0.1, 1.0, rng.uniform(0.01, 2.0)]),
        'dt': 10 ** rng.uniform(-5, -1),
        'damping': rng.choice([1.0, 1.0, 2.0, 1.0 / rng.uniform(0.01, 1.0)]),
        'fixed_h': rng.random() < 0.3,
        # with fixed_h the smoothing lengths may change after h_minimum was
        # cached; the cached value must then still be used
        'h_scale_after_fix': rng.choice([1.0, 1.0, 0.5, 4.0]),
    }
    return case


def build(case):
    pas = []
    for a in case['arrays']:
        n = len(a['tag'])
        kw = dict(name=a['name'])
        if n:
            kw.update(x=np.arange(n, dtype=float), h=np.array(a['h']),
                      tag=np.array(a['tag'], dtype=np.int32))
        pa = get_particle_array(**kw)
        for k, v in a['props'].items():
            pa.add_property(k)
            if n:
                pa.get_carray(k).get_npy_array()[:] = v
        if n:
            pa.align_particles()
        pas.append(pa)
    return pas


def run_impl(case):
    """returns dict: cts, sol, hmin  (each 'none' | ('val', float) | 'inf' |
    ('raise', type))"""
    pas = build(case)
    for pa in pas:
        pa.update_min_max()
    integ = Integrator()
    integ.set_acceleration_evals(_AEval(pas))
    out = {}
    try:
        integ.set_fixed_h(case['fixed_h'])
        out['fixed_cached'] = float(integ.h_minimum) if case['fixed_h'] else None
    except Exception as e:      # noqa
        out['fixed_cached'] = ('raise', type(e).__name__)
    if case['fixed_h'] and case['h_scale_after_fix'] != 1.0:
        for pa in pas:
            pa.get_carray('h').get_npy_array()[:] *= case['h_scale_after_fix']
            pa.update_min_max()
    # h as the integrator sees it now
    out['h_now'] = [list(map(float, pa.get('h', only_real_particles=False)))
                    for pa in pas]
    und = case['dt'] / case['damping']

    def conv(r):
        if r is None:
            return 'none'
        r = float(r)
        if math.isinf(r):
            return 'inf'
        return ('val', r)
    try:
        out['cts'] = conv(integ.compute_time_step(und, case['cfl']))
    except Exception as e:      # noqa
        out['cts'] = ('raise', type(e).__name__)
    s = Solver.__new__(Solver)
    s.adaptive_timestep = True
    s.integrator = integ
    s.cfl = case['cfl']
    s.in_parallel = False
    s.dt = case['dt']
    s._damping_factor = case['damping']
    try:
        out['sol'] = conv(s._compute_timestep())
    except Exception as e:      # noqa
        out['sol'] = ('raise', type(e).__name__)
    i2 = Integrator()
    i2.set_acceleration_evals(_AEval(pas))
    try:
        i2.compute_h_minimum()
        out['hmin'] = conv(i2.h_minimum)
    except Exception as e:      # noqa
        out['hmin'] = ('raise', type(e).__name__)
    # real-particle views as the implementation exposes them
    out['real'] = [{k: list(map(float, pa.get(k))) for k in
                    CRIT + ('dt_adapt',) if k in pa.properties} for pa in pas]
    return out


def model_lines(case, impl):
    und = case['dt'] / case['damping']
    toks = []
    for a, hn, real in zip(case['arrays'], impl['h_now'], impl['real']):
        n = len(a['tag'])
        t = ['A', 'n=%d' % n, 'h=' + H.flist(hn)]
        for key, nm in (('ad', 'dt_adapt'), ('c', 'dt_cfl'), ('f', 'dt_force'),
                        ('v', 'dt_visc')):
            t.append('%s=%s' % (key, H.flist(real[nm]) if nm in real else '-'))
        toks += t
    arrs = ' '.join(toks)
    fx = '-'
    if case['fixed_h']:
        fc = impl['fixed_cached']
        if isinstance(fc, float):
            fx = 'inf' if math.isinf(fc) else H.fbits(fc)
    head = 'cfl=%s und=%s fixed=%s' % (H.fbits(case['cfl']), H.fbits(und), fx)
    return ['cts %s %s' % (head, arrs), 'sol %s %s' % (head, arrs),
            'hmin ' + arrs]


def canon(r):
    if isinstance(r, tuple) or isinstance(r, list):
        if r[0] == 'val':
            return 'val ' + H.fbits(r[1])
        return 'error'
    return r


def oracle(case, impl):
    """The property statement, evaluated independently of model and code.
    Returns (expected, why) with expected None (no adaptive constraint) or a
    float, or 'skip' when the statement does not determine the value."""
    arrs = case['arrays']
    real = impl['real']
    if sum(len(a['tag']) for a in arrs) == 0:
        return 'skip', 'no particles'
    has_adapt = any('dt_adapt' in r for r in real)
    if has_adapt:
        vals = [v for r in real if 'dt_adapt' in r for v in r['dt_adapt']]
        if not vals:
            return 'skip', 'dt_adapt present but no real particle carries it'
        m = min(vals)
        if m > 0:
            return m, 'min dt_adapt over real particles'
    if case['fixed_h']:
        fc = impl['fixed_cached']
        hmin = fc if isinstance(fc, float) else None
        # the cached value must itself be the smallest h at caching time
        h0 = [v for a in arrs for v in a['h']]
        want = min(h0) if h0 else math.inf
        if hmin is None or not rel_eq(hmin, want):
            return ('bad-hmin', want, fc), 'cached h_minimum'
    else:
        hs = [v for hn in impl['h_now'] for v in hn]
        hmin = min(hs)
    cands = []
    mx = {}
    for c in CRIT:
        vals = [v for r in real if c in r for v in r[c]]
        mx[c] = max(vals) if vals else -1.0
    if mx['dt_cfl'] > 0:
        cands.append(hmin / mx['dt_cfl'])
    if mx['dt_force'] > 0:
        cands.append(math.sqrt(hmin / math.sqrt(mx['dt_force'])))
    if mx['dt_visc'] > 0:
        cands.append(hmin / mx['dt_visc'])
    if not cands:
        return None, 'no positive criterion'
    return case['cfl'] * min(cands), 'cfl*min(criteria)'


def rel_eq(a, b, tol=1e-12):
    if a == b:
        return True
    return abs(a - b) <= tol * max(abs(a), abs(b))


def classify(case, impl, exp):
    """key naming the class of failing input (for known_findings.json)"""
    arrs = case['arrays']
    if any(a['tag'] and all(t != 0 for t in a['tag']) and 'dt_adapt' in a['props']
           for a in arrs):
        return 'C19:ghost-only-array-with-dt_adapt'
    if any(len(a['tag']) == 0 for a in arrs) and \
            any(len(a['tag']) > 0 for a in arrs):
        e = 'with-empty-array'
    else:
        e = 'no-empty-array'
    hs = [v for a in arrs for v in a['h']]
    hb = 'all-h-above-1' if hs and min(hs) > 1.0 else 'some-h-below-1'
    return 'C19:%s:%s' % (e, hb)


def check_cases(cases, R, tag0=0):
    """run implementation on every case, the model once over all lines"""
    impls = [run_impl(c) for c in cases]
    lines = [model_lines(c, im) for c, im in zip(cases, impls)]
    flat = [ln for ls in lines for ln in ls]
    out = H.run_model('C19', flat)
    if len(out) != len(flat):
        raise SystemExit('model driver answered %d lines for %d' % (len(out), len(flat)))
    for k, (c, im, ls) in enumerate(zip(cases, impls, lines)):
        check_case(c, R, tag0 + k, im, ls, out[3 * k:3 * k + 3])
        check_order_independence(c, im, R)


def check_order_independence(case, impl, R):
    """Props.C19 compute_time_step_array_order_independent / hmin_multiset_only
    evaluated on the implementation: the same arrays handed over in another
    order, and the same particles with each array's rows reversed, must give
    the very same step (min/max are exact, so the comparison is bit-exact)."""
    arrs = case['arrays']
    if len(arrs) < 2 and not any(len(a['tag']) > 1 for a in arrs):
        return
    variants = []
    if len(arrs) >= 2:
        variants.append(('arrays-reversed', list(reversed(arrs))))
        variants.append(('arrays-rotated', arrs[1:] + arrs[:1]))
    rev = []
    for a in arrs:
        # `build` needs real particles first (the constructor aligns before
        # the extra properties are filled in): reverse the real and the ghost
        # segment separately, tags stay as they are
        nr = sum(1 for t in a['tag'] if t == 0)

        def seg(v):
            return list(reversed(v[:nr])) + list(reversed(v[nr:]))
        b = dict(a)
        b['h'] = seg(a['h'])
        b['props'] = {k: seg(v) for k, v in a['props'].items()}
        rev.append(b)
    variants.append(('rows-reversed', rev))
    want = [canon(impl['cts']), canon(impl['sol']), canon(impl['hmin'])]
    for nm, va in variants:
        c2 = dict(case)
        c2['arrays'] = va
        im2 = run_impl(c2)
        got = [canon(im2['cts']), canon(im2['sol']), canon(im2['hmin'])]
        R.count('order-variant:' + nm)
        if got != want:
            R.prop_fail('C19:order-dependent:' + nm, case,
                        'same particles, %s: (cts, sol, hmin) = %r' % (nm, want),
                        repr(got))


def check_case(case, R, tag, impl, lines, mod):
    got = [canon(impl['cts']), canon(impl['sol']), canon(impl['hmin'])]
    for ln, m, g, nm in zip(lines, mod, got, ('cts', 'sol', 'hmin')):
        if m != g:
            R.disagree({'case': case, 'line': ln}, m, g, nm)
    # oracle
    exp, why = oracle(case, impl)
    cts = impl['cts']
    ok = True
    if exp == 'skip':
        R.count('oracle-skip')
    elif isinstance(exp, tuple):
        ok = False
        R.prop_fail(classify(case, impl, exp), case,
                    'h_minimum cached by set_fixed_h is the smallest h (%r)'
                    % exp[1], 'h_minimum = %r' % (exp[2],))
    elif exp is None:
        if cts != 'none':
            ok = False
            R.prop_fail(classify(case, impl, exp), case,
                        'no criterion applies: compute_time_step returns None',
                        repr(cts))
        elif not (isinstance(impl['sol'], tuple) and impl['sol'][0] == 'val'
                  and impl['sol'][1] == case['dt'] / case['damping']):
            ok = False
            R.prop_fail('C19:fallback', case, 'the fixed step is kept',
                        repr(impl['sol']))
    else:
        if not (isinstance(cts, tuple) and cts[0] == 'val'
                and rel_eq(cts[1], exp)):
            ok = False
            R.prop_fail(classify(case, impl, exp), case,
                        '%s = %r' % (why, exp), repr(cts))
        elif impl['sol'] != cts:
            ok = False
            R.prop_fail('C19:solver-uses-integrator-value', case,
                        'Solver._compute_timestep = %r' % (cts,),
                        repr(impl['sol']))
    # never exceeds what any single particle allows (statement's last clause)
    if ok and isinstance(cts, tuple) and cts[0] == 'val' and not case['fixed_h'] \
            and not any('dt_adapt' in r for r in impl['real']):
        hs = [v for hn in impl['h_now'] for v in hn]
        for r in impl['real']:
            for c in CRIT:
                for v in r.get(c, []):
                    if v > 0:
                        for hv in hs:
                            lim = hv / v if c != 'dt_force' else \
                                math.sqrt(hv / math.sqrt(v))
                            if cts[1] > case['cfl'] * lim * (1 + 1e-12):
                                R.prop_fail('C19:exceeds-particle', case,
                                            '<= cfl*%r' % lim, repr(cts))
    branch = 'adapt' if any('dt_adapt' in r for r in impl['real']) else (
        'none' if cts == 'none' else 'criteria')
    R.count('branch:' + branch)
    R.count('narr:%d' % len(case['arrays']))
    if case['fixed_h']:
        R.count('fixed_h')
    if any(len(a['tag']) == 0 for a in case['arrays']):
        R.count('has-empty-array')
    nontrivial = sum(len(a['tag']) for a in case['arrays']) > 0 and \
        any(a['props'] for a in case['arrays'])
    R.case(json.dumps(case, sort_keys=True), nontrivial,
           {'case': case, 'impl': got, 'model': mod} if tag < 3 else None)
    R.d['traces_validated_against_impl'] += 1


# ----------------------------------------------------------- histories
# One integrator lives through a whole run: set_fixed_h and compute_time_step
# are called many times on arrays that change in between (particles come and
# go, h changes, criterion properties are added or removed, an array that was
# empty at the first call fills up).  The integrator caches `_has_dt_adapt`,
# `fixed_h` and `h_minimum`; no cache may make a later step differ from the
# documented value for the *current* particles.  The model runs the same op
# sequence as a state machine (Model.AdaptDt.IState) and its state is compared
# with the integrator's attributes after every op.

def _gen_arrays(rng, prev, fixed_props=None):
    """next array specs from the previous ones (names and count are fixed)"""
    nxt = []
    for a in prev:
        n = rng.choice([0, 1, 2, 3, 5])
        if rng.random() < 0.35:
            n = len(a['tag'])
        nghost = min(n, rng.choice([0, 0, 1]))
        hstyle = rng.choice(['any', 'any', 'small', 'big'])
        if hstyle == 'small':
            h = [10 ** rng.uniform(-4, -1) for _ in range(n)]
        elif hstyle == 'big':
            h = [10 ** rng.uniform(0.2, 1.5) for _ in range(n)]
        else:
            h = [10 ** rng.uniform(-3, 1.5) for _ in range(n)]
        names = set(a['props'])
        # criterion properties come and go (append_parray / add_property /
        # remove_property between steps); dt_adapt changes rarely because the
        # statement's "when that property is used" is decided at the first call
        for c in CRIT:
            if rng.random() < 0.18:
                names ^= {c}
        if rng.random() < 0.03:
            names ^= {'dt_adapt'}
        props = {}
        for c in sorted(names):
            if c == 'dt_adapt':
                props[c] = [10 ** rng.uniform(-6, 0) for _ in range(n)]
            else:
                big = rng.random() < 0.3
                props[c] = [rng.choice([0.0, 10 ** rng.uniform(-4, 4)]) * (100.0 if big else 1.0)
                            for _ in range(n)]
        nxt.append({'name': a['name'], 'tag': [0] * (n - nghost) + [2] * nghost,
                    'h': h, 'props': props})
    return nxt


def gen_history(rng):
    base = gen_case(rng)
    base.pop('fixed_h', None)
    base.pop('h_scale_after_fix', None)
    arrays0 = base.pop('arrays')
    if rng.random() < 0.4:
        # the interesting start: some arrays begin empty and bare (an outlet
        # buffer), and gain particles and properties later
        for a in arrays0:
            if rng.random() < 0.6:
                a['tag'] = []
                a['h'] = []
                a['props'] = {} if rng.random() < 0.5 else {c: [] for c in a['props']}
    ops = []
    cur = arrays0
    nops = rng.choice([3, 4, 6, 9])
    for k in range(nops):
        z = rng.random()
        if z < 0.3:
            ops.append({'op': 'fix', 'b': rng.random() < 0.65})
        elif z < 0.6:
            cur = _gen_arrays(rng, cur)
            ops.append({'op': 'set', 'arrays': cur})
        elif z < 0.7:
            # only h changes (refinement), everything else stays
            f = rng.choice([0.5, 0.25, 2.0, 0.1])
            cur = [dict(a, h=[v * f for v in a['h']]) for a in cur]
            ops.append({'op': 'set', 'arrays': cur})
        else:
            if rng.random() < 0.25:
                # a parallel run: the other ranks' offers to the min-reduction
                # (1e20 = "no constraint on that rank")
                others = [rng.choice([1e20, 1e20, 10 ** rng.uniform(-6, -1)])
                          for _ in range(rng.choice([1, 1, 2, 3]))]
                ops.append({'op': 'par', 'others': others})
            else:
                ops.append({'op': rng.choice(['cts', 'cts', 'sol'])})
    ops.append({'op': 'cts'})
    base['arrays0'] = arrays0
    base['ops'] = ops
    return base


def reload(pa, a):
    n0 = pa.get_number_of_particles()
    if n0:
        pa.remove_particles(list(range(n0)))
    for k in list(pa.properties):
        if k in CRIT + ('dt_adapt',) and k not in a['props']:
            pa.remove_property(k)
    for k in a['props']:
        if k not in pa.properties:
            pa.add_property(k)
    n = len(a['tag'])
    if n:
        kw = dict(x=np.arange(n, dtype=float), h=np.array(a['h']),
                  tag=np.array(a['tag'], dtype=np.int32))
        for k, v in a['props'].items():
            kw[k] = np.array(v)
        pa.add_particles(**kw)
    pa.align_particles()


class _PM:
    """stands in for ParallelManager.update_time_steps (an MPI Allreduce(MIN)):
    the other ranks' offers are given"""
    def __init__(self, others):
        self.others = others

    def update_time_steps(self, local_dt):
        return min([float(local_dt)] + list(self.others))


def _conv(r):
    if r is None:
        return 'none'
    r = float(r)
    return 'inf' if math.isinf(r) else ('val', r)


def _arr_tokens(pas):
    toks = []
    for pa in pas:
        n = pa.get_number_of_particles()
        t = ['A', 'n=%d' % n,
             'h=' + H.flist(list(map(float, pa.get('h', only_real_particles=False))))]
        for key, nm in (('ad', 'dt_adapt'), ('c', 'dt_cfl'), ('f', 'dt_force'),
                        ('v', 'dt_visc')):
            t.append('%s=%s' % (key, H.flist(list(map(float, pa.get(nm))))
                                if nm in pa.properties else '-'))
        toks += t
    return ' '.join(toks)


def _impl_state(integ):
    fl = integ._has_dt_adapt
    hm = getattr(integ, 'h_minimum', None)
    return 'flag=%s fixed=%s hmin=%s' % (
        '-' if fl is None else ('1' if fl else '0'),
        '1' if integ.fixed_h else '0',
        '-' if hm is None else ('inf' if math.isinf(float(hm)) else H.fbits(float(hm))))


def run_history(hc):
    """returns (model lines, impl answers, per-op snapshots)"""
    pas = build({'arrays': hc['arrays0']})
    integ = Integrator()
    integ.set_acceleration_evals(_AEval(pas))
    s = Solver.__new__(Solver)
    s.adaptive_timestep = True
    s.integrator = integ
    s.cfl = hc['cfl']
    s.in_parallel = False
    s.dt = hc['dt']
    s._damping_factor = hc['damping']
    und = hc['dt'] / hc['damping']
    head = 'cfl=%s und=%s' % (H.fbits(hc['cfl']), H.fbits(und))
    lines, answers, snaps = ['hnew'], ['ok'], [None]
    for pa in pas:
        pa.update_min_max()
    for op in hc['ops']:
        snap = None
        if op['op'] == 'set':
            for pa, a in zip(pas, op['arrays']):
                reload(pa, a)
            for pa in pas:
                pa.update_min_max()
            continue
        if op['op'] == 'fix':
            lines.append('hfix b=%d %s' % (1 if op['b'] else 0, _arr_tokens(pas)))
            try:
                integ.set_fixed_h(op['b'])
                answers.append('ok')
            except Exception as e:      # noqa
                answers.append('error')
            snap = {'op': 'fix', 'b': op['b'],
                    'h': [v for pa in pas for v in
                          map(float, pa.get('h', only_real_particles=False))]}
        else:
            extra = ''
            if op['op'] == 'par':
                extra = ' big=%s others=%s' % (H.fbits(1e20), H.flist(op['others']))
            lines.append('h%s %s%s %s' % (op['op'], head, extra, _arr_tokens(pas)))
            try:
                if op['op'] == 'cts':
                    r = _conv(integ.compute_time_step(und, hc['cfl']))
                elif op['op'] == 'par':
                    s.in_parallel = True
                    s.pm = _PM(op['others'])
                    try:
                        r = _conv(s._compute_timestep())
                    finally:
                        s.in_parallel = False
                        s.pm = None
                else:
                    r = _conv(s._compute_timestep())
            except Exception as e:      # noqa
                r = ('raise', type(e).__name__ + ': ' + str(e)[:80])
            answers.append(canon(r))
            snap = {'op': op['op'], 'res': r, 'others': op.get('others'),
                    'h': [v for pa in pas for v in
                          map(float, pa.get('h', only_real_particles=False))],
                    'n': sum(pa.get_number_of_particles() for pa in pas),
                    'real': [{c: list(map(float, pa.get(c))) for c in
                              CRIT + ('dt_adapt',) if c in pa.properties} for pa in pas]}
        snaps.append(snap)
        lines.append('hstate')
        answers.append(_impl_state(integ))
        snaps.append(None)
    return lines, answers, snaps


def history_oracle(hc, snaps, R, case):
    """the statement, evaluated step by step with its own bookkeeping: hmin is
    the smallest h now, or with fixed_h the smallest h when it was last fixed"""
    fixed = None            # None: not fixed; else min h at the latest set_fixed_h(True)
    first_flag = None
    und = hc['dt'] / hc['damping']
    ncts = 0
    for sn in snaps:
        if sn is None:
            continue
        if sn['op'] == 'fix':
            fixed = (min(sn['h']) if sn['h'] else math.inf) if sn['b'] else None
            continue
        ncts += 1
        key = 'C19:history:' + ('first-call' if ncts == 1 else 'later-call')
        res, real = sn['res'], sn['real']
        has_adapt = any('dt_adapt' in r for r in real)
        if first_flag is None:
            first_flag = has_adapt
        if has_adapt != first_flag:
            R.count('history-oracle-skip:dt_adapt-property-changed')
            continue
        if sn['n'] == 0:
            R.count('history-oracle-skip:no-particles')
            continue
        exp, why = None, 'no positive criterion'
        done = False
        if has_adapt:
            vals = [v for r in real if 'dt_adapt' in r for v in r['dt_adapt']]
            if not vals:
                R.count('history-oracle-skip:no-real-dt_adapt')
                continue
            if min(vals) > 0:
                exp, why, done = min(vals), 'min dt_adapt over real particles', True
        if not done:
            hmin = fixed if fixed is not None else min(sn['h'])
            cands = []
            mx = {c: max([v for r in real if c in r for v in r[c]] or [-1.0]) for c in CRIT}
            if mx['dt_cfl'] > 0:
                cands.append(hmin / mx['dt_cfl'])
            if mx['dt_force'] > 0:
                cands.append(math.sqrt(hmin / math.sqrt(mx['dt_force'])))
            if mx['dt_visc'] > 0:
                cands.append(hmin / mx['dt_visc'])
            cands = [c for c in cands if not math.isinf(c)]
            if cands:
                exp = hc['cfl'] * min(cands)
                why = 'cfl*min(criteria) with hmin=%r (%s)' % (
                    hmin, 'fixed' if fixed is not None else 'current')
        R.count('history-oracle-step')
        if fixed is not None:
            R.count('history-oracle-step:fixed_h')
        if sn['op'] == 'par':
            # parallel run: the smallest step any rank's particles allow; the
            # fixed step when no rank has a criterion
            offers = [o for o in sn['others'] if o < 1e20] + ([exp] if exp is not None else [])
            want = ('val', min(offers)) if offers else ('val', und)
            R.count('history-oracle-step:parallel')
            if not offers:
                R.count('history-oracle-step:parallel-no-rank-constrained')
            if not (isinstance(res, tuple) and res[0] == 'val' and rel_eq(res[1], want[1])):
                R.prop_fail('C19:parallel:' + ('min-over-ranks' if offers else 'fixed-step-kept'),
                            case, '%r (%s)' % (want, 'smallest offer of any rank' if offers
                                               else 'no rank has a criterion: the fixed step'),
                            repr(res))
            continue
        if exp is None:
            want = 'none' if sn['op'] == 'cts' else ('val', und)
            if res != want:
                R.prop_fail(key, case, 'no criterion applies: %r' % (want,), repr(res))
        elif not (isinstance(res, tuple) and res[0] == 'val' and rel_eq(res[1], exp)):
            R.prop_fail(key, case, '%s = %r at compute call %d of the history'
                        % (why, exp, ncts), repr(res))


def check_histories(hcases, R):
    runs = [run_history(hc) for hc in hcases]
    flat = [ln for (ls, _, _) in runs for ln in ls]
    out = H.run_model('C19', flat)
    if len(out) != len(flat):
        raise SystemExit('model driver answered %d lines for %d' % (len(out), len(flat)))
    pos = 0
    for hc, (ls, ans, snaps) in zip(hcases, runs):
        mod = out[pos:pos + len(ls)]
        pos += len(ls)
        case = {'history': hc}
        for k, (ln, m, g) in enumerate(zip(ls, mod, ans)):
            if m != g:
                R.disagree({'case': case, 'line': ln, 'index': k}, m, g,
                           'history line %d (%s)' % (k, ln.split()[0]))
                break
        history_oracle(hc, snaps, R, case)
        nset = sum(1 for o in hc['ops'] if o['op'] == 'set')
        nfix = sum(1 for o in hc['ops'] if o['op'] == 'fix')
        R.count('history')
        R.count('history-ops', len(hc['ops']))
        if nfix >= 2:
            R.count('history:refix')
        propsets = [tuple(tuple(sorted(a['props'])) for a in o['arrays'])
                    for o in hc['ops'] if o['op'] == 'set']
        if len(set(propsets)) > 1 or (propsets and propsets[0] != tuple(
                tuple(sorted(a['props'])) for a in hc['arrays0'])):
            R.count('history:property-set-changes')
        R.case('H' + json.dumps(case, sort_keys=True), nset + nfix > 0, None)
        R.d['traces_validated_against_impl'] += 1


def corpus():
    """minimised past failures; always run first"""
    one = lambda h, props, tag=None: {'name': 'a', 'tag': tag or [0] * len(h),  # noqa
                                      'h': h, 'props': props}
    base = dict(cfl=0.25, dt=0.01, damping=1.0, fixed_h=False,
                h_scale_after_fix=1.0)
    return [
        # F8: all h above 1
        dict(base, arrays=[one([2.0, 4.0], {'dt_cfl': [1.0, 2.0]})]),
        # F8b: an empty array next to a non-empty one
        dict(base, arrays=[one([0.5, 0.25], {'dt_cfl': [1.0, 2.0]}),
                           one([], {'dt_cfl': []})]),
        dict(base, arrays=[one([0.5], {'dt_force': [4.0]}),
                           one([0.125], {})]),
        dict(base, arrays=[one([0.5], {'dt_adapt': [0.001]}),
                           one([0.125], {'dt_visc': [3.0]})]),
        dict(base, fixed_h=True, h_scale_after_fix=0.5,
             arrays=[one([3.0, 2.0], {'dt_visc': [3.0, 1.0]})]),
    ]


def corpus_histories():
    """hand-written histories for the classes of state the integrator caches"""
    one = lambda name, h, props, tag=None: {'name': name, 'tag': tag or [0] * len(h),  # noqa
                                            'h': h, 'props': props}
    base = dict(cfl=0.25, dt=0.01, damping=1.0)
    f0 = [one('fluid', [0.12, 0.12], {'dt_cfl': [2.0, 3.0]})]
    f1 = [one('fluid', [0.06, 0.12], {'dt_cfl': [2.0, 3.0]})]
    out0 = [one('fluid', [0.1, 0.1], {'dt_cfl': [1.0, 2.0], 'dt_force': [4.0, 1.0]}),
            one('outlet', [], {})]
    out1 = [one('fluid', [0.1], {'dt_cfl': [1.0], 'dt_force': [4.0]}),
            one('outlet', [0.1], {'dt_cfl': [32.0], 'dt_force': [9.0]})]
    return [
        # set_fixed_h(True) twice around a refinement: h_minimum must be refreshed
        dict(base, arrays0=f0, ops=[{'op': 'fix', 'b': True}, {'op': 'cts'},
                                    {'op': 'set', 'arrays': f1},
                                    {'op': 'fix', 'b': True}, {'op': 'cts'}, {'op': 'sol'}]),
        # fixed, then un-fixed: the current h counts again
        dict(base, arrays0=f0, ops=[{'op': 'fix', 'b': True}, {'op': 'set', 'arrays': f1},
                                    {'op': 'cts'}, {'op': 'fix', 'b': False}, {'op': 'cts'}]),
        # a bare, empty outlet buffer gains particles and criterion properties
        dict(base, arrays0=out0, ops=[{'op': 'cts'}, {'op': 'set', 'arrays': out1},
                                      {'op': 'cts'}, {'op': 'sol'}]),
        # parallel: no rank constrained (fluid at rest everywhere) / another rank constrained
        dict(base, arrays0=[one('fluid', [0.1, 0.1], {'dt_cfl': [0.0, 0.0]})],
             ops=[{'op': 'par', 'others': [1e20]}, {'op': 'par', 'others': [0.003, 1e20]},
                  {'op': 'par', 'others': [1e20, 1e20, 1e20]}]),
        dict(base, arrays0=f0, ops=[{'op': 'par', 'others': [1e20]},
                                    {'op': 'par', 'others': [1e-4]}]),
        # a criterion property is removed again
        dict(base, arrays0=out1, ops=[{'op': 'cts'}, {'op': 'set', 'arrays': out0},
                                      {'op': 'cts'}]),
    ]


def main():
    a = H.args()
    R = H.Result(
        'cases = sets of 1-4 particle arrays (0-8 particles, ghosts, optional '
        'dt_cfl/dt_force/dt_visc/dt_adapt, h over 4.5 decades, all-zero '
        'criteria, fixed_h with later h change) and op histories on one '
        'integrator (set_fixed_h on/off repeatedly, particles/h/criterion '
        'properties changing between compute calls, state compared after '
        'every op); distinct = distinct case '
        'JSON; non-trivial = at least one particle and one criterion property')
    if a.replay:
        rp = json.load(open(a.replay))
        case = rp['case']
        if 'history' in case:
            check_histories([case['history']], R)
        else:
            check_cases([case], R, 0)
        print(json.dumps(R.d['property_failures'], indent=1))
        sys.exit(1 if R.d['property_failures'] else 0)
    rng = random.Random(a.seed * 7919 + 19)
    n = 400 if a.tier == 'quick' else 6000
    check_cases(corpus(), R, 99)
    R.count('corpus', len(corpus()))
    check_cases([gen_case(rng, big=(a.tier != 'quick')) for i in range(n)], R, 0)
    check_histories(corpus_histories(), R)
    check_histories([gen_history(rng) for i in range(n // 2)], R)
    if a.broken or R.d['disagreements']:
        # failing-input search on the real code: the oracle above already ran
        # on every case; widen it.
        rng2 = random.Random(a.seed + 12345)
        check_cases([gen_case(rng2, big=True) for i in range(3000)], R, 99)
        R.d['search'] = {'extra_cases': 3000,
                         'found': len(R.d['property_failures'])}
    R.write(a.out)


if __name__ == '__main__':
    main()
