"""MANIFEST.setup_cmd: from files on disk only, offline:
  1. scratch build of /repo's working tree (shared with the checks),
  2. regenerate lean/PysphVerif/Gen/*.lean with the translators of every claimed
     check (the committed Gen files are only a cache of this),
  3. lake build of the Props modules and model drivers of every claimed check.
A property whose Lean files do not build does not fail the set-up: its own
check reports that (broken obligation); set-up fails only if nothing builds."""
import importlib.util
import os
import sys
ROOT = os.path.dirname(os.path.dirname(os.path.abspath(__file__)))
sys.path.insert(0, os.path.join(ROOT, 'lib'))
import vlib  # noqa: E402

cfgs = []
for i in range(1, 21):
    pid = 'C%02d' % i
    p = os.path.join(ROOT, 'checks', pid + '.py')
    if not os.path.exists(p):
        continue
    spec = importlib.util.spec_from_file_location(pid, p)
    m = importlib.util.module_from_spec(spec)
    spec.loader.exec_module(m)
    if getattr(m, 'READY', False):
        cfgs.append((pid, m))
if not cfgs:
    sys.exit(0)
with vlib.Scratch() as sc:
    work = sc.tmp('setup-%d' % os.getpid())
    for pid, m in cfgs:
        info, broken, notes = vlib.run_translators(m, sc, work)
        for n in notes:
            print('[setup] %s: %s' % (pid, n[:300]))
targets = []
for pid, m in cfgs:
    targets += list(m.PROPS) + [vlib.driver_target(pid)]
ok, out, failing = vlib.lake_build(targets)
print(out[-2000:])
if ok:
    sys.exit(0)
good = 0
for pid, m in cfgs:
    ok1, out1, _ = vlib.lake_build(list(m.PROPS) + [vlib.driver_target(pid)])
    print('[setup] %s: %s' % (pid, 'built' if ok1 else 'DOES NOT BUILD (its check will report it)'))
    good += ok1
sys.exit(0 if good else 1)
