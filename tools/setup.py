import importlib.util
import os
import sys
ROOT = os.path.dirname(os.path.dirname(os.path.abspath(__file__)))
sys.path.insert(0, os.path.join(ROOT, 'lib'))
import vlib  # noqa: E402

targets = []
for i in range(1, 21):
    pid = 'C%02d' % i
    p = os.path.join(ROOT, 'checks', pid + '.py')
    if not os.path.exists(p):
        continue
    spec = importlib.util.spec_from_file_location(pid, p)
    m = importlib.util.module_from_spec(spec)
    spec.loader.exec_module(m)
    if getattr(m, 'READY', False):
        targets += list(m.PROPS) + [vlib.driver_target(pid)]
if not targets:
    sys.exit(0)
ok, out, failing = vlib.lake_build(targets)
print(out[-3000:])
sys.exit(0 if ok else 1)
