#!/usr/bin/env python3
"""tools/keep_seed.py Cxx V : copy a confirmed seeded defect from /tmp/seed-Cxx/SEED/V into
/verif/seeded/Cxx-V/ with meta.json (property, what it needs, what was run, confirmation, detection)."""
import glob, json, os, re, shutil, sys
pid, v = sys.argv[1], sys.argv[2]
# round-2 seeds are called A2/B2 and live in /tmp/seed2-Cxx/SEED/{A,B}
if v[-1] in '234':
    src = '/tmp/seed%s-%s/SEED/%s' % (v[-1], pid, v[:-1])
else:
    src = '/tmp/seed-%s/SEED/%s' % (pid, v)
dst = '/verif/seeded/%s-%s' % (pid, v)
os.makedirs(dst, exist_ok=True)
for f in os.listdir(src):
    if os.path.isfile(os.path.join(src, f)):
        shutil.copy(os.path.join(src, f), os.path.join(dst, f))
readme = open(os.path.join(src, 'README.md')).read()
conf = ''
for lg in glob.glob('/var/tmp/confirm*.log'):
    for line in open(lg):
        if line.startswith('RESULT %s/%s ' % (pid, v)) or (v[-1] in '234' and line.startswith('RESULT%s %s/%s ' % (v[-1], pid, v[:-1]))):
            conf = line.strip()
det = ''
logs = sorted(glob.glob('/var/tmp/seedtest[1-9]*.log')) + ['/var/tmp/seedtest0.log']
parts = []
for lg in logs:
    if not os.path.exists(lg):
        continue
    txt = open(lg).read()
    for m in re.finditer(r'=== %s/%s\n(.*?)(?=\n===|\Z)' % (pid, v), txt, re.S):
        body = '\n'.join(l for l in m.group(1).strip().split('\n')
                          if l.startswith(('VIOLATION', 'C', 'first', 'after', 'the ', 'error', 'patch')))
        if body:
            parts.append(('[notes] ' if lg.endswith('seedtest0.log') else '[run] ') + body)
det = '\n'.join(parts)
meta = {
    'property': pid,
    'variant': v,
    'summary_and_what_it_needs_to_manifest': readme[:3000],
    'confirmed_by_orchestrator': conf,
    'confirmation_procedure': 'tools/confirm_seed[2]: in the scratch worktree /tmp/seed[2]-%s (git worktree of /repo HEAD) apply patch.diff, rebuild extensions if a .pyx/.pxd/.h/.mako changed, run the 55 pinned tests, run the demo (must exit non-zero), revert, rebuild, run the demo again (must exit 0)' % pid,
    'detection_by_check': det,
    'detection_procedure': 'tools/seedtest: ./check %s against a private copy of /repo with patch.diff applied (equivalent to git -C /repo apply; check; git checkout)' % pid,
}
json.dump(meta, open(os.path.join(dst, 'meta.json'), 'w'), indent=1)
print('kept', dst, '|', conf[-60:], '|', det.split('\n')[0][:80] if det else 'no detection run yet')
