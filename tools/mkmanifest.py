#!/usr/bin/env python3
"""Regenerate MANIFEST.json from checks/Cxx.py (READY, LEVEL_TEXT, LEVEL_NOTE,
TECHNIQUE, DESIGN_REF).  Properties without a ready check are listed under
not_applicable with the reason given in PENDING below."""
import importlib.util
import json
import os

ROOT = os.path.dirname(os.path.dirname(os.path.abspath(__file__)))
IDS = ['C%02d' % i for i in range(1, 21)]
PENDING = 'check not built yet in this round (design in DESIGN.md section 6); the technique applies, the property is simply not claimed until its theorems and tie run'


def load(pid):
    p = os.path.join(ROOT, 'checks', pid + '.py')
    if not os.path.exists(p):
        return None
    spec = importlib.util.spec_from_file_location(pid, p)
    m = importlib.util.module_from_spec(spec)
    spec.loader.exec_module(m)
    return m


checks, na, served = [], [], []
for pid in IDS:
    m = load(pid)
    if m is None or not getattr(m, 'READY', False):
        na.append({'property_id': pid,
                   'reason': getattr(m, 'NOT_READY_REASON', PENDING) if m else PENDING})
        continue
    served.append(pid)
    checks.append({
        'property_id': pid,
        'quick_cmd': './check %s --tier quick' % pid,
        'thorough_cmd': './check %s --tier thorough' % pid,
        'evidence_file': 'evidence/%s.json' % pid,
        'replay_cmd_template': './check %s --replay {path}' % pid,
        'engine': 'lean-model+correspondence',
        'level_claimed': {'category': 'proof', 'text': m.LEVEL_TEXT,
                          'design_ref': m.DESIGN_REF},
        'level_note': m.LEVEL_NOTE,
        'technique': m.TECHNIQUE,
    })
man = {
    'version': 1,
    'setup_cmd': './setup',
    'hooks': {
        'guard': 'PYSPH_VERIF',
        'enable': "checks export PYSPH_VERIF=1 and build a scratch copy of /repo's working tree under /var/tmp/pysph-verif (python setup.py build_ext --inplace); no hook code exists in /repo",
        'baseline_off_cmd': 'cd /repo && /venv/bin/python -m pytest -ra -q -p no:cacheprovider --timeout=900 --continue-on-collection-errors',
        'source_commits': [], 'add_only': True},
    'engines': [{
        'name': 'lean-model+correspondence', 'path': 'lib/runcheck.py',
        'serves_properties': served,
        'kind_free_text': 'Lean 4 theorems about executable models (lean/), translators (translate/) regenerating models from the current source, correspondence harnesses (harness/) driving the real code and the compiled Lean model driver over a line protocol'}],
    'checks': checks,
    'notes': 'See DESIGN.md. Exit codes: 0 held, 1 VIOLATION, 2 machinery failure (never a violation).',
    'not_applicable': na,
}
json.dump(man, open(os.path.join(ROOT, 'MANIFEST.json'), 'w'), indent=1)
print('claimed:', ' '.join(served))
