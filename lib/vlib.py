"""Shared machinery for the PySPH Lean-4 verification checks.

Everything a check needs that is not specific to one property:

* locating /repo and /verif (paths are resolved relative to this file, the
  repository location comes from $PYSPH_REPO, default /repo);
* building a scratch copy of /repo's *current working tree* (extensions
  included) outside /repo, /verif and /tmp, keyed by a content hash of the
  tree so that the 20 checks of one run share one ~30 s build, and removed as
  soon as the tree changes;
* running translators, `lake build`, the hygiene grep and the axiom audit;
* running the Lean model driver over a line protocol;
* verdicts: VIOLATION lines, replay files, known findings, evidence JSON.
"""
import contextlib
import fcntl
import hashlib
import json
import os
import re
import shutil
import subprocess
import sys
import time

LIB = os.path.dirname(os.path.abspath(__file__))
ROOT = os.path.dirname(LIB)
LEAN = os.path.join(ROOT, 'lean')
REPO = os.path.abspath(os.environ.get('PYSPH_REPO', '/repo'))
PY = os.environ.get('PYSPH_PYTHON', '/venv/bin/python')
SCRATCH_BASE = os.environ.get('PYSPH_VERIF_SCRATCH', '/var/tmp/pysph-verif')
GUARD = 'PYSPH_VERIF'
ALLOWED_AXIOMS = {'propext', 'Classical.choice', 'Quot.sound'}
HYGIENE_RE = re.compile(
    r'sorry|admit|^axiom |native_decide|bv_decide|implemented_by|unsafe |'
    r'maxHeartbeats 0', re.M)

_SRC_EXT = ('.py', '.pyx', '.pxd', '.pxi', '.h', '.hpp', '.mako', '.toml',
            '.cfg', '.in', '.txt', '.rst')


def log(*a):
    print('[verif]', *a, file=sys.stderr, flush=True)


# --------------------------------------------------------------------------
# scratch build of the current working tree

def _tree_files():
    out = []
    for top in ('pysph',):
        for d, dirs, files in os.walk(os.path.join(REPO, top)):
            dirs[:] = sorted(x for x in dirs if x != '__pycache__')
            for f in sorted(files):
                if f.endswith(_SRC_EXT):
                    out.append(os.path.join(d, f))
    for f in ('setup.py', 'pyproject.toml', 'setup.cfg', 'MANIFEST.in'):
        p = os.path.join(REPO, f)
        if os.path.exists(p):
            out.append(p)
    p = os.path.join(REPO, 'docs', 'source', 'design', 'equations.rst')
    if os.path.exists(p):
        out.append(p)
    return out


def tree_hash():
    h = hashlib.sha256()
    for p in _tree_files():
        h.update(os.path.relpath(p, REPO).encode() + b'\0')
        with open(p, 'rb') as fh:
            h.update(hashlib.sha256(fh.read()).digest())
    return h.hexdigest()[:16]


@contextlib.contextmanager
def flock(path):
    os.makedirs(os.path.dirname(path), exist_ok=True)
    fh = open(path, 'w')
    try:
        fcntl.flock(fh, fcntl.LOCK_EX)
        yield
    finally:
        fcntl.flock(fh, fcntl.LOCK_UN)
        fh.close()


def _purge_old(keep):
    """Remove scratch builds of trees that are no longer current: anything
    not in use (nobody holds its .use lock) that is older than 20 minutes, and
    beyond the 6 most recent in any case."""
    if not os.path.isdir(SCRATCH_BASE):
        return
    cands = []
    for name in os.listdir(SCRATCH_BASE):
        p = os.path.join(SCRATCH_BASE, name)
        if name.startswith('t-') and name != keep and os.path.isdir(p):
            try:
                cands.append((os.path.getmtime(p), p))
            except OSError:
                pass
    cands.sort(reverse=True)
    now = time.time()
    for rank, (mt, p) in enumerate(cands):
        if rank < 6 and now - mt < 1200:
            continue
        use = os.path.join(p, '.use')
        try:
            fh = open(use, 'a')
            fcntl.flock(fh, fcntl.LOCK_EX | fcntl.LOCK_NB)
        except OSError:
            continue
        try:
            shutil.rmtree(p, ignore_errors=True)
            try:
                os.unlink(p + '.lock')
            except OSError:
                pass
        finally:
            fh.close()


class Scratch:
    """A built copy of /repo's working tree.  `with Scratch() as s:` yields an
    object with .repo (path to put first on sys.path), .home, .env."""

    def __init__(self, need_ext=True):
        self.need_ext = need_ext

    def __enter__(self):
        os.makedirs(SCRATCH_BASE, exist_ok=True)
        self.hash = tree_hash()
        name = 't-' + self.hash
        self.dir = os.path.join(SCRATCH_BASE, name)
        with flock(os.path.join(SCRATCH_BASE, name + '.lock')):
            _purge_old(name)
            os.makedirs(self.dir, exist_ok=True)
            # hold the in-use lock from before the build starts, so that a
            # concurrent check of another tree cannot purge a build in progress
            self._use = open(os.path.join(self.dir, '.use'), 'a')
            fcntl.flock(self._use, fcntl.LOCK_SH)
            ok = os.path.join(self.dir, 'BUILD_OK')
            if not os.path.exists(ok):
                t0 = time.time()
                dst = os.path.join(self.dir, 'repo')
                shutil.rmtree(dst, ignore_errors=True)
                subprocess.check_call(
                    ['rsync', '-a', '--exclude', '.git', '--exclude', 'build',
                     '--exclude', '__pycache__', '--exclude', '*.so',
                     REPO + '/', dst + '/'])
                os.makedirs(os.path.join(self.dir, 'home'), exist_ok=True)
                env = self._env()
                # one extension build at a time on this machine (each runs 16
                # compilers of ~0.4 GB; concurrent checks of different trees
                # would otherwise exhaust memory)
                with flock(os.path.join(SCRATCH_BASE, 'build.lock')):
                    with open(os.path.join(self.dir, 'build.log'), 'w') as lg:
                        r = subprocess.call(
                            [PY, 'setup.py', 'build_ext', '--inplace', '-j16'],
                            cwd=dst, env=env, stdout=lg,
                            stderr=subprocess.STDOUT)
                if r != 0:
                    raise MachineryError(
                        'building extensions from the working tree failed; '
                        'see %s/build.log' % self.dir)
                open(ok, 'w').write(str(time.time() - t0))
                log('scratch build of tree %s took %.0fs' %
                    (self.hash, time.time() - t0))
            os.utime(self.dir, None)
        self.repo = os.path.join(self.dir, 'repo')
        self.home = os.path.join(self.dir, 'home')
        self.env = self._env()
        return self

    def _env(self):
        env = dict(os.environ)
        env['PYTHONPATH'] = os.path.join(self.dir, 'repo') + os.pathsep + \
            os.path.join(ROOT, 'harness') + os.pathsep + LIB
        env['HOME'] = os.path.join(self.dir, 'home')
        env[GUARD] = '1'
        env['PYSPH_VERIF_SCRATCH_REPO'] = os.path.join(self.dir, 'repo')
        env['PYTHONDONTWRITEBYTECODE'] = '1'
        env.pop('PYTHONSTARTUP', None)
        return env

    def tmp(self, name):
        p = os.path.join(self.dir, 'work', name)
        os.makedirs(p, exist_ok=True)
        return p

    def __exit__(self, *exc):
        fcntl.flock(self._use, fcntl.LOCK_UN)
        self._use.close()
        return False


class MachineryError(Exception):
    pass


# --------------------------------------------------------------------------
# Lean side

def _lake(args, timeout=3600):
    with flock(os.path.join(LEAN, '.lake-verif.lock')):
        p = subprocess.run(['lake'] + args, cwd=LEAN, stdout=subprocess.PIPE,
                           stderr=subprocess.STDOUT, text=True,
                           timeout=timeout)
    return p.returncode, p.stdout


def write_if_changed(path, text):
    try:
        if open(path).read() == text:
            return False
    except OSError:
        pass
    os.makedirs(os.path.dirname(path), exist_ok=True)
    with open(path + '.tmp', 'w') as fh:
        fh.write(text)
    os.replace(path + '.tmp', path)
    return True


def lake_build(targets):
    """Build targets; returns (ok, log, failing) where failing is a list of
    (file, line, message-first-line)."""
    rc, out = _lake(['build'] + list(targets))
    failing = []
    for m in re.finditer(r'^error: (\S+?\.lean):(\d+):(\d+): (.*)$', out,
                         re.M):
        failing.append((m.group(1), int(m.group(2)), m.group(4)))
    return rc == 0, out, failing


THEOREM_RE = re.compile(r'^(?:private |protected )?(theorem|lemma)\s+([^\s:({\[]+)', re.M)
NAMESPACE_RE = re.compile(r'^(namespace|end)\s+(\S+)', re.M)


def theorems_in(path):
    """[(fully qualified name, line)] of the theorems declared in a Lean
    file (simple namespace tracking)."""
    out = []
    ns = []
    txt = open(path).read()
    # blank out block comments (keeping line numbers) and line comments
    txt = re.sub(r'/-.*?-/', lambda m: '\n' * m.group(0).count('\n'), txt,
                 flags=re.S)
    txt = re.sub(r'--.*', '', txt)
    for i, line in enumerate(txt.split('\n'), 1):
        m = re.match(r'^namespace\s+(\S+)', line)
        if m:
            ns.append(m.group(1))
            continue
        m = re.match(r'^end\s+(\S+)', line)
        if m and ns and ns[-1] == m.group(1):
            ns.pop()
            continue
        m = re.match(r'^(?:@\[[^\]]*\]\s*)?(?:protected )?'
                     r'(?:theorem|lemma)\s+([^\s:({\[]+)', line)
        if m:
            out.append(('.'.join(ns + [m.group(1)]), i))
    return out


def hygiene(paths):
    """grep for forbidden constructs outside comments."""
    hits = []
    for p in paths:
        txt = open(p).read()
        # strip block and line comments
        txt2 = re.sub(r'/-.*?-/', lambda m: '\n' * m.group(0).count('\n'),
                      txt, flags=re.S)
        txt2 = re.sub(r'--.*', '', txt2)
        for m in HYGIENE_RE.finditer(txt2):
            line = txt2.count('\n', 0, m.start()) + 1
            hits.append('%s:%d: %s' % (os.path.relpath(p, ROOT), line,
                                       m.group(0).strip()))
    return hits


def lean_sources_for(modules):
    """Transitive closure (within PysphVerif) of the imports of modules."""
    seen = {}
    todo = list(modules)
    while todo:
        m = todo.pop()
        if m in seen or not m.startswith('PysphVerif'):
            continue
        p = os.path.join(LEAN, *m.split('.')) + '.lean'
        if not os.path.exists(p):
            continue
        seen[m] = p
        for mm in re.findall(r'^import\s+(\S+)', open(p).read(), re.M):
            todo.append(mm)
    return seen


def audit(prop_modules, workdir):
    """#print axioms for every theorem of the given Props modules.
    Returns (per_theorem dict name -> sorted axioms, problems list)."""
    names = []
    for m in prop_modules:
        p = os.path.join(LEAN, *m.split('.')) + '.lean'
        names += [n for n, _ in theorems_in(p)]
    src = ''.join('import %s\n' % m for m in prop_modules)
    src += ''.join('#print axioms %s\n' % n for n in names)
    f = os.path.join(workdir, 'Audit_%d.lean' % os.getpid())
    with open(f, 'w') as fh:
        fh.write(src)
    rc, out = _lake(['env', 'lean', f])
    os.unlink(f)
    per = {}
    problems = []
    # output: "'name' depends on axioms: [a, b]" or "'name' does not depend on any axioms"
    flat = re.sub(r'\n\s+', ' ', out)
    for m in re.finditer(r"'([^']+)' depends on axioms: \[([^\]]*)\]", flat):
        per[m.group(1)] = sorted(x.strip() for x in m.group(2).split(','))
    for m in re.finditer(r"'([^']+)' does not depend on any axioms", flat):
        per[m.group(1)] = []
    for n in names:
        if n not in per:
            problems.append('no axiom report for %s' % n)
        else:
            bad = [a for a in per[n] if a not in ALLOWED_AXIOMS]
            if bad:
                problems.append('%s depends on %s' % (n, bad))
    if rc != 0 and not problems:
        problems.append('audit run failed: ' + out[-400:])
    return per, problems


def run_translators(cfg, sc, work):
    """Regenerate Gen/*.lean from the scratch copy of the current tree.
    Returns (gen_info, broken, notes)."""
    gen_info, broken, notes = {}, [], []
    for tr in getattr(cfg, 'TRANSLATORS', []):
        cmd = [PY, os.path.join(ROOT, 'translate', tr), '--repo', sc.repo,
               '--out', os.path.join(LEAN, 'PysphVerif', 'Gen')]
        p = subprocess.run(cmd, env=sc.env, cwd=work, stdout=subprocess.PIPE,
                           stderr=subprocess.STDOUT, text=True)
        gen_info[tr] = p.stdout[-1500:]
        if p.returncode != 0:
            broken.append('translator:%s' % tr)
            notes.append('translator %s failed on the current source: %s'
                         % (tr, p.stdout[-800:]))
    return gen_info, broken, notes


def driver_target(model):
    return 'model_' + model.lower()


def driver_path(model):
    return os.path.join(LEAN, '.lake', 'build', 'bin', driver_target(model))


def run_driver(model, lines, timeout=1800):
    """Feed lines to the Lean model driver, return list of output lines."""
    exe = driver_path(model)
    if not os.path.exists(exe):
        ok, out, _ = lake_build([driver_target(model)])
        if not ok:
            raise MachineryError('cannot build model driver:\n' + out[-2000:])
    data = '\n'.join(lines) + '\n'
    p = subprocess.run([exe], input=data, stdout=subprocess.PIPE,
                       stderr=subprocess.PIPE, text=True, timeout=timeout)
    if p.returncode != 0:
        raise MachineryError('model driver failed: ' + p.stderr[-2000:])
    out = p.stdout.split('\n')
    if out and out[-1] == '':
        out.pop()
    return out


# --------------------------------------------------------------------------
# known findings, verdicts, evidence

def known_findings(pid):
    p = os.path.join(ROOT, 'known_findings.json')
    if not os.path.exists(p):
        return []
    data = json.load(open(p))
    return [e for e in data.get('findings', []) if e.get('property') == pid]


def write_replay(pid, payload):
    d = os.path.join(ROOT, 'replays', pid)
    os.makedirs(d, exist_ok=True)
    txt = json.dumps(payload, indent=1, sort_keys=True, default=str)
    h = hashlib.sha256(txt.encode()).hexdigest()[:12]
    p = os.path.join(d, h + '.json')
    with open(p, 'w') as fh:
        fh.write(txt)
    return os.path.relpath(p, ROOT)


def write_evidence(pid, tier, seed, coverage, wall, violations, assumptions):
    d = os.path.join(ROOT, 'evidence')
    os.makedirs(d, exist_ok=True)
    ev = {
        'property_id': pid, 'tier': tier, 'seed': int(seed), 'level': 'proof',
        'coverage': coverage, 'assumptions': assumptions,
        'wall_s': round(wall, 2), 'violations': int(violations),
    }
    with open(os.path.join(d, pid + '.json'), 'w') as fh:
        json.dump(ev, fh, indent=1, sort_keys=True, default=str)
        fh.write('\n')
