"""./check <id> [--tier quick|thorough] [--seed N] [--replay file]

Pipeline (DESIGN.md section 5):
  1. scratch build of /repo's current working tree
  2. translators -> Gen/*.lean (rewritten only when the text changes)
  3. lake build of the property's Props modules + model driver  (proof obligations)
  4. hygiene grep + axiom audit
  5. correspondence harness against the scratch build (also evaluates the
     property's own predicate on the implementation)
  6. if 3/4/5 broke: the harness' failing-input search on the real code
  7. known findings, verdict, replay, evidence
Exit: 0 held, 1 VIOLATION, 2 machinery failure.
"""
import argparse
import importlib
import json
import os
import subprocess
import sys
import time
import traceback

sys.path.insert(0, os.path.dirname(os.path.abspath(__file__)))
import vlib  # noqa: E402


def main():
    ap = argparse.ArgumentParser()
    ap.add_argument('pid')
    ap.add_argument('--tier', default=os.environ.get('VERIF_TIER', 'quick'))
    ap.add_argument('--seed', type=int,
                    default=int(os.environ.get('VERIF_SEED', '0') or 0))
    ap.add_argument('--replay')
    a = ap.parse_args()
    if a.tier not in ('quick', 'thorough'):
        a.tier = 'quick'
    pid = a.pid.upper()
    try:
        rc = run(pid, a.tier, a.seed, a.replay)
    except vlib.MachineryError as e:
        print('MACHINERY-ERROR property=%s %s' % (pid, e))
        rc = 2
    except subprocess.TimeoutExpired as e:
        print('MACHINERY-ERROR property=%s timeout %s' % (pid, e))
        rc = 2
    except Exception:
        traceback.print_exc()
        print('MACHINERY-ERROR property=%s internal error' % pid)
        rc = 2
    sys.exit(rc)


def run(pid, tier, seed, replay):
    t0 = time.time()
    sys.path.insert(0, os.path.join(vlib.ROOT, 'checks'))
    cfg = importlib.import_module(pid)
    props = cfg.PROPS
    with vlib.Scratch() as sc:
        work = sc.tmp('%s-%d' % (pid, os.getpid()))
        try:
            return _run(pid, tier, seed, replay, cfg, props, sc, work, t0)
        finally:
            import shutil
            shutil.rmtree(work, ignore_errors=True)


def _run(pid, tier, seed, replay, cfg, props, sc, work, t0):
    if replay:
        cmd = [vlib.PY, os.path.join(vlib.ROOT, cfg.HARNESS), '--replay',
               os.path.abspath(os.path.join(vlib.ROOT, replay))
               if not os.path.isabs(replay) else replay,
               '--work', work, '--out', os.path.join(work, 'res.json')]
        r = subprocess.run(cmd, env=sc.env, cwd=work)
        return r.returncode

    broken = []          # names of obligations that no longer check
    notes = []
    # 2. translators
    gen_info, tb, tn = vlib.run_translators(cfg, sc, work)
    broken += tb
    notes += tn
    # 3. proof obligations
    ok, out, failing = vlib.lake_build(list(props) + [vlib.driver_target(pid)])
    thm_index = {}
    all_thms = []
    for m in props:
        path = os.path.join(vlib.LEAN, *m.split('.')) + '.lean'
        ths = vlib.theorems_in(path)
        thm_index[path] = ths
        all_thms += [n for n, _ in ths]
    if not ok:
        named = set()
        for f, line, msg in failing:
            f_abs = os.path.join(vlib.LEAN, f) if not os.path.isabs(f) else f
            cand = None
            for p, ths in thm_index.items():
                if os.path.realpath(p) == os.path.realpath(f_abs):
                    for n, l in ths:
                        if l <= line:
                            cand = n
            named.add(cand or ('%s:%d' % (f, line)))
        if not named:
            named.add('lake-build')
        broken += sorted(named)
        notes.append('lake build failed:\n' + out[-3000:])
    # 4. hygiene + audit
    axioms = {}
    if ok:
        srcs = vlib.lean_sources_for(props)
        hits = vlib.hygiene(srcs.values())
        if hits:
            raise vlib.MachineryError('hygiene: ' + '; '.join(hits[:10]))
        axioms, problems = vlib.audit(props, work)
        if problems:
            raise vlib.MachineryError('axiom audit: ' + '; '.join(problems))
    discharged = [n for n in all_thms if n in axioms]
    if tier == 'thorough' and ok and getattr(cfg, 'LEANCHECKER', True):
        rc, lo = vlib._lake(['env', 'leanchecker'] + list(props))
        if rc != 0:
            raise vlib.MachineryError('leanchecker rejected: ' + lo[-1500:])
        notes.append('leanchecker re-checked %s' % ', '.join(props))
    # 5/6. harness
    res_file = os.path.join(work, 'res.json')
    cmd = [vlib.PY, os.path.join(vlib.ROOT, cfg.HARNESS), '--tier', tier,
           '--seed', str(seed), '--work', work, '--out', res_file]
    if broken:
        cmd += ['--broken', ','.join(broken)]
    tmo = getattr(cfg, 'TIMEOUT', {}).get(tier, 3600 if tier == 'quick' else 4 * 3600)
    p = subprocess.run(cmd, env=sc.env, cwd=work, timeout=tmo)
    if p.returncode != 0 or not os.path.exists(res_file):
        raise vlib.MachineryError('harness %s exited %d' % (cfg.HARNESS, p.returncode))
    res = json.load(open(res_file))

    # 7. verdict
    known = vlib.known_findings(pid)
    known_keys = {e['key']: e for e in known if e.get('kind') == 'known'}
    seen_known = set()
    violations = []
    for f in res.get('property_failures', []):
        if f.get('key') in known_keys:
            seen_known.add(f['key'])
            continue
        violations.append(f)
    for k, e in known_keys.items():
        print('KNOWN-FINDING: property=%s %s%s' % (
            pid, e['what'], '' if k in seen_known else ' (not reproduced by this run)'))
    rc = 0
    corr = res.get('disagreements', [])
    if violations:
        # group by key, one VIOLATION line per distinct key (max 5)
        done = set()
        for f in violations:
            k = f.get('key', 'unkeyed')
            if k in done:
                continue
            done.add(k)
            if len(done) > 5:
                break
            rp = vlib.write_replay(pid, {
                'property': pid, 'kind': 'failing-input', 'key': k,
                'case': f.get('case'), 'demand': f.get('demand'),
                'observed': f.get('observed'), 'broken_obligations': broken,
                'correspondence_disagreements': corr[:3],
                'seed': seed, 'tier': tier})
            print('VIOLATION property=%s replay=%s' % (pid, rp))
        rc = 1
    elif broken or corr:
        rp = vlib.write_replay(pid, {
            'property': pid, 'kind': 'unproved',
            'broken_obligations': broken,
            'correspondence_disagreements': corr[:5],
            'notes': notes, 'search': res.get('search'),
            'seed': seed, 'tier': tier})
        print('VIOLATION property=%s replay=%s no-failing-input-found' % (pid, rp))
        rc = 1
    cov = {
        'obligations': len(all_thms) + len(getattr(cfg, 'EXTRA_OBLIGATIONS', [])),
        'discharged': len(discharged) + (len(getattr(cfg, 'EXTRA_OBLIGATIONS', [])) if ok else 0),
        'checker_cmd': 'cd lean && lake build %s %s && lake env lean <#print axioms of every theorem>' % (' '.join(props), vlib.driver_target(pid)),
        'trusted_base': cfg.TRUSTED_BASE,
        'theorems': all_thms,
        'axioms_used': sorted({a for v in axioms.values() for a in v}),
        'broken_obligations': broken,
        'translators': gen_info,
        'evaluations': res.get('evaluations', 0),
        'distinct_nontrivial': res.get('distinct_nontrivial', 0),
        'rule': res.get('rule', ''),
        'samples': res.get('samples', [])[:6],
        'traces_validated_against_impl': res.get('traces_validated_against_impl', 0),
        'distribution': res.get('distribution', {}),
        'correspondence_disagreements': len(corr),
        'property_failures_on_impl': len(res.get('property_failures', [])),
        'known_findings_reproduced': sorted(seen_known),
        'tree_hash': sc.hash,
        'notes': notes + res.get('notes', []),
    }
    vlib.write_evidence(pid, tier, seed, cov, time.time() - t0,
                        len(violations) + (1 if rc and not violations else 0),
                        cfg.ASSUMPTIONS)
    print('%s: %d/%d obligations, %d correspondence cases (%d non-trivial), '
          '%d disagreements, %d property failures on impl, exit %d [%.0fs]' % (
              pid, cov['discharged'], cov['obligations'], cov['evaluations'],
              cov['distinct_nontrivial'], len(corr),
              len(res.get('property_failures', [])), rc, time.time() - t0))
    return rc


if __name__ == '__main__':
    main()
