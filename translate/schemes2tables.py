"""schemes2tables: RUN every shipped Scheme class that provides
setup_properties over its option grid and emit the result as a Lean table.

For every configuration
    scheme class x option combination x dim x with/without solids x clean
this module (imported from the scratch build of /repo, no C compilation)
  * builds plain particle arrays (pysph.base.utils.get_particle_array),
  * instantiates the scheme, calls configure(**options), configure_solver(...),
    setup_properties(particles, clean) and get_equations(),
  * records, for every equation object (class, dest, sources, the argument
    names of each hook that exists, the `dst.<name>` attribute reads of
    `reduce`/`py_initialize`) and for every integrator stepper (class, array,
    the argument names of `initialize`/`stage*`, the `dst.<name>` reads of
    `py_stage*`), and the property / constant names of every array.
and writes  Gen/Schemes.lean  (names interned as bit positions, property sets
as Nat bit masks, identical bodies shared, one body index per grid point in
mixed-radix order).

The option grid of each scheme is declared in SPECS below and is CHECKED
against the source on every run (`audit_grid`): every `self.<attr>` that
occurs in a branch condition of the scheme's methods and every constructor
parameter with a bool / str default or an argparse `choices=` must be a grid
axis or be listed (with the reason) as fixed/derived.  A scheme class found in
the source tree without a SPEC makes the translator fail.

Used as a library by harness/c12.py (same extraction functions, so that the
harness can compare the table with the real checkers' view).
"""
import argparse
import ast
import importlib
import inspect
import itertools
import json
import os
import sys
import textwrap
import time
from collections import OrderedDict

HOOKS = ('initialize', 'initialize_pair', 'loop', 'loop_all', 'post_loop')
IMPLICIT_EQ = ('reduce', 'py_initialize')

# --------------------------------------------------------------------------
# the option grids

POS = 'pos'
ZERO = 'zero'


def _num(vals):
    """numeric switch axis: [(label, value)]"""
    return [(ZERO if v == 0 else POS, v) for v in vals]


def _bools():
    return [('F', False), ('T', True)]


def _enum(vals):
    return [(str(v), v) for v in vals]


DX = 0.1
HDX = 1.2
H0 = HDX * DX

# Every entry:
#   cls        dotted path
#   ctor       lambda fluids, solids, dim -> kwargs of the required arguments
#   axes       OrderedDict name -> [(label, value)]; the values are passed to
#              the constructor when `name` is a constructor parameter and to
#              configure(**) again (the documented way to change an option)
#   solver     OrderedDict name -> [(label, value)] axes of configure_solver
#   dims       supported dims
#   solids     (False, True) where solids are an argument
#   fixed      {attr: reason}   attributes used in branches / bool-or-enum
#              parameters that are deliberately NOT varied
#   derived    {attr: 'from which axis'}
SPECS = OrderedDict()


def spec(name, **kw):
    kw.setdefault('solver', OrderedDict())
    kw.setdefault('dims', (1, 2, 3))
    kw.setdefault('solids', (False, True))
    kw.setdefault('fixed', {})
    kw.setdefault('derived', {})
    kw.setdefault('nosolids_arg', False)
    kw.setdefault('rejects', lambda o: False)
    SPECS[name] = kw


def _integrators():
    return [('default', None), ('TVDRK3Integrator', 'pysph.sph.integrator.TVDRK3Integrator'),
            ('EPECIntegrator', 'pysph.sph.integrator.EPECIntegrator')]


spec('WCSPHScheme', cls='pysph.sph.scheme.WCSPHScheme',
     ctor=lambda f, s, d: dict(fluids=f, solids=s, dim=d, rho0=1000.0, c0=10.0,
                               h0=H0, hdx=HDX),
     axes=OrderedDict([
         ('summation_density', _bools()), ('delta_sph', _bools()),
         ('hg_correction', _bools()), ('update_h', _bools()),
         ('tensile_correction', _bools()), ('nu', _num([0.0, 0.01]))]),
     solver=OrderedDict([('integrator_cls', _integrators())]))

spec('TVFScheme', cls='pysph.sph.scheme.TVFScheme',
     ctor=lambda f, s, d: dict(fluids=f, solids=s, dim=d, rho0=1000.0, c0=10.0,
                               p0=1e5, pb=1e5, h0=H0),
     axes=OrderedDict([('nu', _num([0.0, 0.01])), ('alpha', _num([0.0, 0.1]))]))

spec('AdamiHuAdamsScheme', cls='pysph.sph.scheme.AdamiHuAdamsScheme',
     ctor=lambda f, s, d: dict(fluids=f, solids=s, dim=d, rho0=1000.0, c0=10.0,
                               h0=H0),
     axes=OrderedDict([('nu', _num([0.0, 0.01])), ('alpha', _num([0.0, 0.1]))]))

spec('GasDScheme', cls='pysph.sph.scheme.GasDScheme',
     ctor=lambda f, s, d: dict(fluids=f, solids=s, dim=d, gamma=1.4,
                               kernel_factor=1.2),
     axes=OrderedDict([
         ('adaptive_h_scheme', _enum(['mpm', 'gsph'])),
         ('update_alpha1', _bools()), ('update_alpha2', _bools()),
         ('has_ghosts', _bools())]))

spec('GSPHScheme', cls='pysph.sph.scheme.GSPHScheme',
     ctor=lambda f, s, d: dict(fluids=f, solids=s, dim=d, gamma=1.4,
                               kernel_factor=1.2),
     axes=OrderedDict([
         ('has_ghosts', _bools()),
         ('rsolver', _enum(list(range(11)))),
         ('interpolation', _enum([0, 1, 2])),
         ('monotonicity', _enum([0, 1, 2])),
         ('interface_zero', _bools()), ('hybrid', _bools())]))

spec('ADKEScheme', cls='pysph.sph.scheme.ADKEScheme',
     ctor=lambda f, s, d: dict(fluids=f, solids=s, dim=d),
     axes=OrderedDict([('has_ghosts', _bools())]))

spec('GTVFScheme', cls='pysph.sph.wc.gtvf.GTVFScheme',
     ctor=lambda f, s, d: dict(fluids=f, solids=s, dim=d, rho0=1000.0, c0=10.0,
                               h0=H0, pref=1e5),
     axes=OrderedDict([('nu', _num([0.0, 0.01])), ('alpha', _num([0.0, 0.1]))]),
     dims=(2, 3))       # its default kernel, WendlandQuintic, has no 1D form

spec('EDACScheme', cls='pysph.sph.wc.edac.EDACScheme',
     ctor=lambda f, s, d: dict(fluids=f, solids=s, dim=d, c0=10.0, rho0=1000.0,
                               h=H0),
     axes=OrderedDict([
         ('pb', _num([0.0, 1e5])),          # external / internal (TVF) flow
         ('nu', _num([0.0, 0.01])), ('alpha', _num([0.0, 0.1])),
         ('edac_alpha', _num([0.0, 0.5])),
         ('bql', _bools()), ('clamp_p', _bools()),
         ('inviscid_solids', [('none', None), ('one', ['isolid'])])]),
     fixed={'inlet_outlet_manager': 'None only: the inlet/outlet manager is a '
            'separate subsystem (C16) that brings its own arrays',
            'c0': 'required number; only tested against None',
            'h': 'required number; only tested against None'},
     derived={'use_tvf': 'pb', 'art_nu': 'edac_alpha, h'})

spec('CRKSPHScheme', cls='pysph.sph.wc.crksph.CRKSPHScheme',
     ctor=lambda f, s, d: dict(fluids=f, dim=d, rho0=1000.0, c0=10.0, h0=H0,
                               p0=0.0),
     axes=OrderedDict([('nu', _num([0.0, 0.01])), ('has_ghosts', _bools())]),
     solids=(False,), nosolids_arg=True)

spec('PCISPHScheme', cls='pysph.sph.wc.pcisph.PCISPHScheme',
     ctor=lambda f, s, d: dict(fluids=f, dim=d, rho0=1000.0),
     axes=OrderedDict([('nu', _num([0.0, 0.01])), ('debug', _bools()),
                       ('show_itercount', _bools())]),
     solids=(False,), nosolids_arg=True)

spec('IISPHScheme', cls='pysph.sph.iisph.IISPHScheme',
     ctor=lambda f, s, d: dict(fluids=f, solids=s, dim=d, rho0=1000.0),
     axes=OrderedDict([('nu', _num([0.0, 0.01])), ('debug', _bools()),
                       ('has_ghosts', _bools())]))

spec('ISPHScheme', cls='pysph.sph.isph.isph.ISPHScheme',
     ctor=lambda f, s, d: dict(fluids=f, solids=s, dim=d, rho0=1000.0, c0=10.0),
     axes=OrderedDict([('nu', _num([0.0, 0.01])), ('alpha', _num([0.0, 0.1])),
                       ('symmetric', _bools())]))

spec('SISPHScheme', cls='pysph.sph.isph.sisph.SISPHScheme',
     ctor=lambda f, s, d: dict(fluids=f, solids=s, dim=d, rho0=1000.0, c0=10.0,
                               pref=1e3),
     axes=OrderedDict([
         ('nu', _num([0.0, 0.01])), ('alpha', _num([0.0, 0.1])),
         ('hg_correction', _bools()), ('has_ghosts', _bools()),
         ('gtvf', _bools()), ('symmetric', _bools()),
         ('internal_flow', _bools()), ('use_pref', _bools())]))

spec('MAGMA2Scheme', cls='pysph.sph.gas_dynamics.magma2.MAGMA2Scheme',
     ctor=lambda f, s, d: dict(fluids=f, solids=s, dim=d, gamma=1.4),
     axes=OrderedDict([
         ('adaptive_h_scheme', _enum(['magma2', 'mpm'])),
         ('formulation', _enum(['mi1', 'mi2', 'stdgrad'])),
         ('reconstruction_order', _enum([0, 1, 2])),
         ('recycle_accelerations', _bools()), ('has_ghosts', _bools()),
         ('ndes', [('None', None), ('given', 20)]),
         ('hfact', [('None', None), ('given', 1.2)])]),
     # documented: the procedure chosen needs its parameter
     rejects=lambda o: ((o['adaptive_h_scheme'] == 'magma2' and o['ndes'] is None)
                        or (o['adaptive_h_scheme'] == 'mpm' and o['hfact'] is None)),
     fixed={'reconstruction_order_choices': 'constant set of legal values',
            'h_scheme_choices': 'constant set of legal values',
            'formulation_choices': 'constant set of legal values',
            'solver:kernel': 'configure_solver only copies the number kernel.fkern '
            'into the scheme (1.0 without); no equation, property or stepper '
            'depends on which'})

spec('TSPHScheme', cls='pysph.sph.gas_dynamics.tsph.TSPHScheme',
     ctor=lambda f, s, d: dict(fluids=f, solids=s, dim=d, gamma=1.4, hfact=1.2),
     axes=OrderedDict([('has_ghosts', _bools())]),
     fixed={'solver:kernel': 'configure_solver only copies the number kernel.fkern '
            'into the scheme (1.0 without); no equation, property or stepper '
            'depends on which'})

spec('PSPHScheme', cls='pysph.sph.gas_dynamics.psph.PSPHScheme',
     ctor=lambda f, s, d: dict(fluids=f, solids=s, dim=d, gamma=1.4, hfact=1.2),
     axes=OrderedDict([('has_ghosts', _bools())]),
     fixed={'solver:kernel': 'configure_solver only copies the number kernel.fkern '
            'into the scheme (1.0 without); no equation, property or stepper '
            'depends on which'})

# the chooser only delegates; it is run over the default options of the
# schemes it is given, for every choice
spec('SchemeChooser', cls='pysph.sph.scheme.SchemeChooser', ctor=None,
     axes=OrderedDict([('scheme', _enum(['wcsph', 'tvf', 'aha', 'edac',
                                         'iisph', 'gtvf']))]),
     dims=(2, 3))

# attributes every scheme may branch on that are not options
STRUCTURAL = {'fluids', 'solids', 'dim', 'solver', 'scheme', 'schemes',
              'default'}
# methods of a scheme class that are not part of configure / set-up
SKIP_METHODS = {'add_user_options', 'consume_user_options', 'get_timestep',
                '__init__', 'get_solver'}
# schemes that exist in the tree but fall outside the property's quantifier
OUTSIDE = {
    'ElasticSolidsScheme': 'does not provide setup_properties',
    'ParticlePacking': 'pre-processing tool under pysph/tools with its own '
                       'array kinds (nodes/frozen), not a simulation scheme',
}


class TranslatorError(Exception):
    pass


# --------------------------------------------------------------------------
# discovery and grid audit

def _pysph_dir():
    import pysph
    return os.path.dirname(os.path.abspath(pysph.__file__))


def discover_scheme_classes():
    """every class under pysph/ (tests and examples excluded) that derives
    from pysph.sph.scheme.Scheme, found by scanning the SOURCE for class
    statements and importing the modules that define one."""
    root = _pysph_dir()
    mods = []
    for d, dirs, files in os.walk(root):
        dirs[:] = sorted(x for x in dirs
                         if x not in ('tests', 'examples', '__pycache__'))
        for f in sorted(files):
            if not f.endswith('.py'):
                continue
            p = os.path.join(d, f)
            try:
                src = open(p, encoding='utf-8').read()
            except OSError:
                continue
            if 'Scheme' not in src:
                continue
            try:
                tree = ast.parse(src)
            except SyntaxError:
                continue
            for n in ast.walk(tree):
                if isinstance(n, ast.ClassDef) and any(
                        'Scheme' in ast.unparse(b) for b in n.bases):
                    rel = os.path.relpath(p, os.path.dirname(root))[:-3]
                    mods.append(rel.replace(os.sep, '.'))
                    break
    from pysph.sph.scheme import Scheme
    out = OrderedDict()
    for m in mods:
        mod = importlib.import_module(m)
        for n, c in sorted(vars(mod).items()):
            if inspect.isclass(c) and issubclass(c, Scheme) and \
                    c is not Scheme and c.__module__ == m:
                out[n] = c
    return out


def provides_setup_properties(cls):
    from pysph.sph.scheme import Scheme
    return cls.setup_properties is not Scheme.setup_properties


def _class_methods_src(cls):
    """(name, ast.FunctionDef) of the methods of cls and of its Scheme
    ancestors other than the base class"""
    from pysph.sph.scheme import Scheme
    seen = {}
    for k in cls.__mro__:
        if k is Scheme or k is object:
            continue
        src = textwrap.dedent(inspect.getsource(k))
        tree = ast.parse(src)
        for n in tree.body[0].body:
            if isinstance(n, ast.FunctionDef) and n.name not in seen:
                seen[n.name] = n
    return seen


def branch_attributes(cls):
    """self.<attr> names occurring in any branch condition of the methods"""
    attrs = set()
    for name, fn in _class_methods_src(cls).items():
        if name in SKIP_METHODS:
            continue
        tests = []
        for n in ast.walk(fn):
            if isinstance(n, (ast.If, ast.IfExp, ast.While)):
                tests.append(n.test)
            elif isinstance(n, ast.comprehension):
                tests += n.ifs
            elif isinstance(n, ast.Assert):
                tests.append(n.test)
        for t in tests:
            for m in ast.walk(t):
                if isinstance(m, ast.Attribute) and \
                        isinstance(m.value, ast.Name) and m.value.id == 'self':
                    attrs.add(m.attr)
    return attrs


def option_like_parameters(cls):
    """constructor parameters with a bool/str default, and destinations of
    argparse arguments with `choices=` or added by add_bool_argument"""
    out = set()
    sig = inspect.signature(cls.__init__)
    for p in sig.parameters.values():
        if isinstance(p.default, (bool, str)):
            out.add(p.name)
    fn = _class_methods_src(cls).get('add_user_options')
    if fn is not None:
        for n in ast.walk(fn):
            if isinstance(n, ast.Call):
                kws = {k.arg: k.value for k in n.keywords if k.arg}
                fname = ast.unparse(n.func)
                if 'dest' in kws and isinstance(kws['dest'], ast.Constant):
                    if 'choices' in kws or fname.endswith('add_bool_argument'):
                        out.add(kws['dest'].value)
    return out


def _is_none_test(t):
    """`<name> is None` / `<name> is not None` (choosing a default)"""
    return (isinstance(t, ast.Compare) and len(t.ops) == 1 and
            isinstance(t.ops[0], (ast.Is, ast.IsNot)) and
            isinstance(t.left, ast.Name) and
            isinstance(t.comparators[0], ast.Constant) and
            t.comparators[0].value is None)


def solver_argument_branches(cls):
    """the parameters of configure_solver (kernel, integrator_cls,
    extra_steppers, ...) on whose VALUE the method branches: a branch test
    mentions the parameter, or a local computed from it, other than in the
    default tests `<x> is None` / `<x> is not None`.  Such a parameter is an
    option of the scheme in the sense of the property: its values must be a
    `solver` axis of the grid (or be listed as fixed, with the reason)."""
    fn = _class_methods_src(cls).get('configure_solver')
    if fn is None:
        return set()
    params = set(a.arg for a in fn.args.args + fn.args.kwonlyargs) - {'self'}
    taint = {p: {p} for p in params}

    def sources(expr):
        out = set()
        for m in ast.walk(expr):
            if isinstance(m, ast.Name) and m.id in taint:
                out |= taint[m.id]
        return out
    changed = True
    while changed:
        changed = False
        for n in ast.walk(fn):
            if isinstance(n, ast.Assign):
                tgts, val = list(n.targets), n.value
            elif isinstance(n, (ast.AugAssign, ast.AnnAssign)) and \
                    n.value is not None:
                tgts, val = [n.target], n.value
            elif isinstance(n, (ast.For, ast.comprehension)):
                tgts, val = [n.target], n.iter
            else:
                continue
            src = sources(val)
            if not src:
                continue
            names = []
            while tgts:
                t = tgts.pop()
                if isinstance(t, ast.Name):
                    names.append(t.id)
                elif isinstance(t, (ast.Tuple, ast.List)):
                    tgts = tgts + list(t.elts)
                elif isinstance(t, ast.Starred):
                    tgts = tgts + [t.value]
                # self.<attr> = ..., d[k] = ...: not a local
            for m in names:
                if not src <= taint.get(m, set()):
                    taint.setdefault(m, set()).update(src)
                    changed = True
    tests = []
    for n in ast.walk(fn):
        if isinstance(n, (ast.If, ast.IfExp, ast.While, ast.Assert)):
            tests.append(n.test)
        elif isinstance(n, ast.comprehension):
            tests += n.ifs
    out = set()
    for t in tests:
        parts = t.values if isinstance(t, ast.BoolOp) else [t]
        for q in parts:
            if isinstance(q, ast.UnaryOp) and isinstance(q.op, ast.Not):
                q = q.operand
            if _is_none_test(q):
                continue
            if isinstance(q, ast.Compare) and len(q.ops) == 1 and \
                    isinstance(q.ops[0], (ast.In, ast.NotIn)):
                # `name not in steppers`: whether the caller's dict mentions
                # an array is how extra_steppers is documented to work (the
                # harness exercises it: None / {} / user steppers)
                continue
            out |= sources(q)
    return out


def audit_grid():
    """fail loudly when the declared grids do not cover the source"""
    found = discover_scheme_classes()
    problems = []
    info = {}
    for name, cls in found.items():
        if name in OUTSIDE:
            if name == 'ElasticSolidsScheme' and provides_setup_properties(cls):
                problems.append('%s now provides setup_properties but has no '
                                'grid' % name)
            continue
        if not provides_setup_properties(cls):
            continue
        if name not in SPECS:
            problems.append('scheme class %s (%s) provides setup_properties '
                            'but has no grid in SPECS' % (name, cls.__module__))
            continue
        sp = SPECS[name]
        if sp['cls'] != cls.__module__ + '.' + name:
            problems.append('%s is defined in %s, SPEC says %s'
                            % (name, cls.__module__, sp['cls']))
        known = set(sp['axes']) | set(sp['fixed']) | set(sp['derived']) | \
            STRUCTURAL
        br = branch_attributes(cls)
        for a in sorted(br - known):
            problems.append('%s branches on self.%s which is not a grid axis'
                            % (name, a))
        op = option_like_parameters(cls)
        for a in sorted(op - known):
            problems.append('%s has the bool/enumerated option %s which is '
                            'not a grid axis' % (name, a))
        sb = solver_argument_branches(cls)
        for a in sorted(sb):
            if a not in sp['solver'] and 'solver:' + a not in sp['fixed']:
                problems.append('%s.configure_solver branches on the value of '
                                'its argument %s, which is not a solver axis '
                                'of the grid' % (name, a))
        info[name] = {'branch_attrs': sorted(br), 'option_like': sorted(op),
                      'solver_branches': sorted(sb)}
    for name in SPECS:
        if name not in found:
            problems.append('SPEC %s: no such class in the tree' % name)
    if problems:
        raise TranslatorError('grid audit failed:\n  ' + '\n  '.join(problems))
    return info


# --------------------------------------------------------------------------
# configurations

def grid_axes(name):
    """ordered axes of one scheme: options, solver options, dim, solids, clean
    -> [(axis name, [labels])], and the parallel value lists"""
    sp = SPECS[name]
    axes = []
    # dim / solids / clean come first (most significant) so that options that
    # do not change the outcome give long runs in the emitted table
    axes.append(('dim', [(str(d), d) for d in sp['dims']]))
    axes.append(('solids', [('T' if s else 'F', s) for s in sp['solids']]))
    axes.append(('clean', [('T', True), ('F', False)]))
    for k, vals in sp['axes'].items():
        axes.append(('opt:' + k, vals))
    for k, vals in sp['solver'].items():
        axes.append(('solver:' + k, vals))
    return axes


def grid_size(name):
    n = 1
    for _, vals in grid_axes(name):
        n *= len(vals)
    return n


def config_of_index(name, idx):
    """mixed radix, FIRST axis most significant"""
    axes = grid_axes(name)
    digits = []
    for _, vals in reversed(axes):
        digits.append(idx % len(vals))
        idx //= len(vals)
    digits.reverse()
    return digits


def index_of_digits(name, digits):
    idx = 0
    for (_, vals), dg in zip(grid_axes(name), digits):
        idx = idx * len(vals) + dg
    return idx


def describe(name, digits):
    return OrderedDict((ax, vals[d][0])
                       for (ax, vals), d in zip(grid_axes(name), digits))


def config_values(name, digits):
    opts, solver = OrderedDict(), OrderedDict()
    rest = {}
    for (ax, vals), d in zip(grid_axes(name), digits):
        v = vals[d][1]
        if ax.startswith('opt:'):
            opts[ax[4:]] = v
        elif ax.startswith('solver:'):
            solver[ax[7:]] = v
        else:
            rest[ax] = v
    return opts, solver, rest['dim'], rest['solids'], rest['clean']


# --------------------------------------------------------------------------
# running one configuration on the real code

def make_arrays(dim, names, n_side=None):
    """plain particle arrays: a small lattice block per array (fluid block in
    the unit box, every further array a 2-layer slab below it)."""
    import numpy as np
    from pysph.base.utils import get_particle_array
    if n_side is None:
        n_side = {1: 8, 2: 5, 3: 4}[dim]
    dx = DX
    out = []
    for k, name in enumerate(names):
        if k == 0:
            rng = [np.arange(n_side) * dx + dx / 2] * dim
        else:
            lay = np.arange(2) * dx - (2 * k) * dx + dx / 2
            rng = [np.arange(-2, n_side + 2) * dx + dx / 2] * (dim - 1) + [lay]
            if dim == 1:
                rng = [lay]
        g = np.meshgrid(*rng, indexing='ij')
        co = [a.ravel().copy() for a in g] + \
            [np.zeros(g[0].size)] * (3 - dim)
        m = 1000.0 * dx ** dim if name != 'gas' else dx ** dim
        pa = get_particle_array(name=name, x=co[0], y=co[1], z=co[2], m=m,
                                h=HDX * dx, rho=1000.0 if name != 'gas' else 1.0)
        out.append(pa)
    return out


class _NoCompileEvaluator(object):
    """stands in for pysph.tools.sph_evaluator.SPHEvaluator while extracting:
    SISPHScheme.setup_properties computes wall normals with it (a compile);
    the properties it needs are added by the scheme before, the values do not
    matter for the table.  The real evaluator runs in the harness' run tier."""
    def __init__(self, *a, **kw):
        pass

    def evaluate(self, *a, **kw):
        pass

    def update(self, *a, **kw):
        pass


def _resolve(path):
    if path is None:
        return None
    mod, _, attr = path.rpartition('.')
    return getattr(importlib.import_module(mod), attr)


def array_names(name, solids, opts):
    fluids = ['fluid']
    sol = ['solid'] if solids else []
    extra = []
    if name == 'EDACScheme' and opts.get('inviscid_solids'):
        extra = list(opts['inviscid_solids'])
    return fluids, sol, extra


def build_scheme(name, opts, dim, solids):
    """instantiate + configure(**options)"""
    sp = SPECS[name]
    fluids, sol, extra = array_names(name, solids, opts)
    if name == 'SchemeChooser':
        from pysph.sph.scheme import (SchemeChooser, WCSPHScheme, TVFScheme,
                                      AdamiHuAdamsScheme)
        from pysph.sph.wc.edac import EDACScheme
        from pysph.sph.iisph import IISPHScheme
        from pysph.sph.wc.gtvf import GTVFScheme
        sub = dict(
            wcsph=WCSPHScheme(**SPECS['WCSPHScheme']['ctor'](fluids, sol, dim)),
            tvf=TVFScheme(nu=0.01, **SPECS['TVFScheme']['ctor'](fluids, sol, dim)),
            aha=AdamiHuAdamsScheme(nu=0.01, **SPECS['AdamiHuAdamsScheme']['ctor'](fluids, sol, dim)),
            edac=EDACScheme(nu=0.01, **SPECS['EDACScheme']['ctor'](fluids, sol, dim)),
            iisph=IISPHScheme(**SPECS['IISPHScheme']['ctor'](fluids, sol, dim)),
            gtvf=GTVFScheme(nu=0.01, **SPECS['GTVFScheme']['ctor'](fluids, sol, dim)),
        )
        s = SchemeChooser(default='wcsph', **sub)
        # the documented way to choose: consume_user_options(options.scheme)
        s.scheme = s.schemes[opts['scheme']]
        return s, fluids, sol, extra
    cls = _resolve(sp['cls'])
    kw = sp['ctor'](fluids, sol, dim)
    o = dict(opts)
    if name == 'EDACScheme' and o.get('inviscid_solids') is None:
        o.pop('inviscid_solids', None)
    params = inspect.signature(cls.__init__).parameters
    ckw = dict(kw)
    for k, v in o.items():
        if k in params:
            ckw[k] = v
    s = cls(**ckw)
    # configure(**) is how an application changes options afterwards; going
    # through it as well exercises attributes_changed()
    conf = {k: v for k, v in o.items() if hasattr(s, k)}
    if conf:
        s.configure(**conf)
    return s, fluids, sol, extra


def apply_options(scheme, name, opts):
    """change the options of an EXISTING scheme object to `opts` the way an
    application does after construction: Scheme.configure(**options)
    (SchemeChooser: choosing another scheme, what consume_user_options
    does).  -> the option names that cannot be changed this way (constructor
    arguments that are not attributes)"""
    if name == 'SchemeChooser':
        scheme.scheme = scheme.schemes[opts['scheme']]
        return []
    conf = {k: v for k, v in opts.items() if hasattr(scheme, k)}
    if name == 'EDACScheme' and conf.get('inviscid_solids', 0) is None:
        # the ATTRIBUTE is a list (the constructor turns its default None
        # into []); configure() is a plain setattr
        conf['inviscid_solids'] = []
    if conf:
        scheme.configure(**conf)
    return sorted(set(opts) - set(conf))


def solver_kwargs(solver):
    skw = {}
    if solver.get('integrator_cls') is not None:
        skw['integrator_cls'] = _resolve(solver['integrator_cls'])
    return skw


class no_compile_evaluator(object):
    """context: SPHEvaluator replaced by _NoCompileEvaluator (see there)"""
    def __enter__(self):
        import pysph.tools.sph_evaluator as SE
        self.orig = SE.SPHEvaluator
        SE.SPHEvaluator = _NoCompileEvaluator

    def __exit__(self, *exc):
        import pysph.tools.sph_evaluator as SE
        SE.SPHEvaluator = self.orig
        return False


def run_scheme(name, digits, patch_evaluator=True):
    """run one configuration up to get_equations; returns
    (scheme, particles, equations) -- objects of the real code"""
    opts, solver, dim, solids, clean = config_values(name, digits)
    scheme, fluids, sol, extra = build_scheme(name, opts, dim, solids)
    particles = make_arrays(dim, fluids + sol + extra)
    skw = {}
    if solver.get('integrator_cls') is not None:
        skw['integrator_cls'] = _resolve(solver['integrator_cls'])
    import pysph.tools.sph_evaluator as SE
    orig = SE.SPHEvaluator
    if patch_evaluator:
        SE.SPHEvaluator = _NoCompileEvaluator
    try:
        scheme.configure_solver(dt=1e-4, tf=2e-4, **skw)
        scheme.setup_properties(particles, clean=clean)
        equations = scheme.get_equations()
    finally:
        SE.SPHEvaluator = orig
    return scheme, particles, equations


def _args_of(meth):
    return list(inspect.getfullargspec(meth).args)


_PA_ATTRS = None


def _pa_api():
    global _PA_ATTRS
    if _PA_ATTRS is None:
        from pysph.base.particle_array import ParticleArray
        _PA_ATTRS = set(dir(ParticleArray)) | {'array'}
    return _PA_ATTRS


_IMPLICIT_CACHE = {}


def implicit_reads(cls, meth_name, argpos=1):
    """`<arg>.<name>` attribute reads in a python-level method (reduce,
    py_initialize, py_stage*) whose argument number `argpos` is the particle
    array; names that belong to the ParticleArray API are not properties."""
    key = (cls, meth_name)
    if key in _IMPLICIT_CACHE:
        return _IMPLICIT_CACHE[key]
    meth = getattr(cls, meth_name)
    src = textwrap.dedent(inspect.getsource(meth))
    fn = ast.parse(src).body[0]
    args = [a.arg for a in fn.args.args]
    if len(args) <= argpos:
        _IMPLICIT_CACHE[key] = []
        return []
    an = args[argpos]
    names = set()
    for n in ast.walk(fn):
        if isinstance(n, ast.Attribute) and isinstance(n.value, ast.Name) \
                and n.value.id == an:
            names.add(n.attr)
        elif isinstance(n, ast.Call) and ast.unparse(n.func) == 'declare':
            pass
        elif isinstance(n, ast.Call) and isinstance(n.func, ast.Name) and \
                n.func.id == 'getattr' and n.args and \
                isinstance(n.args[0], ast.Name) and n.args[0].id == an:
            if len(n.args) > 1 and isinstance(n.args[1], ast.Constant):
                names.add(n.args[1].value)
            else:
                raise TranslatorError(
                    '%s.%s reads a computed attribute of the array'
                    % (cls.__name__, meth_name))
    res = sorted(x for x in names if x not in _pa_api())
    _IMPLICIT_CACHE[key] = res
    return res


# --------------------------------------------------------------------------
# how a transpiled method USES its array arguments, where that constrains the
# C type of the property

# C element types of the carray classes (carray.<Class>().get_c_type())
CTYPES = ('int', 'unsigned int', 'long', 'float', 'double')
INTEGRAL_CTYPES = ('int', 'unsigned int', 'long')
# types accepted by compyle's declare() that make a local an integer
_INT_DECL = {'int', 'uint', 'long', 'ulong', 'unsigned int', 'unsigned long',
             'short', 'ushort', 'char', 'uchar', 'size_t', 'long long',
             'unsigned short', 'unsigned char'}
_INDEX_CACHE = {}


def _is_array_arg(name):
    return (name.startswith('d_') or name.startswith('s_')) and \
        name not in ('d_idx', 's_idx')


def index_uses_of_source(src, what='<source>'):
    """names of the `d_*` / `s_*` array arguments of the function in `src`
    an ELEMENT of which is used where the generated Cython needs an integer:

      * inside the subscript of another array access   d_p[d_orig_idx[d_idx]]
      * as an argument of range()                      range(d_n[d_idx])
      * assigned (=, +=, ...) to a local that the method declares with an
        integer C type                                 idx = declare('int');
                                                       idx = d_orig_idx[d_idx]

    (through + - * // % and unary operators, conditional expressions and
    parentheses).  `cast(expr, '<type>')` and any other call is a boundary:
    what is inside does not constrain the element type.  This is what compyle
    does with the known types of get_known_types_for_arrays: the argument
    becomes `<c type>* d_name`, a local declared by `declare('int')` becomes
    `cdef int`, every other assigned local `cdef double`; Cython then rejects
    `int = double` and a double subscript.

    An array argument that is bound to another name (alias) would escape
    this scan: that makes the translator fail."""
    fn = ast.parse(textwrap.dedent(src)).body[0]
    if not isinstance(fn, ast.FunctionDef):
        raise TranslatorError('%s: not a function' % what)
    args = [a.arg for a in fn.args.args]
    arrs = set(a for a in args if _is_array_arg(a))
    int_locals = set()
    for n in ast.walk(fn):
        if isinstance(n, ast.Assign) and isinstance(n.value, ast.Call) and \
                isinstance(n.value.func, ast.Name) and \
                n.value.func.id == 'declare' and n.value.args and \
                isinstance(n.value.args[0], ast.Constant) and \
                isinstance(n.value.args[0].value, str):
            ty = n.value.args[0].value.strip()
            if ty in _INT_DECL:
                for t in n.targets:
                    for m in ([t] if isinstance(t, ast.Name) else
                              getattr(t, 'elts', [])):
                        if isinstance(m, ast.Name):
                            int_locals.add(m.id)
    used = set()

    def elements(expr):
        """array arguments whose element appears in `expr` outside any call"""
        if isinstance(expr, ast.Subscript):
            if isinstance(expr.value, ast.Name) and expr.value.id in arrs:
                used.add(expr.value.id)
            # (its own subscript is visited as a Subscript in its own right)
        elif isinstance(expr, ast.BinOp):
            elements(expr.left)
            elements(expr.right)
        elif isinstance(expr, ast.UnaryOp):
            elements(expr.operand)
        elif isinstance(expr, ast.IfExp):
            elements(expr.body)
            elements(expr.orelse)
        elif isinstance(expr, (ast.Tuple, ast.Slice)):
            for c in ast.iter_child_nodes(expr):
                if isinstance(c, ast.expr):
                    elements(c)
        # Call (cast, floor, ...), Name, Constant, Attribute: boundary

    parents = {}
    for n in ast.walk(fn):
        for c in ast.iter_child_nodes(n):
            parents[c] = n
    for n in ast.walk(fn):
        if isinstance(n, ast.Subscript):
            elements(n.slice)
        elif isinstance(n, ast.Call) and isinstance(n.func, ast.Name) and \
                n.func.id == 'range':
            for x in n.args:
                elements(x)
        elif isinstance(n, (ast.Assign, ast.AugAssign)):
            tg = n.targets if isinstance(n, ast.Assign) else [n.target]
            if any(isinstance(t, ast.Name) and t.id in int_locals
                   for t in tg):
                elements(n.value)
        if isinstance(n, ast.Name) and n.id in arrs and \
                isinstance(n.ctx, ast.Load):
            par = parents.get(n)
            ok = (isinstance(par, ast.Subscript) and par.value is n) or \
                (isinstance(par, ast.Call) and (n in par.args or any(
                    k.value is n for k in par.keywords)))
            if not ok:
                raise TranslatorError(
                    '%s: array argument %s is used other than by subscript '
                    'or as a call argument (line %d): the index-use scan '
                    'cannot follow it' % (what, n.id, n.lineno))
        if isinstance(n, (ast.Name,)) and n.id in arrs and \
                isinstance(n.ctx, ast.Store):
            raise TranslatorError('%s: array argument %s is rebound'
                                  % (what, n.id))
    return sorted(used)


def index_uses(cls, meth_name):
    key = (cls, meth_name)
    if key not in _INDEX_CACHE:
        meth = getattr(cls, meth_name)
        _INDEX_CACHE[key] = index_uses_of_source(
            inspect.getsource(meth), '%s.%s' % (cls.__name__, meth_name))
    return _INDEX_CACHE[key]


def array_types(pa):
    """{name: (c type, stride)} of every property and constant"""
    out = {}
    for coll in (pa.properties, pa.constants):
        for n, arr in coll.items():
            ct = arr.get_c_type()
            if ct not in CTYPES:
                raise TranslatorError('array %s.%s has the C type %r, not one '
                                      'of %s' % (pa.name, n, ct, CTYPES))
            out[n] = (ct, int(pa.stride.get(n, 1)))
    return out


def flatten_groups(equations):
    """-> list of stages, each a list of (group path, equation object)"""
    from pysph.sph.equation import Group, MultiStageEquations
    if isinstance(equations, MultiStageEquations):
        stages = equations.groups
    else:
        stages = [equations]
    out = []
    for st in stages:
        eqs = []

        def walk(items, path):
            for i, it in enumerate(items):
                if isinstance(it, Group):
                    walk(it.equations, path + (i,))
                else:
                    eqs.append((path, it))
        walk(st, ())
        out.append(eqs)
    return out


def describe_equation(eq):
    hooks = OrderedDict()
    for h in HOOKS:
        m = getattr(eq, h, None)
        if m is not None:
            hooks[h] = [a for a in _args_of(m) if a != 'self']
    implicit = []
    for h in IMPLICIT_EQ:
        if hasattr(eq, h):
            implicit += implicit_reads(type(eq), h)
    idx = set()
    for h in hooks:
        idx.update(index_uses(type(eq), h))
    return {
        'index_d': sorted(x[2:] for x in idx if x.startswith('d_')),
        'index_s': sorted(x[2:] for x in idx if x.startswith('s_')),
        'cls': type(eq).__name__,
        'module': type(eq).__module__,
        'dest': eq.dest,
        'sources': None if eq.sources is None else list(eq.sources),
        'hooks': hooks,
        'implicit': sorted(set(implicit)),
    }


def describe_stepper(array, st):
    meths = OrderedDict()
    implicit = []
    idx = set()
    py_stages = []
    for x in dir(st):
        if x.startswith('py_stage'):
            implicit += implicit_reads(type(st), x)
            py_stages.append(x[3:])
        elif x.startswith('stage') or x == 'initialize':
            meths[x] = [a for a in _args_of(getattr(st, x)) if a != 'self']
            idx.update(a[2:] for a in index_uses(type(st), x))
    return {'array': array, 'cls': type(st).__name__, 'methods': meths,
            'implicit': sorted(set(implicit)), 'index': sorted(idx),
            'py_stages': sorted(py_stages)}


# --------------------------------------------------------------------------
# the integrator: which members of the generated `Integrator` class its
# one_timestep uses

_TEMPLATE_MEMBERS = None
_INTEG_CACHE = {}


def template_members():
    """what the generated cdef class Integrator always has, read from
    pysph/sph/integrator_cython.mako: its literal methods and cdef attributes
    (the wrappers `cdef ${method}(self)` come from the steppers)"""
    global _TEMPLATE_MEMBERS
    if _TEMPLATE_MEMBERS is None:
        import re
        import pysph.sph
        path = os.path.join(os.path.dirname(pysph.sph.__file__),
                            'integrator_cython.mako')
        text = open(path).read()
        k = text.find('cdef class Integrator')
        if k < 0:
            raise TranslatorError('integrator_cython.mako: no cdef class '
                                  'Integrator')
        text = text[k:]
        meths = set(re.findall(r'^    c?p?def (\w+)\(', text, re.M))
        attrs = set()
        for decl in re.findall(r'^    cdef (?:public )?\w+ ([\w, ]+)$', text,
                               re.M):
            attrs.update(x.strip() for x in decl.split(','))
        if 'one_timestep' not in meths or 'do_post_stage' not in meths:
            raise TranslatorError('integrator_cython.mako: unexpected layout '
                                  '(methods found: %s)' % sorted(meths))
        _TEMPLATE_MEMBERS = meths | attrs
    return _TEMPLATE_MEMBERS


def integrator_calls(cls):
    """names of the `self.<name>` members that `cls.one_timestep` uses and
    that the template of the generated Integrator class does not define by
    itself: each must be a stepper-method wrapper (`initialize`, `stage<n>`),
    generated only when some stepper has that method
    (IntegratorCythonHelper.get_stepper_method_wrapper_names) -- the body of
    one_timestep is pasted into the generated cdef class as it is
    (get_timestep_code)."""
    if cls not in _INTEG_CACHE:
        fn = ast.parse(textwrap.dedent(
            inspect.getsource(cls.one_timestep))).body[0]
        if not isinstance(fn, ast.FunctionDef) or not fn.args.args:
            raise TranslatorError('%s.one_timestep: not a method'
                                  % cls.__name__)
        me = fn.args.args[0].arg
        used = set()
        for n in ast.walk(fn):
            if isinstance(n, ast.Attribute) and \
                    isinstance(n.value, ast.Name) and n.value.id == me:
                used.add(n.attr)
            elif isinstance(n, ast.Name) and n.id == me and \
                    not isinstance(n.ctx, ast.Load):
                raise TranslatorError('%s.one_timestep rebinds %s'
                                      % (cls.__name__, me))
        for n in ast.walk(fn):
            if isinstance(n, ast.Call) and isinstance(n.func, ast.Name) and \
                    n.func.id in ('getattr', 'setattr') and n.args and \
                    isinstance(n.args[0], ast.Name) and n.args[0].id == me:
                raise TranslatorError('%s.one_timestep uses a computed member '
                                      'of the integrator' % cls.__name__)
        _INTEG_CACHE[cls] = sorted(used - template_members())
    return _INTEG_CACHE[cls]


def describe_integrator(integ):
    return {'cls': type(integ).__name__,
            'calls': integrator_calls(type(integ))}


def extract(name, digits):
    """the record of one configuration"""
    scheme, particles, equations = run_scheme(name, digits)
    stages = flatten_groups(equations)
    rec = {
        'scheme': name,
        'digits': list(digits),
        'arrays': [
            {'name': pa.name, 'props': sorted(pa.properties.keys()),
             'consts': sorted(pa.constants.keys()),
             'types': array_types(pa)} for pa in particles],
        'equations': [describe_equation(eq) for st in stages for _, eq in st],
        'nstages': len(stages),
    }
    integ = scheme.get_solver().integrator
    rec['integrator'] = describe_integrator(integ)
    rec['steppers'] = [describe_stepper(k, st)
                       for k, st in integ.steppers.items()]
    rec['kernel'] = type(scheme.get_solver().kernel).__name__
    return rec


def precomputed_table():
    """Group.pre_comp of the real code: symbol -> (symbols of the code block
    that are precomputed symbols, d_ arrays, s_ arrays)"""
    from pysph.sph.equation import Group
    pre = Group.pre_comp
    out = OrderedDict()
    for sym in pre.keys():
        cb = pre[sym]
        out[sym] = {
            'deps': sorted(s for s in cb.symbols if s in pre and s != sym),
            'd': sorted(x[2:] for x in cb.dest_arrays),
            's': sorted(x[2:] for x in cb.src_arrays),
        }
    return out


# --------------------------------------------------------------------------
# the whole table

def _worker(job):
    name, lo, hi = job
    out = []
    import io
    import contextlib
    for idx in range(lo, hi):
        digits = config_of_index(name, idx)
        buf = io.StringIO()
        try:
            with contextlib.redirect_stdout(buf):
                rec = extract(name, digits)
            out.append((name, idx, rec, None))
        except Exception as e:      # a configuration the scheme rejects
            import traceback
            out.append((name, idx, None,
                        ('%s: %s\n%s' % (type(e).__name__, e,
                                         traceback.format_exc()[-1500:]),
                         type(e).__name__)))
    return out


def extract_all(jobs=None, only=None):
    """-> {scheme: [record or {'error':...} per grid index]}"""
    import multiprocessing as mp
    names = [n for n in SPECS if only is None or n in only]
    tasks = []
    for n in names:
        size = grid_size(n)
        step = max(8, min(64, size // 32 + 1))
        for lo in range(0, size, step):
            tasks.append((n, lo, min(size, lo + step)))
    res = {n: [None] * grid_size(n) for n in names}
    jobs = jobs or min(16, os.cpu_count() or 4)
    ctx = mp.get_context('fork')
    with ctx.Pool(jobs) as pool:
        for chunk in pool.imap_unordered(_worker, tasks):
            for name, idx, rec, err in chunk:
                res[name][idx] = rec if err is None else \
                    {'error': err[0], 'etype': err[1]}
    return res


# --------------------------------------------------------------------------
# interning and Lean emission

def is_arr(x, pre):
    return (x.startswith(pre) and x != pre + 'idx')


class Interner(object):
    def __init__(self):
        self.ids = OrderedDict()

    def __call__(self, key):
        if key not in self.ids:
            self.ids[key] = len(self.ids)
        return self.ids[key]

    def items(self):
        return list(self.ids.keys())


def build_tables(allrecs, pre):
    """-> dict with names, presyms, eq kinds, stepper kinds, propsets, bodies,
    per-scheme body index lists, and the configurations that raised"""
    props = Interner()          # property / constant names -> bit position
    presym = Interner()
    for s in pre:
        presym(s)
    # fixed order: collect all names first (sorted) so that ids are stable
    names = set()
    for recs in allrecs.values():
        for r in recs:
            if 'error' in r:
                continue
            for a in r['arrays']:
                names.update(a['props'])
                names.update(a['consts'])
            for e in r['equations']:
                for args in e['hooks'].values():
                    names.update(x[2:] for x in args
                                 if is_arr(x, 'd_') or is_arr(x, 's_'))
                names.update(e['implicit'])
                names.update(e['index_d'])
                names.update(e['index_s'])
            for st in r['steppers']:
                for args in st['methods'].values():
                    names.update(x[2:] for x in args
                                 if is_arr(x, 'd_') or is_arr(x, 's_'))
                names.update(st['implicit'])
    for v in pre.values():
        names.update(v['d'])
        names.update(v['s'])
    for n in sorted(names):
        props(n)

    def mask(ns):
        m = 0
        for n in ns:
            m |= 1 << props(n)
        return m

    def pmask(ns):
        m = 0
        for n in ns:
            m |= 1 << presym(n)
        return m

    eqkinds = Interner()
    stepkinds = Interner()
    integkinds = Interner()
    arrnames = Interner()
    bodies = Interner()
    per_scheme = OrderedDict()
    errors = []

    def eqkind(e):
        hooks = tuple(
            (HOOKS.index(h),
             mask(x[2:] for x in args if is_arr(x, 'd_')),
             mask(x[2:] for x in args if is_arr(x, 's_')))
            for h, args in e['hooks'].items())
        loop = e['hooks'].get('loop', [])
        return eqkinds((e['cls'], hooks, pmask(a for a in loop if a in pre),
                        mask(e['implicit']), mask(e['index_d']),
                        mask(e['index_s'])))

    def stepkind(st):
        meths = tuple(
            (m, mask(x[2:] for x in args
                     if is_arr(x, 'd_') or is_arr(x, 's_')))
            for m, args in st['methods'].items())
        return stepkinds((st['cls'], meths, mask(st['implicit']),
                          mask(st['index']), tuple(st['py_stages'])))

    def types_of(a):
        ty = a['types']
        return tuple(mask(n for n, (ct, _) in ty.items() if ct == c)
                     for c in CTYPES) + (
            tuple(sorted((props(n), sd) for n, (_, sd) in ty.items()
                         if sd != 1)),)

    for sname, recs in allrecs.items():
        ids = []
        for idx, r in enumerate(recs):
            if 'error' in r:
                opts = config_values(sname, config_of_index(sname, idx))[0]
                declared = bool(SPECS[sname]['rejects'](opts)) and \
                    r.get('etype') == 'ValueError'
                errors.append((sname, idx, r['error'], declared))
                ids.append('rejected' if declared else None)
                continue
            aidx = {a['name']: i for i, a in enumerate(r['arrays'])}
            NOARR = 999
            arrays = tuple((arrnames(a['name']),
                            mask(a['props']) | mask(a['consts']))
                           for a in r['arrays'])
            eqs = tuple(
                (eqkind(e), aidx.get(e['dest'], NOARR),
                 None if e['sources'] is None else
                 tuple(aidx.get(s, NOARR) for s in e['sources']))
                for e in r['equations'])
            sts = tuple((stepkind(st), aidx.get(st['array'], NOARR))
                        for st in r['steppers'])
            types = tuple(types_of(a) for a in r['arrays'])
            integ = integkinds((r['integrator']['cls'],
                                tuple(r['integrator']['calls'])))
            ids.append(bodies((arrays, eqs, sts, types, integ)))
        per_scheme[sname] = ids
    return {
        'props': props.items(), 'presyms': presym.items(), 'pre': pre,
        'pre_masks': [(s, pmask(pre[s]['deps']), mask(pre[s]['d']),
                       mask(pre[s]['s'])) for s in presym.items()],
        'eqkinds': eqkinds.items(), 'stepkinds': stepkinds.items(),
        'integkinds': integkinds.items(),
        'arrnames': arrnames.items(), 'bodies': bodies.items(),
        'per_scheme': per_scheme, 'errors': errors,
    }


def _lstr(s):
    return json.dumps(s)


def _llist(items):
    return '[' + ', '.join(items) + ']'


def emit_lean(T):
    o = []
    w = o.append
    w('/-')
    w('GENERATED by translate/schemes2tables.py from the scratch build of the')
    w('current source tree -- do not edit.  Rewritten on every `./check C12`.')
    w('')
    w('Property / constant names are interned as bit positions (`propNames`),')
    w('sets of names are Nat bit masks.  `bodies` are the distinct results of')
    w('running configure / configure_solver / setup_properties / get_equations;')
    w('each scheme lists one body index per point of its option grid, in')
    w('mixed-radix order over `axes` (first axis most significant).  The last')
    w('component of a body gives, per array, the names of C type int / unsigned')
    w('int / long / float / double and the strides other than 1; the last')
    w('components of an equation / stepper kind the array arguments an element')
    w('of which is used as an index.  A stepper kind also lists the stages')
    w('it has a Python-level `py_stage<n>` for; the last component of a body is')
    w('the integrator kind.')
    w('-/')
    w('import PysphVerif.Model.SchemeNeeds')
    w('namespace PysphVerif.Gen.Schemes')
    w('open PysphVerif.SchemeNeeds')
    w('')
    w('def propNames : List String := ' + _llist(_lstr(p) for p in T['props']))
    w('')
    w('def arrayNames : List String := ' + _llist(_lstr(p) for p in T['arrnames']))
    w('')
    w('/-- `Group.pre_comp`: symbol, precomputed symbols its code block uses,')
    w('`d_` arrays it reads, `s_` arrays it reads -/')
    w('def preTable : List PreSym := [')
    w(',\n'.join('  ⟨%s, %d, %d, %d⟩' % (_lstr(s), dm, d, sm)
                 for s, dm, d, sm in T['pre_masks']))
    w(']')
    w('')
    w('def eqKinds : List EqKind := [')
    rows = []
    for cls, hooks, lp, imp, ixd, ixs in T['eqkinds']:
        hs = _llist('⟨%d, %d, %d⟩' % h for h in hooks)
        rows.append('  ⟨%s, %s, %d, %d, %d, %d⟩' % (_lstr(cls), hs, lp, imp,
                                                    ixd, ixs))
    w(',\n'.join(rows))
    w(']')
    w('')
    w('def stepKinds : List StepKind := [')
    rows = []
    for cls, meths, imp, ix, pys in T['stepkinds']:
        ms = _llist('(%s, %d)' % (_lstr(m), k) for m, k in meths)
        rows.append('  ⟨%s, %s, %d, %d, %s⟩' % (
            _lstr(cls), ms, imp, ix, _llist(_lstr(x) for x in pys)))
    w(',\n'.join(rows))
    w(']')
    w('')
    w('/-- integrator classes: the members of the generated Integrator class')
    w('that `one_timestep` uses and the template does not define itself -/')
    w('def integKinds : List IntegKind := [')
    w(',\n'.join('  ⟨%s, %s⟩' % (_lstr(cls), _llist(_lstr(x) for x in calls))
                 for cls, calls in T['integkinds']))
    w(']')
    w('')
    w('def bodies : List Body := [')
    rows = []
    for arrays, eqs, sts, types, integ in T['bodies']:
        a = _llist('(%d, %d)' % x for x in arrays)
        ty = _llist('⟨%d, %d, %d, %d, %d, %s⟩' % (
            t[0], t[1], t[2], t[3], t[4],
            _llist('(%d, %d)' % x for x in t[5])) for t in types)
        e = _llist('⟨%d, %d, %s⟩' % (
            k, d, 'none' if s is None else 'some ' + _llist(str(x) for x in s))
            for k, d, s in eqs)
        s = _llist('(%d, %d)' % x for x in sts)
        rows.append('  ⟨%s,\n   %s,\n   %s,\n   %s,\n   %d⟩' % (a, e, s, ty,
                                                                  integ))
    w(',\n'.join(rows))
    w(']')
    w('')
    NOBODY = len(T['bodies']) + 1000000
    for sname, ids in T['per_scheme'].items():
        axes = grid_axes(sname)
        grid_at = len(o)
        w('def grid%s : SchemeGrid := {' % sname)
        w('  name := %s,' % _lstr(sname))
        w('  axes := %s,' % _llist(
            '(%s, %s)' % (_lstr(ax), _llist(_lstr(l) for l, _ in vals))
            for ax, vals in axes))
        codes = [0 if i == 'rejected' else (NOBODY if i is None else i + 1)
                 for i in ids]
        runs = []
        for c in codes:
            if runs and runs[-1][1] == c:
                runs[-1][0] += 1
            else:
                runs.append([1, c])
        chunks = [runs[k:k + 1000] for k in range(0, len(runs), 1000)] or [[]]
        w('  runs := %s }' % ' ++ '.join(
            'runs%s_%d' % (sname, k) for k in range(len(chunks))))
        defs = []
        for k, ch in enumerate(chunks):
            defs.append('def runs%s_%d : List (Nat × Nat) := %s' % (
                sname, k, _llist('(%d, %d)' % (n, c) for n, c in ch)))
        # the chunk definitions must precede the grid
        o[grid_at:grid_at] = defs + ['']
        w('')
    w('def schemeTable : List SchemeGrid := ' + _llist(
        'grid' + s for s in T['per_scheme']))
    w('')
    w('end PysphVerif.Gen.Schemes')
    return '\n'.join(o) + '\n'


def table_json(T, allrecs):
    """the same table as plain data for the harness (decoded names)"""
    return {
        'props': T['props'],
        'schemes': {s: {'axes': [(ax, [l for l, _ in vals])
                                 for ax, vals in grid_axes(s)],
                        'bodyOf': ids}
                    for s, ids in T['per_scheme'].items()},
        'nbodies': len(T['bodies']),
        'errors': [(s, i, e[:300], d) for s, i, e, d in T['errors']],
    }


def main():
    ap = argparse.ArgumentParser()
    ap.add_argument('--repo', required=True)
    ap.add_argument('--out', required=True)
    ap.add_argument('--jobs', type=int, default=0)
    ap.add_argument('--only', default='')
    a = ap.parse_args()
    sys.path.insert(0, os.path.join(os.path.dirname(os.path.abspath(__file__)),
                                    '..', 'lib'))
    import vlib
    import pysph
    got = os.path.dirname(os.path.dirname(os.path.abspath(pysph.__file__)))
    if os.path.realpath(got) != os.path.realpath(a.repo):
        raise SystemExit('schemes2tables imported pysph from %s, expected %s'
                         % (got, a.repo))
    t0 = time.time()
    info = audit_grid()
    pre = precomputed_table()
    only = set(a.only.split(',')) if a.only else None
    allrecs = extract_all(a.jobs or None, only)
    T = build_tables(allrecs, pre)
    txt = emit_lean(T)
    changed = vlib.write_if_changed(os.path.join(a.out, 'Schemes.lean'), txt)
    nconf = sum(len(v) for v in allrecs.values())
    print('schemes2tables: %d schemes, %d configurations, %d distinct bodies, '
          '%d equation kinds, %d stepper kinds, %d names, %d configurations '
          'raised; %d integrator kinds; %s; %.1fs'
          % (len(allrecs), nconf, len(T['bodies']), len(T['eqkinds']),
             len(T['stepkinds']), len(T['props']), len(T['errors']),
             len(T['integkinds']),
             'rewritten' if changed else 'unchanged', time.time() - t0))
    und = [x for x in T['errors'] if not x[3]]
    print('  %d configurations rejected by the scheme as declared in SPECS, '
          '%d raised without being declared' % (len(T['errors']) - len(und),
                                                len(und)))
    for s, i, e, d in und[:10]:
        print('  RAISED %s #%d %s: %s' % (
            s, i, dict(describe(s, config_of_index(s, i))),
            e.strip().split('\n')[0]))
    for s, d in info.items():
        print('  grid audit %s: branches on %s; configure_solver on the value '
              'of %s' % (s, d['branch_attrs'], d['solver_branches']))


if __name__ == '__main__':
    try:
        main()
    except TranslatorError as e:
        print('schemes2tables: ' + str(e))
        sys.exit(3)
