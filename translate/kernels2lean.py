"""kernels2lean: pysph/base/kernels.py  ->  lean/PysphVerif/Gen/Kernels.lean

Symbolic execution of `__init__`, `kernel`, `dwdq`, `gradient`, `gradient_h` of
every kernel class for every dimension in {1,2,3} the class accepts.

* numbers are exact rationals (a float literal means its decimal text);
* `pi`, `M_1_PI`, `M_2_SQRTPI`, `sqrt(pi)` are powers of the symbol
  p = pi^(-1/2), so `self.fac` comes out as  rational * pi^(k/2);
* `kernel/dwdq/gradient_h` run with rij = q*h, h symbolic (integer exponents),
  `exp(-q*q)` the symbol E; comparisons of `q` with constants are decided per
  region (every open interval between the constants found, and every constant
  itself; a constant treated unlike BOTH neighbouring intervals becomes a
  degenerate piece [b, b] of its own -- never merged into a neighbour -- so the
  Lean table obligations see the hole), `rij > c` is the boolean parameter
  `rpos`, comparisons on
  `self.dim` are concrete;  every result must have the form
  fac * h^-k * E^e * P(q)  with e in {0,1} -- P is emitted as a coefficient list;
* `gradient` runs with independent symbols rij, h, xij[i] and the opaque
  symbol `wdash` for `self.dwdq(rij, h)`; each component must be one monomial.

Anything outside this subset raises Unsupported -> non-zero exit (the check
then reports a broken tie).  Output is written with vlib.write_if_changed.
"""
import argparse
import ast
import os
import sys
from fractions import Fraction

sys.path.insert(0, os.path.join(os.path.dirname(os.path.abspath(__file__)),
                                '..', 'lib'))
import vlib  # noqa: E402


class Unsupported(Exception):
    pass


class DimRejected(Exception):
    pass


# --------------------------------------------------------------------------
# Laurent polynomials: dict {monomial: Fraction}, monomial = sorted tuple of
# (symbol, int exponent != 0)

def mono_mul(a, b):
    d = dict(a)
    for s, e in b:
        d[s] = d.get(s, 0) + e
    return tuple(sorted((s, e) for s, e in d.items() if e != 0))


class P:
    __slots__ = ('t',)

    def __init__(self, t=None):
        self.t = {m: c for m, c in (t or {}).items() if c != 0}

    @staticmethod
    def const(c):
        return P({(): Fraction(c)})

    @staticmethod
    def sym(s, e=1):
        return P({((s, e),): Fraction(1)})

    def __add__(self, o):
        d = dict(self.t)
        for m, c in o.t.items():
            d[m] = d.get(m, 0) + c
        return P(d)

    def __neg__(self):
        return P({m: -c for m, c in self.t.items()})

    def __sub__(self, o):
        return self + (-o)

    def __mul__(self, o):
        d = {}
        for m1, c1 in self.t.items():
            for m2, c2 in o.t.items():
                m = mono_mul(m1, m2)
                d[m] = d.get(m, 0) + c1 * c2
        return P(d)

    def div(self, o):
        if len(o.t) != 1:
            raise Unsupported('division by a non-monomial %r' % (o.t,))
        (m, c), = o.t.items()
        inv = P({tuple((s, -e) for s, e in m): 1 / c})
        return self * inv

    def __eq__(self, o):
        return isinstance(o, P) and self.t == o.t

    def __hash__(self):
        return hash(tuple(sorted(self.t.items())))

    def is_const(self):
        return all(m == () for m in self.t)

    def cval(self):
        if not self.is_const():
            raise Unsupported('not a constant: %r' % (self.t,))
        return self.t.get((), Fraction(0))

    def __repr__(self):
        return 'P(%r)' % (self.t,)


Q = P.sym('q')
PI_SYMS = {
    'pi': P.sym('p', -2),
    'M_1_PI': P.sym('p', 2),
    'M_2_SQRTPI': P.const(2) * P.sym('p', 1),
}


def const_of(node):
    v = node.value
    if isinstance(v, bool) or not isinstance(v, (int, float)):
        raise Unsupported('constant %r' % (v,))
    if isinstance(v, int):
        return Fraction(v)
    return Fraction(repr(v))        # the decimal text of the literal


# --------------------------------------------------------------------------

class Exec:
    """symbolic interpreter for one method body"""

    def __init__(self, cls_methods, selfattrs, qsample=None, rpos=None,
                 mode='radial'):
        self.methods = cls_methods
        self.attrs = selfattrs          # name -> P or int
        self.qsample = qsample          # Fraction: decides `q ? const`
        self.rpos = rpos
        self.mode = mode
        self.env = {}
        self.path = []
        self.rthresh = set()
        self.ret = None
        self.grad = {}

    # ---- expressions
    def ev(self, n):
        if isinstance(n, ast.Constant):
            return P.const(const_of(n))
        if isinstance(n, ast.Name):
            if n.id in self.env:
                return self.env[n.id]
            if n.id in PI_SYMS:
                return PI_SYMS[n.id]
            raise Unsupported('unbound name %s' % n.id)
        if isinstance(n, ast.Attribute):
            if isinstance(n.value, ast.Name) and n.value.id == 'self':
                if n.attr not in self.attrs:
                    raise Unsupported('unbound self.%s' % n.attr)
                return self.attrs[n.attr]
            raise Unsupported(ast.dump(n))
        if isinstance(n, ast.UnaryOp):
            if isinstance(n.op, ast.USub):
                return -self.ev(n.operand)
            if isinstance(n.op, ast.UAdd):
                return self.ev(n.operand)
            raise Unsupported(ast.dump(n))
        if isinstance(n, ast.BinOp):
            a, b = self.ev(n.left), self.ev(n.right)
            if isinstance(n.op, ast.Add):
                return a + b
            if isinstance(n.op, ast.Sub):
                return a - b
            if isinstance(n.op, ast.Mult):
                return a * b
            if isinstance(n.op, ast.Div):
                return a.div(b)
            raise Unsupported('operator %s' % type(n.op).__name__)
        if isinstance(n, ast.Subscript):
            if isinstance(n.value, ast.Name) and isinstance(n.slice, ast.Constant):
                key = '%s[%d]' % (n.value.id, n.slice.value)
                if key in self.env:
                    return self.env[key]
            raise Unsupported('subscript ' + ast.dump(n))
        if isinstance(n, ast.Call):
            f = n.func
            if isinstance(f, ast.Name) and f.id == 'exp' and len(n.args) == 1:
                a = self.ev(n.args[0])
                if a == -(Q * Q):
                    return P.sym('E')
                raise Unsupported('exp of %r (only exp(-q*q))' % (a,))
            if isinstance(f, ast.Name) and f.id == 'sqrt' and len(n.args) == 1:
                a = self.ev(n.args[0])
                if a == PI_SYMS['pi']:
                    return P.sym('p', -1)
                raise Unsupported('sqrt of %r (only sqrt(pi))' % (a,))
            if (isinstance(f, ast.Attribute) and isinstance(f.value, ast.Name)
                    and f.value.id == 'self' and f.attr == 'dwdq'
                    and self.mode == 'grad'):
                args = [self.ev(x) for x in n.args]
                if args == [P.sym('rij'), P.sym('h')] and not n.keywords:
                    return P.sym('wdash')
                raise Unsupported('self.dwdq called with other arguments')
            raise Unsupported('call ' + ast.dump(f))
        raise Unsupported('expression ' + ast.dump(n))

    def cond(self, n):
        # `A and B`, `A or B`, `not A`, `a < q < b`: every operand is evaluated
        # (conditions have no side effects; the rij threshold must be recorded
        # whichever way the other operands go)
        if isinstance(n, ast.BoolOp) and isinstance(n.op, (ast.And, ast.Or)):
            vals = [self.cond(v) for v in n.values]
            return all(vals) if isinstance(n.op, ast.And) else any(vals)
        if isinstance(n, ast.UnaryOp) and isinstance(n.op, ast.Not):
            return not self.cond(n.operand)
        if isinstance(n, ast.Compare) and len(n.ops) > 1:
            terms = [n.left] + list(n.comparators)
            vals = [self.cond(ast.Compare(left=terms[i], ops=[n.ops[i]], comparators=[terms[i + 1]]))
                    for i in range(len(n.ops))]
            return all(vals)
        if not (isinstance(n, ast.Compare) and len(n.ops) == 1):
            raise Unsupported('condition ' + ast.dump(n))
        a, b = self.ev(n.left), self.ev(n.comparators[0])
        op = n.ops[0]
        fn = {ast.Gt: lambda x, y: x > y, ast.Lt: lambda x, y: x < y,
              ast.GtE: lambda x, y: x >= y, ast.LtE: lambda x, y: x <= y,
              ast.Eq: lambda x, y: x == y, ast.NotEq: lambda x, y: x != y}.get(type(op))
        if fn is None:
            raise Unsupported('comparison ' + type(op).__name__)
        if a.is_const() and b.is_const():
            return fn(a.cval(), b.cval())
        if a == Q and b.is_const():
            if self.qsample is None:
                raise Unsupported('comparison on q outside a radial method')
            return fn(self.qsample, b.cval())
        if b == Q and a.is_const():        # `1.0 < q`
            if self.qsample is None:
                raise Unsupported('comparison on q outside a radial method')
            return fn(a.cval(), self.qsample)
        rsym = (Q * P.sym('h')) if self.mode == 'radial' else P.sym('rij')
        if a == rsym and b.is_const() and isinstance(op, ast.Gt):
            self.rthresh.add(b.cval())
            return bool(self.rpos)
        raise Unsupported('condition on %r %s %r' % (a, type(op).__name__, b))

    # ---- statements; returns True when a `return` was executed
    def run(self, body):
        for s in body:
            if self.stmt(s):
                return True
        return False

    def assign(self, tgt, val):
        if isinstance(tgt, ast.Name):
            self.env[tgt.id] = val
        elif (isinstance(tgt, ast.Attribute) and isinstance(tgt.value, ast.Name)
              and tgt.value.id == 'self'):
            self.attrs[tgt.attr] = val
        elif (isinstance(tgt, ast.Subscript) and isinstance(tgt.value, ast.Name)
              and tgt.value.id == 'grad' and isinstance(tgt.slice, ast.Constant)):
            self.grad[tgt.slice.value] = val
        else:
            raise Unsupported('assignment target ' + ast.dump(tgt))

    def stmt(self, s):
        if isinstance(s, ast.Expr) and isinstance(s.value, ast.Constant) \
                and isinstance(s.value.value, str):
            return False
        if isinstance(s, ast.Assign) and len(s.targets) == 1:
            self.assign(s.targets[0], self.ev(s.value))
            return False
        if isinstance(s, ast.AugAssign):
            cur = self.ev(s.target)
            v = self.ev(s.value)
            if isinstance(s.op, ast.Add):
                r = cur + v
            elif isinstance(s.op, ast.Sub):
                r = cur - v
            elif isinstance(s.op, ast.Mult):
                r = cur * v
            elif isinstance(s.op, ast.Div):
                r = cur.div(v)
            else:
                raise Unsupported('augmented ' + type(s.op).__name__)
            self.assign(s.target, r)
            return False
        if isinstance(s, ast.If):
            c = self.cond(s.test)
            self.path.append(c)
            return self.run(s.body if c else s.orelse)
        if isinstance(s, ast.Return):
            self.ret = self.ev(s.value) if s.value is not None else None
            return True
        if isinstance(s, ast.Raise):
            raise DimRejected()
        if isinstance(s, ast.Pass):
            return False
        raise Unsupported('statement ' + ast.dump(s)[:80])


# --------------------------------------------------------------------------

def q_constants(fn):
    """every constant `q` is compared with, in either order, also inside
    and/or/not and chained comparisons"""
    out = set()
    for n in ast.walk(fn):
        if isinstance(n, ast.Compare):
            terms = [n.left] + list(n.comparators)
            for l, r in zip(terms, terms[1:]):
                for x, y in ((l, r), (r, l)):
                    if isinstance(x, ast.Name) and x.id == 'q':
                        if isinstance(y, ast.UnaryOp) and isinstance(y.op, ast.USub) \
                                and isinstance(y.operand, ast.Constant):
                            out.add(-const_of(y.operand))
                        elif isinstance(y, ast.Constant):
                            out.add(const_of(y))
    return out


def split_result(val, what):
    """val = F * h^-k * E^e * P(q)  ->  (k, e, coefficient list)"""
    if val is None:
        raise Unsupported('%s returns nothing' % what)
    if not val.t:
        return None, None, []
    ks, es, coeffs = set(), set(), {}
    for m, c in val.t.items():
        d = dict(m)
        if d.pop('F', 0) != 1:
            raise Unsupported('%s: a term is not linear in self.fac: %r' % (what, m))
        k = -d.pop('h', 0)
        e = d.pop('E', 0)
        j = d.pop('q', 0)
        if d or j < 0 or e not in (0, 1) or k < 0:
            raise Unsupported('%s: term outside fac*h^-k*E^e*q^j: %r' % (what, m))
        ks.add(k)
        es.add(e)
        coeffs[j] = coeffs.get(j, 0) + c
    if len(ks) != 1 or len(es) != 1:
        raise Unsupported('%s: mixed powers of h or of exp(-q^2): %r %r' % (what, ks, es))
    n = max(coeffs) + 1
    lst = [coeffs.get(j, Fraction(0)) for j in range(n)]
    while lst and lst[-1] == 0:
        lst.pop()
    return ks.pop(), es.pop(), lst


def run_init(methods, dim):
    ex = Exec(methods, {}, mode='init')
    ex.env['dim'] = P.const(dim)
    ex.run(methods['__init__'].body)
    return ex.attrs


def fac_parts(fac):
    if len(fac.t) != 1:
        raise Unsupported('self.fac is not rational * pi^(k/2): %r' % (fac,))
    (m, c), = fac.t.items()
    d = dict(m)
    k = d.pop('p', 0)
    if d:
        raise Unsupported('self.fac contains %r' % (d,))
    return c, -k          # fac = c * pi^(-k/2)  ->  piHalf = -k


def run_radial(methods, attrs, name, qs, rpos):
    ex = Exec(methods, dict(attrs), qsample=qs, rpos=rpos, mode='radial')
    ex.env['rij'] = Q * P.sym('h')
    ex.env['h'] = P.sym('h')
    ex.env['xij[0]'] = P.sym('x0')
    ex.env['xij[1]'] = P.sym('x1')
    ex.env['xij[2]'] = P.sym('x2')
    if not ex.run(methods[name].body):
        raise Unsupported('%s: no return reached' % name)
    return ex


def run_grad(methods, attrs, rpos):
    ex = Exec(methods, dict(attrs), rpos=rpos, mode='grad')
    ex.env['rij'] = P.sym('rij')
    ex.env['h'] = P.sym('h')
    for i in range(3):
        ex.env['xij[%d]' % i] = P.sym('x%d' % i)
    ex.run(methods['gradient'].body)
    comps = []
    for i in range(3):
        if i not in ex.grad:
            raise Unsupported('gradient does not set grad[%d]' % i)
        v = ex.grad[i]
        if len(v.t) > 1:
            raise Unsupported('grad[%d] is not a single monomial' % i)
        if not v.t:
            comps.append((Fraction(0), 0, 0, 0, [0, 0, 0]))
            continue
        (m, c), = v.t.items()
        d = dict(m)
        wd, hh, rr = d.pop('wdash', 0), d.pop('h', 0), d.pop('rij', 0)
        xs = [d.pop('x%d' % j, 0) for j in range(3)]
        if d:
            raise Unsupported('grad[%d] contains %r' % (i, d))
        comps.append((c, wd, hh, rr, xs))
    return comps, ex.rthresh


def analyse(cls, dim):
    methods = {n.name: n for n in cls.body if isinstance(n, ast.FunctionDef)}
    for need in ('__init__', 'kernel', 'dwdq', 'gradient', 'gradient_h'):
        if need not in methods:
            raise Unsupported('%s has no %s' % (cls.name, need))
    attrs = run_init(methods, dim)           # may raise DimRejected
    for a in ('fac', 'radius_scale', 'dim'):
        if a not in attrs:
            raise Unsupported('%s.__init__ does not set %s' % (cls.name, a))
    if attrs['dim'].cval() != dim:
        raise Unsupported('self.dim != dim')
    facq, pihalf = fac_parts(attrs['fac'])
    radius = attrs['radius_scale'].cval()
    sattrs = dict(attrs)
    sattrs['fac'] = P.sym('F')
    consts = set()
    for nm in ('kernel', 'dwdq', 'gradient_h'):
        consts |= q_constants(methods[nm])
    bps = sorted(c for c in consts if c > 0)
    if any(c < 0 for c in consts):
        raise Unsupported('negative comparison constant for q')
    if not bps:
        raise Unsupported('no support edge found')
    # regions: ('open', lo, hi|None, sample) and ('pt', b)
    regions = []
    lo = Fraction(0)
    for b in bps:
        regions.append(('open', lo, b, (lo + b) / 2))
        regions.append(('pt', b, b, b))
        lo = b
    regions.append(('open', lo, None, lo + 1))
    rth = set()
    res = []
    hp = {'kernel': set(), 'dwdq': set(), 'gradient_h': set()}
    ee = set()
    for kind, a, b, s in regions:
        row = {}
        for nm in ('kernel', 'dwdq', 'gradient_h'):
            per = []
            for rpos in (True, False):
                ex = run_radial(methods, sattrs, nm, s, rpos)
                rth |= ex.rthresh
                k, e, lst = split_result(ex.ret, '%s.%s' % (cls.name, nm))
                if k is not None:
                    hp[nm].add(k)
                    ee.add(e)
                per.append(tuple(lst))
            row[nm] = per
        if row['kernel'][0] != row['kernel'][1] or \
                row['gradient_h'][0] != row['gradient_h'][1]:
            raise Unsupported('%s: kernel/gradient_h depend on the rij guard' % cls.name)
        res.append((kind, a, b, (row['kernel'][0], row['dwdq'][0],
                                 row['dwdq'][1], row['gradient_h'][0])))
    # the zero position q = 0 must behave like the first open interval
    for nm, idx in (('kernel', 0), ('dwdq', 1), ('gradient_h', 3)):
        for rpos, j in ((True, idx), (False, 2 if nm == 'dwdq' else idx)):
            ex = run_radial(methods, sattrs, nm, Fraction(0), rpos)
            k, e, lst = split_result(ex.ret, '%s.%s' % (cls.name, nm))
            if tuple(lst) != res[0][3][j]:
                raise Unsupported('%s.%s: q = 0 is treated specially' % (cls.name, nm))
    for nm in hp:
        if len(hp[nm]) > 1:
            raise Unsupported('%s.%s: power of h differs between pieces' % (cls.name, nm))
    if len(ee) > 1:
        raise Unsupported('%s: exp(-q^2) envelope on some pieces only' % cls.name)
    if len(rth) > 1:
        raise Unsupported('%s: several rij thresholds %r' % (cls.name, rth))
    gauss = (ee == {1})
    # assemble pieces
    pieces = []
    i = 0
    while i + 1 < len(res):
        kind, a, b, polys = res[i]
        ptpolys = res[i + 1][3]
        nxt = res[i + 2][3]
        if ptpolys == polys:
            pieces.append((a, b, True, polys))
        elif ptpolys == nxt:
            pieces.append((a, b, False, polys))
        else:
            # the single point q = b is treated unlike both neighbours (e.g.
            # `if q < 1: … elif q > 1 and q < 2: …` leaves q == 1 to the
            # initial values).  Represent that faithfully: [a, b) followed by
            # the degenerate piece [b, b] with the point's own polynomials --
            # `lookup` then returns exactly what the code computes at q = b, and
            # the table obligations (`chainOk`: lo < hi on every piece, hence
            # `table_wellformed`; `gradhOk`/`derivOk`/`c1Ok` on the point piece)
            # are left to fail in Lean rather than being decided here.
            pieces.append((a, b, False, polys))
            pieces.append((b, b, True, ptpolys))
        i += 2
    tail = res[-1][3]
    comps_pos, t1 = run_grad(methods, attrs, True)
    comps_neg, t2 = run_grad(methods, attrs, False)
    rth |= t1 | t2
    if len(rth) > 1:
        raise Unsupported('%s: several rij thresholds %r' % (cls.name, rth))
    return {
        'name': cls.name, 'dim': dim, 'radius': radius, 'facq': facq,
        'pihalf': pihalf, 'gauss': gauss,
        'hpw': (hp['kernel'] or {0}).pop(), 'hpd': (hp['dwdq'] or {0}).pop(),
        'hpg': (hp['gradient_h'] or {0}).pop(),
        'rmin': rth.pop() if rth else Fraction(0),
        'pieces': pieces, 'tail': tail, 'grad': comps_pos, 'grad0': comps_neg,
    }


# --------------------------------------------------------------------------
# sign-certificate subdivision (found here, CHECKED in Lean)

def peval(p, x):
    r = Fraction(0)
    for c in reversed(p):
        r = c + x * r
    return r


def padd(a, b):
    n = max(len(a), len(b))
    return [(a[i] if i < len(a) else 0) + (b[i] if i < len(b) else 0) for i in range(n)]


def mul_lin(c0, c1, p):
    return padd([c0 * x for x in p], [Fraction(0)] + [c1 * x for x in p])


def mobius(lo, hi, p):
    if not p:
        return []
    a, rest = p[0], p[1:]
    pw = [Fraction(1)]
    for _ in range(len(rest)):
        pw = mul_lin(Fraction(1), Fraction(1), pw)
    return padd([a * x for x in pw], mul_lin(lo, hi, mobius(lo, hi, rest)))


def cert_cuts(p, lo, hi, depth=0):
    """cut points lo = c0 < ... < cm = hi such that on every [ci, ci+1] the
    Moebius coefficients of p are all <= 0; None if not found"""
    if all(c <= 0 for c in mobius(lo, hi, list(p))) and peval(p, hi) <= 0:
        return [lo, hi]
    if depth >= 6:
        return None
    mid = (lo + hi) / 2
    a = cert_cuts(p, lo, mid, depth + 1)
    b = cert_cuts(p, mid, hi, depth + 1)
    if a is None or b is None:
        return None
    return a + b[1:]


# --------------------------------------------------------------------------

def rat(x):
    x = Fraction(x)
    if x.denominator == 1:
        return '%d' % x.numerator if x >= 0 else '(%d)' % x.numerator
    if x >= 0:
        return '(%d/%d)' % (x.numerator, x.denominator)
    return '(%d/%d)' % (x.numerator, x.denominator)


def ratlist(l):
    return '[' + ', '.join(rat(x) for x in l) + ']'


def emit_piece(a, b, incl, polys, cuts):
    w, dw, dw0, gh = polys
    return ('{ lo := %s, hi := %s, hiIncl := %s,\n      w := %s,\n      dw := %s,\n'
            '      dw0 := %s,\n      gh := %s,\n      cuts := %s }' % (
                rat(a), rat(b), 'true' if incl else 'false', ratlist(w),
                ratlist(dw), ratlist(dw0), ratlist(gh), ratlist(cuts)))


def emit_comp(c):
    coef, wd, hh, rr, xs = c
    return '{ c := %s, wdash := %d, h := %d, rij := %d, x := [%s] }' % (
        rat(coef), wd, hh, rr, ', '.join('%d' % e for e in xs))


def emit(kernels):
    o = []
    o.append('/- GENERATED by translate/kernels2lean.py from pysph/base/kernels.py -- do not edit.')
    o.append('   One table per kernel class and admissible dimension: fac = facQ * pi^(piHalf/2);')
    o.append('   kernel      = fac * h^-hpowW  * w (q) * [exp(-q^2)]')
    o.append('   dwdq        = fac * h^-hpowDw * dw(q) * [exp(-q^2)]   (dw0 when rij <= rmin)')
    o.append('   gradient_h  = fac * h^-hpowGh * gh(q) * [exp(-q^2)]')
    o.append('   on the piece containing q = rij/h (coefficient lists, lowest degree first). -/')
    o.append('import PysphVerif.Model.Kernel')
    o.append('namespace PysphVerif.Gen.Kernels')
    o.append('open PysphVerif.Kernel')
    o.append('')
    names = []
    for k in kernels:
        nm = '%s_%d' % (k['name'], k['dim'])
        names.append(nm)
        o.append('def %s : KTable :=' % nm)
        o.append('  { name := "%s", dim := %d, radius := %s, facQ := %s, piHalf := %d,' % (
            k['name'], k['dim'], rat(k['radius']), rat(k['facq']), k['pihalf']))
        o.append('    gauss := %s, hpowW := %d, hpowDw := %d, hpowGh := %d, rmin := %s,' % (
            'true' if k['gauss'] else 'false', k['hpw'], k['hpd'], k['hpg'], rat(k['rmin'])))
        o.append('    pieces := [')
        ps = []
        for (a, b, incl, polys) in k['pieces']:
            cuts = cert_cuts(list(polys[1]), a, b) if a < b else None
            if cuts is None:
                cuts = [a, b]       # no certificate: the Lean check decides
            ps.append('    ' + emit_piece(a, b, incl, polys, cuts))
        o.append(',\n'.join(ps) + '],')
        o.append('    tail :=\n    ' + emit_piece(k['pieces'][-1][1], k['pieces'][-1][1], False,
                                             k['tail'], []) + ',')
        o.append('    grad := [%s],' % ', '.join(emit_comp(c) for c in k['grad']))
        o.append('    grad0 := [%s] }' % ', '.join(emit_comp(c) for c in k['grad0']))
        o.append('')
    o.append('def all : List KTable :=\n  [' + ', '.join(names) + ']')
    o.append('')
    o.append('end PysphVerif.Gen.Kernels')
    return '\n'.join(o) + '\n'


def translate(repo):
    src = open(os.path.join(repo, 'pysph', 'base', 'kernels.py')).read()
    tree = ast.parse(src)
    kernels = []
    classes = [n for n in tree.body if isinstance(n, ast.ClassDef)]
    if not classes:
        raise Unsupported('no kernel classes found')
    for cls in classes:
        ok = 0
        for dim in (1, 2, 3):
            try:
                kernels.append(analyse(cls, dim))
                ok += 1
            except DimRejected:
                continue
        if not ok:
            raise Unsupported('%s accepts no dimension' % cls.name)
    return kernels


def main():
    ap = argparse.ArgumentParser()
    ap.add_argument('--repo', required=True)
    ap.add_argument('--out', required=True)
    a = ap.parse_args()
    try:
        ks = translate(a.repo)
    except Unsupported as e:
        print('kernels2lean: UNSUPPORTED: %s' % e)
        sys.exit(3)
    txt = emit(ks)
    ch = vlib.write_if_changed(os.path.join(a.out, 'Kernels.lean'), txt)
    print('kernels2lean: %d kernel tables (%s), %s' % (
        len(ks), ', '.join('%s/%d' % (k['name'], k['dim']) for k in ks),
        'rewritten' if ch else 'unchanged'))


if __name__ == '__main__':
    main()
