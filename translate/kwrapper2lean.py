"""kwrapper2lean: pysph/base/c_kernels.pyx.mako  ->  lean/PysphVerif/Gen/KernelWrapper.lean

Transcribes the body of the `${classname}Wrapper` template class (one text for
all ten kernel classes; harness/c08.py checks every run that c_kernels.pyx IS
the rendering of this template) statement by statement into the `Code` of
Model/KernelWrapper.lean:

    cdef double[3] xij, grad                      per-object scratch members
    cdef double* p = self.<member>                pointer alias (resolved away)
    p[i] = a-b                                    Stmt.sep  member i arg(a) arg(b)
    cdef double rij = sqrt(p[0]*p[0] + p[1]*p[1] +p[2]*p[2])      Stmt.norm member
    self.kern.gradient(px, rij, h, pg)            Stmt.callGrad
    return self.kern.kernel(px, rij, h)           Ret.kern
    return p[i], p[j], p[k]                       Ret.copy member [i, j, k]   (new floats)
    return <double[:3]>p | np.asarray(<double[:3]>p) [| np.array(.., copy=False)]
                                                  Ret.view member  (object over the member's storage)

Anything else raises Unsupported -> non-zero exit (the check then reports a
broken tie); nothing is skipped.  Output via vlib.write_if_changed.
"""
import argparse
import os
import re
import sys

sys.path.insert(0, os.path.join(os.path.dirname(os.path.abspath(__file__)),
                                '..', 'lib'))
import vlib  # noqa: E402


class Unsupported(Exception):
    pass


ARGS = ['xi', 'yi', 'zi', 'xj', 'yj', 'zj']
BUFS = ('xij', 'grad')
ID = r'[A-Za-z_]\w*'


def class_block(src):
    lines = src.split('\n')
    start = [i for i, l in enumerate(lines) if re.match(r'cdef class \$\{classname\}Wrapper\s*:', l)]
    if len(start) != 1:
        raise Unsupported('expected exactly one `cdef class ${classname}Wrapper:` in the template')
    out = []
    for l in lines[start[0] + 1:]:
        if l.startswith('%') or (l.strip() and not l.startswith(' ')):
            break
        out.append(l)
    return out


def split_members(block):
    """(member declarations, {method name: (signature, body lines)})"""
    decls, methods, cur = [], {}, None
    in_doc = False
    for l in block:
        s = l.strip()
        if not s:
            continue
        ind = len(l) - len(l.lstrip())
        if in_doc:
            if s.endswith('"""'):
                in_doc = False
            continue
        if s.startswith('"""'):
            if not (s.endswith('"""') and len(s) >= 6):
                in_doc = True
            continue
        if s.startswith('#'):
            continue
        if ind == 4:
            m = re.match(r'(?:def|cpdef|cdef)\s+(?:[\w\*]+\s+)?(%s)\s*\((.*)\)\s*:\s*$' % ID, s)
            if m and not s.startswith('cdef public') and '(' in s:
                cur = m.group(1)
                if cur in methods:
                    raise Unsupported('method %s defined twice' % cur)
                methods[cur] = (m.group(2), [])
            else:
                cur = None
                decls.append(s)
        elif ind >= 8 and cur is not None:
            methods[cur][1].append(s)
        else:
            raise Unsupported('unexpected line in the wrapper class: %r' % l)
    return decls, methods


def check_decls(decls):
    """the scratch members must be per-object C arrays of three doubles"""
    found = set()
    for d in decls:
        m = re.match(r'cdef double\[3\]\s+(.+)$', d)
        if m:
            for nm in m.group(1).split(','):
                found.add(nm.strip())
            continue
        if re.match(r'cdef public (double|\$\{classname\}) \w+$', d):
            continue
        raise Unsupported('member declaration outside the subset: %r' % d)
    for b in BUFS:
        if b not in found:
            raise Unsupported('scratch member %r is not declared `cdef double[3]` in the wrapper' % b)
    return found


def check_sig(name, sig):
    want = ['self'] + ['double %s' % a for a in ARGS] + ['double h']
    got = [x.strip() for x in sig.split(',')]
    if got != want:
        raise Unsupported('%s%r: expected the arguments %r' % (name, got, want))


def method(name, sig, body, members):
    check_sig(name, sig)
    ptr = {}             # local pointer -> member
    rij = None
    stmts = []
    ret = None

    def buf(p):
        if p in ptr:
            return ptr[p]
        raise Unsupported('%s: %r is not a pointer to a scratch member' % (name, p))

    for s in body:
        if ret is not None:
            raise Unsupported('%s: statement after return: %r' % (name, s))
        m = re.match(r'cdef double\*\s*(%s) = self\.(%s)$' % (ID, ID), s)
        if m:
            if m.group(2) not in members or m.group(2) not in BUFS:
                raise Unsupported('%s: pointer to unknown member %r' % (name, m.group(2)))
            ptr[m.group(1)] = m.group(2)
            continue
        m = re.match(r'(%s)\[(\d+)\]\s*=\s*(%s)\s*-\s*(%s)$' % (ID, ID, ID), s)
        if m:
            i = int(m.group(2))
            if i > 2 or m.group(3) not in ARGS or m.group(4) not in ARGS:
                raise Unsupported('%s: store outside the subset: %r' % (name, s))
            stmts.append('.sep .%s %d %d %d' % (buf(m.group(1)), i, ARGS.index(m.group(3)),
                                               ARGS.index(m.group(4))))
            continue
        m = re.match(r'cdef double (%s) = sqrt\((%s)\[0\]\*(%s)\[0\] \+ (%s)\[1\]\*(%s)\[1\] \+\s*'
                     r'(%s)\[2\]\*(%s)\[2\]\)$' % ((ID,) * 7), s)
        if m:
            ps = set(m.groups()[1:])
            if len(ps) != 1 or rij is not None:
                raise Unsupported('%s: distance outside the subset: %r' % (name, s))
            rij = m.group(1)
            stmts.append('.norm .%s' % buf(m.group(2)))
            continue
        m = re.match(r'self\.kern\.gradient\((%s), (%s), (%s), (%s)\)$' % ((ID,) * 4), s)
        if m:
            if rij is None or m.group(2) != rij or m.group(3) != 'h':
                raise Unsupported('%s: kernel call outside the subset: %r' % (name, s))
            stmts.append('.callGrad .%s .%s' % (buf(m.group(1)), buf(m.group(4))))
            continue
        m = re.match(r'return self\.kern\.kernel\((%s), (%s), (%s)\)$' % ((ID,) * 3), s)
        if m:
            if rij is None or m.group(2) != rij or m.group(3) != 'h':
                raise Unsupported('%s: kernel call outside the subset: %r' % (name, s))
            ret = '.kern .%s' % buf(m.group(1))
            continue
        m = re.match(r'return (%s)\[(\d+)\]((?:\s*,\s*%s\[\d+\])*)$' % (ID, ID), s)
        if m:
            elems = re.findall(r'(%s)\[(\d+)\]' % ID, s[len('return'):])
            if len(set(p for p, _ in elems)) != 1 or any(int(i) > 2 for _, i in elems):
                raise Unsupported('%s: return outside the subset: %r' % (name, s))
            ret = '.copy .%s [%s]' % (buf(elems[0][0]), ', '.join(i for _, i in elems))
            continue
        m = (re.match(r'return <double\[:3\]>\s*(%s)$' % ID, s) or
             re.match(r'return np\.asarray\(<double\[:3\]>\s*(%s)\)$' % ID, s) or
             re.match(r'return np\.array\(<double\[:3\]>\s*(%s), copy=False\)$' % ID, s))
        if m:
            ret = '.view .%s' % buf(m.group(1))
            continue
        raise Unsupported('%s: statement outside the subset: %r' % (name, s))
    if ret is None:
        raise Unsupported('%s: no return statement' % name)
    return stmts, ret


def translate(repo):
    path = os.path.join(repo, 'pysph', 'base', 'c_kernels.pyx.mako')
    src = open(path).read()
    decls, methods = split_members(class_block(src))
    members = check_decls(decls)
    extra = set(methods) - {'__init__', 'kernel', 'gradient'}
    if extra or 'kernel' not in methods or 'gradient' not in methods:
        raise Unsupported('wrapper methods %r (expected __init__, kernel, gradient)' % sorted(methods))
    init = methods.get('__init__', ('', []))[1]
    for s in init:
        if not re.match(r'self\.(kern|radius_scale|fac) = kern(\.\w+)?$', s):
            raise Unsupported('__init__: statement outside the subset: %r' % s)
    return {n: method(n, *methods[n], members) for n in ('kernel', 'gradient')}


def emit(code):
    o = ['/- GENERATED by translate/kwrapper2lean.py from pysph/base/c_kernels.pyx.mako',
         '   (class ${classname}Wrapper) -- do not edit. -/',
         'import PysphVerif.Model.KernelWrapper',
         'namespace PysphVerif.Gen.KernelWrapper',
         'open PysphVerif.KernelWrapper',
         '',
         'def code : Code :=']
    parts = []
    for n in ('kernel', 'gradient'):
        stmts, ret = code[n]
        parts.append('    %s := ⟨[%s],\n      %s⟩' % (n, ', '.join(stmts), ret))
    o.append('  { ' + ',\n'.join(parts).lstrip() + ' }')
    o += ['', 'end PysphVerif.Gen.KernelWrapper']
    return '\n'.join(o) + '\n'


def main():
    ap = argparse.ArgumentParser()
    ap.add_argument('--repo', required=True)
    ap.add_argument('--out', required=True)
    a = ap.parse_args()
    try:
        code = translate(a.repo)
    except Unsupported as e:
        print('kwrapper2lean: UNSUPPORTED: %s' % e)
        sys.exit(3)
    ch = vlib.write_if_changed(os.path.join(a.out, 'KernelWrapper.lean'), emit(code))
    print('kwrapper2lean: kernel %d statements, gradient %d statements, gradient returns `%s`, %s' % (
        len(code['kernel'][0]), len(code['gradient'][0]), code['gradient'][1],
        'rewritten' if ch else 'unchanged'))


if __name__ == '__main__':
    main()
