"""riemann2lean — regenerate lean/PysphVerif/Gen/Riemann.lean from
pysph/sph/gas_dynamics/riemann_solver.py  (property C15).

    python translate/riemann2lean.py --repo <repo> --out lean/PysphVerif/Gen

Every function named in the module's `HELPERS` list is translated, statement
by statement, into a Lean 4 definition polymorphic in the number type (see
Model/RiemannPrelude.lean).  Subset handled (anything else raises and the
translator exits non-zero — nothing is skipped):

  * parameters with int / float / list-of-float defaults; the list parameter
    (`result`) becomes scalars `result_0, result_1` and every function that has
    one returns `Res` (code, result_0, result_1); falling off the end is
    Python's `None`, code -1;
  * `x = e`, `x op= e`, `a, b = declare('double'|'int', n)` (0.0 / 0, which is
    what compyle's `declare` returns under CPython), `x = declare('int')`,
    `a, b = declare('matrix(k)', n)` (k zeros each), `name[k] = e`;
  * `if / elif / else` — without `return`/`break` inside: one `let v := if …`
    per variable that is live afterwards; with a jump inside: the rest of the
    block is copied into both branches;
  * `while cnt < niter: … cnt += 1` and `for i in range(niter):` with `break`
    → structural recursion on fuel `niter.toNat` over a generated state record
    (one iteration per unit of fuel: the counter starts at the literal 0 and is
    incremented exactly once at the end of every non-breaking pass);
  * `return <int literal>`, `return f(..., result)`, `return <float expr>`;
  * calls `sqrt abs max min`, `**`, translated helpers; `printf(...)` and
    docstrings have no effect on the result and are dropped (listed in the
    header of the generated file);
  * assignments whose target is never read afterwards (liveness analysis; all
    right-hand sides are pure) are not emitted;
  * float arithmetic in source order (parenthesised exactly as the AST), float
    literals as the exact dyadic rational of the double, int literals promoted
    where Python promotes them.

Type discipline: a variable is float, int or bool for the whole function;
mixing an int *variable* into float arithmetic is rejected.
"""
import argparse
import ast
import os
import sys

sys.path.insert(0, os.path.join(os.path.dirname(os.path.abspath(__file__)),
                                '..', 'lib'))
import vlib  # noqa: E402

SRC = os.path.join('pysph', 'sph', 'gas_dynamics', 'riemann_solver.py')
NOOP_CALLS = ('printf',)
LEAN_KEYWORDS = set('''at in end from show have fun let do then else if match with where
def theorem lemma structure class instance open namespace section variable by calc
this to for mut return break continue import'''.split())


class TErr(Exception):
    pass


def err(node, msg):
    raise TErr('line %s: %s' % (getattr(node, 'lineno', '?'), msg))


def lname(n):
    return '«%s»' % n if n in LEAN_KEYWORDS else n


def natlit(n):
    return '((%d : Nat) : α)' % n


def float_lit(x):
    """exact value of the double as Lean term over NatCast + Div + Neg"""
    if x != x or x in (float('inf'), float('-inf')):
        raise TErr('non-finite literal')
    neg = x < 0 or (x == 0 and str(x).startswith('-'))
    num, den = abs(x).as_integer_ratio()
    if num >= 2 ** 53 and num & (num - 1):
        raise TErr('literal %r not exactly representable via Nat casts' % x)
    s = natlit(num) if den == 1 else '(%s / %s)' % (natlit(num), natlit(den))
    return '(-%s)' % s if neg else s


class Func:
    def __init__(self, node):
        self.node = node
        self.name = node.name
        a = node.args
        if a.vararg or a.kwarg or a.kwonlyargs or a.posonlyargs:
            err(node, 'unsupported parameter kind')
        if len(a.defaults) != len(a.args):
            err(node, 'every parameter needs a default (type source)')
        self.params = []      # (name, 'f'|'i'|('arr', n))
        for p, d in zip(a.args, a.defaults):
            if isinstance(d, ast.Constant) and isinstance(d.value, bool):
                err(d, 'bool default')
            if isinstance(d, ast.Constant) and isinstance(d.value, int):
                self.params.append((p.arg, 'i'))
            elif isinstance(d, ast.Constant) and isinstance(d.value, float):
                self.params.append((p.arg, 'f'))
            elif isinstance(d, ast.List) and all(
                    isinstance(e, ast.Constant) and isinstance(e.value, float)
                    for e in d.elts):
                self.params.append((p.arg, ('arr', len(d.elts))))
            else:
                err(d, 'unsupported default for %s' % p.arg)
        arrs = [p for p in self.params if isinstance(p[1], tuple)]
        if len(arrs) > 1 or (arrs and self.params[-1] != arrs[0]):
            err(node, 'at most one list parameter, in last position')
        self.res = arrs[0] if arrs else None     # ('result', ('arr', 2))
        if self.res and self.res[1][1] != 2:
            err(node, 'result list must have length 2')
        body = list(node.body)
        if body and isinstance(body[0], ast.Expr) and isinstance(
                body[0].value, ast.Constant) and isinstance(body[0].value.value, str):
            body = body[1:]
        self.body = body

    def scalar_params(self):
        out = []
        for n, t in self.params:
            if isinstance(t, tuple):
                out += [('%s_%d' % (n, k), 'f') for k in range(t[1])]
            else:
                out.append((n, t))
        return out

    def sig(self):
        return tuple(t if not isinstance(t, tuple) else 'arr%d' % t[1]
                     for _, t in self.params)


class Tr:
    """translator for one function"""

    def __init__(self, fn, funcs):
        self.fn = fn
        self.funcs = funcs
        self.aux = []          # generated structures / loop defs (text)
        self.nloop = 0
        self.arrays = {}
        if fn.res:
            self.arrays[fn.res[0]] = fn.res[1][1]
        self.vt = {}
        for n, t in fn.scalar_params():
            self.vt[n] = t
        self.infer_types()

    # ---------------------------------------------------------------- types
    def is_declare(self, e):
        return (isinstance(e, ast.Call) and isinstance(e.func, ast.Name)
                and e.func.id == 'declare')

    def declare_info(self, e, ntargets):
        if e.keywords or not e.args or not isinstance(e.args[0], ast.Constant):
            err(e, 'unsupported declare')
        kind = e.args[0].value
        n = 1
        if len(e.args) == 2:
            if not (isinstance(e.args[1], ast.Constant) and isinstance(e.args[1].value, int)):
                err(e, 'unsupported declare count')
            n = e.args[1].value
        elif len(e.args) > 2:
            err(e, 'unsupported declare')
        if n != ntargets:
            err(e, 'declare count %d does not match %d targets' % (n, ntargets))
        if kind == 'double':
            return 'f'
        if kind == 'int':
            return 'i'
        if isinstance(kind, str) and kind.startswith('matrix(') and kind.endswith(')'):
            return ('arr', int(kind[7:-1]))
        err(e, 'unsupported declare type %r' % kind)

    def etype(self, e):
        if isinstance(e, ast.Constant):
            if isinstance(e.value, bool):
                return 'b'
            if isinstance(e.value, int):
                return 'lit'
            if isinstance(e.value, float):
                return 'f'
            err(e, 'unsupported constant %r' % (e.value,))
        if isinstance(e, ast.Name):
            return self.vt.get(e.id)
        if isinstance(e, ast.Subscript):
            return 'f'
        if isinstance(e, ast.UnaryOp):
            if isinstance(e.op, ast.Not):
                return 'b'
            return self.etype(e.operand)
        if isinstance(e, ast.BinOp):
            if isinstance(e.op, (ast.Div, ast.Pow)):
                return 'f'
            a, b = self.etype(e.left), self.etype(e.right)
            if a is None or b is None:
                return None
            if 'f' in (a, b):
                return 'f'
            if a == 'lit' and b == 'lit':
                return 'lit'
            return 'i'
        if isinstance(e, (ast.Compare, ast.BoolOp)):
            return 'b'
        if isinstance(e, ast.Call):
            return 'f'
        err(e, 'unsupported expression %s' % type(e).__name__)

    def infer_types(self):
        seen = {}

        def note(name, t):
            seen.setdefault(name, set()).add(t)

        def walk(stmts):
            for s in stmts:
                if isinstance(s, ast.Assign):
                    if len(s.targets) != 1:
                        err(s, 'chained assignment')
                    t = s.targets[0]
                    if isinstance(t, ast.Tuple):
                        if not self.is_declare(s.value):
                            err(s, 'tuple assignment only from declare')
                        k = self.declare_info(s.value, len(t.elts))
                        for el in t.elts:
                            if not isinstance(el, ast.Name):
                                err(s, 'bad declare target')
                            if isinstance(k, tuple):
                                self.arrays[el.id] = k[1]
                                for j in range(k[1]):
                                    note('%s_%d' % (el.id, j), 'f')
                            else:
                                note(el.id, 'decl' + k)
                    elif isinstance(t, ast.Name):
                        if self.is_declare(s.value):
                            k = self.declare_info(s.value, 1)
                            if isinstance(k, tuple):
                                err(s, 'single matrix declare unsupported')
                            note(t.id, 'decl' + k)
                        else:
                            note(t.id, self.etype(s.value))
                    elif isinstance(t, ast.Subscript):
                        pass
                    else:
                        err(s, 'unsupported assignment target')
                elif isinstance(s, ast.AugAssign):
                    if not isinstance(s.target, ast.Name):
                        err(s, 'unsupported augmented target')
                    note(s.target.id, self.etype(
                        ast.BinOp(left=s.target, op=s.op, right=s.value)))
                elif isinstance(s, ast.If):
                    walk(s.body)
                    walk(s.orelse)
                elif isinstance(s, ast.While):
                    if s.orelse:
                        err(s, 'while-else')
                    walk(s.body)
                elif isinstance(s, ast.For):
                    if s.orelse or not isinstance(s.target, ast.Name):
                        err(s, 'unsupported for')
                    note(s.target.id, 'i')
                    walk(s.body)
        for _ in range(6):
            seen.clear()
            walk(self.fn.body)
            changed = False
            for n, ts in seen.items():
                ts = set(ts) - {None}
                if n in dict(self.fn.scalar_params()):
                    err(self.fn.node, 'assignment to parameter %s' % n)
                if 'b' in ts:
                    if ts - {'b', 'decli', 'lit'}:
                        err(self.fn.node, 'variable %s mixes bool with %s' % (n, ts))
                    t = 'b'
                elif 'f' in ts or 'declf' in ts:
                    if ts - {'f', 'declf', 'lit'}:
                        err(self.fn.node, 'variable %s mixes float with %s' % (n, ts))
                    t = 'f'
                elif ts and ts <= {'i', 'decli', 'lit'}:
                    t = 'i'
                elif not ts:
                    continue
                else:
                    err(self.fn.node, 'cannot type variable %s: %s' % (n, ts))
                if self.vt.get(n) != t:
                    self.vt[n] = t
                    changed = True
            if not changed:
                break
        else:
            err(self.fn.node, 'type inference did not settle')

    def lty(self, t):
        return {'f': 'α', 'i': 'Int', 'b': 'Bool'}[t]

    # ---------------------------------------------------------- expressions
    def elem(self, e):
        if not (isinstance(e.value, ast.Name) and e.value.id in self.arrays
                and isinstance(e.slice, ast.Constant)
                and isinstance(e.slice.value, int)
                and 0 <= e.slice.value < self.arrays[e.value.id]):
            err(e, 'unsupported subscript')
        return '%s_%d' % (e.value.id, e.slice.value)

    def ex(self, e, want):
        """Lean term of type `want` ('f' | 'i'); bools go through cond()"""
        if isinstance(e, ast.Constant):
            v = e.value
            if isinstance(v, bool):
                err(e, 'bool constant in arithmetic')
            if isinstance(v, int):
                if want == 'f':
                    return float_lit(float(v)) if abs(v) < 2 ** 53 else err(e, 'big int')
                return '(%d : Int)' % v
            if isinstance(v, float):
                if want != 'f':
                    err(e, 'float literal in int context')
                return float_lit(v)
            err(e, 'constant')
        if isinstance(e, ast.Name):
            t = self.vt.get(e.id)
            if t is None:
                err(e, 'unknown name %s' % e.id)
            if t != want:
                err(e, 'variable %s : %s used as %s' % (e.id, t, want))
            return lname(e.id)
        if isinstance(e, ast.Subscript):
            if want != 'f':
                err(e, 'array element in int context')
            return self.elem(e)
        if isinstance(e, ast.UnaryOp):
            if isinstance(e.op, ast.USub):
                return '(-%s)' % self.ex(e.operand, want)
            if isinstance(e.op, ast.UAdd):
                return self.ex(e.operand, want)
            err(e, 'unsupported unary operator')
        if isinstance(e, ast.BinOp):
            t = self.etype(e)
            if t == 'lit':
                t = want
            if t != want:
                err(e, 'expression of type %s used as %s' % (t, want))
            if isinstance(e.op, ast.Pow):
                return '(o.pow %s %s)' % (self.ex(e.left, 'f'), self.ex(e.right, 'f'))
            ops = {ast.Add: '+', ast.Sub: '-', ast.Mult: '*', ast.Div: '/'}
            if type(e.op) not in ops:
                err(e, 'unsupported operator %s' % type(e.op).__name__)
            if isinstance(e.op, ast.Div) and want != 'f':
                err(e, 'true division in int context')
            return '(%s %s %s)' % (self.ex(e.left, want), ops[type(e.op)],
                                   self.ex(e.right, want))
        if isinstance(e, ast.Call):
            if want != 'f':
                err(e, 'call in int context')
            if not isinstance(e.func, ast.Name) or e.keywords:
                err(e, 'unsupported call')
            f = e.func.id
            args = [self.ex(a, 'f') for a in e.args]
            if f == 'sqrt' and len(args) == 1:
                return '(o.sqrt %s)' % args[0]
            if f == 'abs' and len(args) == 1:
                return '(o.abs %s)' % args[0]
            if f == 'max' and len(args) == 2:
                return '(pymax %s %s)' % tuple(args)
            if f == 'min' and len(args) == 2:
                return '(pymin %s %s)' % tuple(args)
            if f in self.funcs and self.funcs[f].res is None:
                g = self.funcs[f]
                if len(args) != len(g.params) or any(t != 'f' for _, t in g.params):
                    err(e, 'bad call of %s' % f)
                return '(%s o %s)' % (f, ' '.join(args))
            err(e, 'unsupported call of %s' % f)
        err(e, 'unsupported expression %s' % type(e).__name__)

    def cond(self, e):
        """Lean Prop (decidable)"""
        if isinstance(e, ast.BoolOp):
            op = ' ∧ ' if isinstance(e.op, ast.And) else ' ∨ '
            return '(' + op.join(self.cond(v) for v in e.values) + ')'
        if isinstance(e, ast.Compare):
            if len(e.ops) != 1:
                err(e, 'chained comparison')
            a, b = e.left, e.comparators[0]
            ta, tb = self.etype(a), self.etype(b)
            if None in (ta, tb) or 'b' in (ta, tb):
                err(e, 'cannot type comparison')
            t = 'f' if 'f' in (ta, tb) else 'i'
            if t == 'f' and 'i' in (ta, tb):
                err(e, 'int variable compared with float')
            x, y = self.ex(a, t), self.ex(b, t)
            op = type(e.ops[0])
            if op is ast.Lt:
                return '(%s < %s)' % (x, y)
            if op is ast.LtE:
                return '(%s ≤ %s)' % (x, y)
            if op is ast.Gt:
                return '(%s < %s)' % (y, x)
            if op is ast.GtE:
                return '(%s ≤ %s)' % (y, x)
            if op is ast.Eq and t == 'i':
                return '(%s = %s)' % (x, y)
            err(e, 'unsupported comparison')
        if isinstance(e, ast.Name) and self.vt.get(e.id) == 'b':
            return '(%s = true)' % lname(e.id)
        if isinstance(e, ast.UnaryOp) and isinstance(e.op, ast.Not):
            return '(¬ %s)' % self.cond(e.operand)
        err(e, 'unsupported condition')

    # ------------------------------------------------------------- liveness
    def uses(self, e):
        out = set()
        for n in ast.walk(e):
            if isinstance(n, ast.Subscript):
                out.add(self.elem(n))
        for n in ast.walk(e):
            if isinstance(n, ast.Name):
                if n.id in self.arrays:
                    out.update('%s_%d' % (n.id, k) for k in range(self.arrays[n.id]))
                elif n.id in self.vt:
                    out.add(n.id)
        return out

    def res_elems(self):
        r = self.fn.res
        return {'%s_%d' % (r[0], k) for k in range(r[1][1])} if r else set()

    def proc_call(self, s):
        """statement `f(args..., arr)` for a translated f with a result list"""
        if (isinstance(s, ast.Expr) and isinstance(s.value, ast.Call)
                and isinstance(s.value.func, ast.Name)
                and s.value.func.id in self.funcs
                and self.funcs[s.value.func.id].res is not None):
            c = s.value
            g = self.funcs[c.func.id]
            if c.keywords or len(c.args) != len(g.params):
                err(s, 'bad call of %s' % g.name)
            last = c.args[-1]
            if not (isinstance(last, ast.Name) and self.arrays.get(last.id) == 2):
                err(s, 'result argument must be a 2-list variable')
            return g, c.args[:-1], last.id
        return None

    def is_noop(self, s):
        if isinstance(s, ast.Pass):
            return True
        if isinstance(s, ast.Expr):
            v = s.value
            if isinstance(v, ast.Constant) and isinstance(v.value, str):
                return True
            if (isinstance(v, ast.Call) and isinstance(v.func, ast.Name)
                    and v.func.id in NOOP_CALLS):
                return True
        return False

    def defs_uses(self, s):
        """(defs, uses) of a simple statement, or None"""
        if isinstance(s, ast.Assign):
            t = s.targets[0]
            if isinstance(t, ast.Tuple):
                d = set()
                for el in t.elts:
                    if el.id in self.arrays:
                        d.update('%s_%d' % (el.id, k) for k in range(self.arrays[el.id]))
                    else:
                        d.add(el.id)
                return d, set()
            if isinstance(t, ast.Subscript):
                return {self.elem(t)}, self.uses(s.value)
            if self.is_declare(s.value):
                return {t.id}, set()
            return {t.id}, self.uses(s.value)
        if isinstance(s, ast.AugAssign):
            return {s.target.id}, self.uses(s.value) | {s.target.id}
        pc = self.proc_call(s)
        if pc:
            g, args, arr = pc
            els = {'%s_%d' % (arr, k) for k in range(2)}
            u = set(els)
            for a in args:
                u |= self.uses(a)
            return els, u
        if self.is_noop(s):
            return set(), set()
        return None

    def live_in(self, stmts, live_out, brk=None):
        live = set(live_out)
        for s in reversed(stmts):
            du = self.defs_uses(s)
            if du is not None:
                live = (live - du[0]) | du[1]
            elif isinstance(s, ast.If):
                live = (self.uses(s.test) | self.live_in(s.body, live, brk)
                        | self.live_in(s.orelse, live, brk))
            elif isinstance(s, ast.Return):
                live = set(self.res_elems())
                if s.value is not None:
                    live |= self.uses(s.value)
            elif isinstance(s, ast.Break):
                if brk is None:
                    err(s, 'break outside loop')
                live = set(brk)
            elif isinstance(s, (ast.While, ast.For)):
                cond, body, cnt, pre = self.loop_parts(s)[:4]
                head = set(live) | self.uses(cond)
                while True:
                    new = head | self.live_in(body, head, brk=live)
                    if new == head:
                        break
                    head = new
                live = head - ({cnt} if pre else set())
            else:
                err(s, 'unsupported statement %s' % type(s).__name__)
        return live

    def assigned(self, stmts):
        out = set()
        for s in stmts:
            du = self.defs_uses(s)
            if du is not None:
                out |= du[0]
            elif isinstance(s, ast.If):
                out |= self.assigned(s.body) | self.assigned(s.orelse)
            elif isinstance(s, (ast.While, ast.For)):
                out |= self.assigned(self.loop_parts(s)[1])
        return out

    def has_jump(self, stmts):
        for s in stmts:
            for n in ast.walk(s):
                if isinstance(n, (ast.Return, ast.Break, ast.Continue)):
                    return True
        return False

    # ---------------------------------------------------------------- loops
    def loop_parts(self, s):
        """(cond, body, counter, pre) with `for` desugared to `while`"""
        if getattr(s, '_parts', None):
            return s._parts
        for n in ast.walk(s):
            if n is not s and isinstance(n, (ast.While, ast.For)):
                err(n, 'nested loop')
            if isinstance(n, (ast.Continue, ast.Return)):
                err(n, '%s inside a loop' % type(n).__name__.lower())
        if isinstance(s, ast.For):
            it = s.iter
            if not (isinstance(it, ast.Call) and isinstance(it.func, ast.Name)
                    and it.func.id == 'range' and len(it.args) == 1
                    and isinstance(it.args[0], ast.Name) and not it.keywords):
                err(s, 'only `for v in range(<int parameter>)`')
            bound = it.args[0].id
            cnt = '%s__k' % s.target.id
            self.vt[cnt] = 'i'
            cname = ast.Name(id=cnt, ctx=ast.Load())
            cond = ast.Compare(left=cname, ops=[ast.Lt()],
                               comparators=[ast.Name(id=bound, ctx=ast.Load())])
            body = [ast.Assign(targets=[ast.Name(id=s.target.id, ctx=ast.Store())],
                               value=cname, lineno=s.lineno)] + list(s.body) + [
                ast.AugAssign(target=ast.Name(id=cnt, ctx=ast.Store()), op=ast.Add(),
                              value=ast.Constant(value=1), lineno=s.lineno)]
            pre = [ast.Assign(targets=[ast.Name(id=cnt, ctx=ast.Store())],
                              value=ast.Constant(value=0), lineno=s.lineno)]
            # a `break` skips the hidden increment, which nothing reads afterwards
        else:
            cond, body, pre = s.test, list(s.body), []
            if not (isinstance(cond, ast.Compare) and len(cond.ops) == 1
                    and isinstance(cond.ops[0], ast.Lt)
                    and isinstance(cond.left, ast.Name)
                    and isinstance(cond.comparators[0], ast.Name)):
                err(s, 'only `while <counter> < <int parameter>`')
            cnt = cond.left.id
            bound = cond.comparators[0].id
        if dict(self.fn.params).get(bound) != 'i':
            err(s, 'loop bound must be an int parameter')
        # the counter is incremented exactly once, by the last statement
        last = body[-1]
        if not (isinstance(last, ast.AugAssign) and isinstance(last.op, ast.Add)
                and isinstance(last.target, ast.Name) and last.target.id == cnt
                and isinstance(last.value, ast.Constant) and last.value.value == 1):
            err(s, 'loop counter must be incremented by the last statement')
        for st in body[:-1]:
            for n in ast.walk(st):
                if isinstance(n, ast.Name) and n.id == cnt and isinstance(n.ctx, ast.Store):
                    err(s, 'loop counter assigned inside the body')
        s._parts = (cond, body, cnt, pre, bound)
        return s._parts

    def check_counter_zero(self, before, cnt, s):
        """the last top-level assignment to cnt before the loop is `cnt = 0`"""
        for st in reversed(before):
            if isinstance(st, ast.Assign) and isinstance(st.targets[0], ast.Name) \
                    and st.targets[0].id == cnt:
                if isinstance(st.value, ast.Constant) and st.value.value == 0 \
                        and not isinstance(st.value.value, bool):
                    return
                break
            if cnt in self.assigned([st]):
                break
        err(s, 'loop counter %s is not set to 0 immediately before the loop' % cnt)

    def tr_loop(self, s, before, rest, ind, k):
        cond, body, cnt, pre, bound = self.loop_parts(s)
        if not pre:
            self.check_counter_zero(before, cnt, s)
        live_after = self.live_in(rest, k.live, k.brk)
        head = set(live_after) | self.uses(cond)
        while True:
            new = head | self.live_in(body, head, brk=live_after)
            if new == head:
                break
            head = new
        asg = self.assigned(body)
        state = sorted(asg & (head | live_after))
        if cnt not in state:
            state.append(cnt)
        free = sorted((self.uses(cond) | self.live_in(body, set(state), brk=set(state)))
                      - set(state))
        self.nloop += 1
        base = '%s_loop%d' % (self.fn.name, self.nloop) if self.nloop > 1 \
            else '%s_loop' % self.fn.name
        st_name = base + 'St'
        fields = ''.join('  %s : %s\n' % (lname(v), self.lty(self.vt[v])) for v in state)
        mk = '(%s.mk %s)' % (st_name, ' '.join(lname(v) for v in state))
        fparams = ''.join(' (%s : %s)' % (lname(v), self.lty(self.vt[v])) for v in free)
        fargs = ''.join(' ' + lname(v) for v in free)
        unpack = ['  let %s := s.%s' % (lname(v), lname(v)) for v in state]

        class K:
            live = set(state)
            brk = set(state)

            def __call__(self_, ind2):
                return [' ' * ind2 + '(false, %s)' % mk]
        kk = K()
        self.brk_expr = '(true, %s)' % mk
        blines = self.tr(body, 2, kk, in_loop=True)
        txt = '/-- state carried by the loop of `%s` (source line %d) -/\n' % (
            self.fn.name, s.lineno)
        txt += 'structure %s (α : Type) where\n%s\n' % (st_name, fields)
        txt += '/-- one pass of the loop body: (left by `break`?, new state) -/\n'
        txt += 'def %s_body (o : Ops α)%s (s : %s α) : Bool × %s α :=\n' % (
            base, fparams, st_name, st_name)
        txt += '\n'.join(unpack + blines) + '\n\n'
        txt += '/-- loop condition `%s` -/\n' % ast.unparse(cond)
        txt += 'def %s_cond%s (s : %s α) : Prop :=\n' % (
            base, ''.join(' (%s : %s)' % (lname(v), self.lty(self.vt[v]))
                          for v in free if v in self.uses(cond)), st_name)
        cargs = ''.join(' ' + lname(v) for v in free if v in self.uses(cond))
        txt += '\n'.join('  let %s := s.%s' % (lname(v), lname(v))
                         for v in state if v in self.uses(cond)) + '\n'
        txt += '  %s\n\n' % self.cond(cond)
        txt += 'instance %s_cond_dec%s (s : %s α) : Decidable (%s_cond%s s) := by\n' % (
            base, ''.join(' (%s : %s)' % (lname(v), self.lty(self.vt[v]))
                          for v in free if v in self.uses(cond)), st_name, base, cargs)
        txt += '  unfold %s_cond; infer_instance\n\n' % base
        txt += '/-- the loop, by recursion on fuel (`%s.toNat` passes suffice) -/\n' % bound
        txt += 'def %s (o : Ops α)%s : Nat → %s α → %s α\n' % (base, fparams, st_name, st_name)
        txt += '  | 0, s => s\n'
        txt += '  | fuel + 1, s =>\n'
        txt += '    if %s_cond%s s then\n' % (base, cargs)
        txt += '      let r := %s_body o%s s\n' % (base, fargs)
        txt += '      if r.1 = true then r.2 else %s o%s fuel r.2\n' % (base, fargs)
        txt += '    else s\n'
        self.aux.append(txt)
        pad = ' ' * ind
        lines = []
        for st in pre:
            lines += self.tr_simple(st, ind)
        lines.append(pad + 'let s__ := %s o%s %s.toNat %s' % (base, fargs, bound, mk))
        for v in state:
            lines.append(pad + 'let %s := s__.%s' % (lname(v), lname(v)))
        return lines

    # ----------------------------------------------------------- statements
    def tr_simple(self, s, ind):
        pad = ' ' * ind
        if isinstance(s, ast.Assign):
            t = s.targets[0]
            if isinstance(t, ast.Tuple) or self.is_declare(s.value):
                names = [el.id for el in t.elts] if isinstance(t, ast.Tuple) else [t.id]
                out = []
                for n in names:
                    if n in self.arrays:
                        out += [pad + 'let %s_%d : α := %s' % (n, k, float_lit(0.0))
                                for k in range(self.arrays[n])]
                    else:
                        ty = self.vt[n]
                        z = {'f': float_lit(0.0), 'i': '(0 : Int)', 'b': 'false'}[ty]
                        out.append(pad + 'let %s : %s := %s' % (lname(n), self.lty(ty), z))
                return out
            if isinstance(t, ast.Subscript):
                return [pad + 'let %s : α := %s' % (self.elem(t), self.ex(s.value, 'f'))]
            ty = self.vt[t.id]
            if ty == 'b':
                if isinstance(s.value, ast.Constant) and s.value.value in (0, 1, True, False):
                    v = 'true' if s.value.value else 'false'
                else:
                    v = 'decide %s' % self.cond(s.value)
                return [pad + 'let %s : Bool := %s' % (lname(t.id), v)]
            return [pad + 'let %s : %s := %s' % (lname(t.id), self.lty(ty),
                                                 self.ex(s.value, ty))]
        if isinstance(s, ast.AugAssign):
            ty = self.vt[s.target.id]
            e = ast.BinOp(left=ast.Name(id=s.target.id, ctx=ast.Load()), op=s.op,
                          right=s.value)
            return [pad + 'let %s : %s := %s' % (lname(s.target.id), self.lty(ty),
                                                 self.ex(e, ty))]
        pc = self.proc_call(s)
        if pc:
            g, args, arr = pc
            a = []
            for (pn, pt), e in zip(g.params[:-1], args):
                a.append(self.ex(e, pt))
            return [pad + 'let r__ := %s o %s %s_0 %s_1' % (g.name, ' '.join(a), arr, arr),
                    pad + 'let %s_0 : α := r__.r0' % arr,
                    pad + 'let %s_1 : α := r__.r1' % arr]
        if self.is_noop(s):
            return []
        err(s, 'unsupported statement %s' % type(s).__name__)

    def tr_return(self, s, ind):
        pad = ' ' * ind
        v = s.value
        if self.fn.res is None:
            if v is None:
                err(s, 'bare return in a float function')
            return [pad + self.ex(v, 'f')]
        r0, r1 = ['%s_%d' % (self.fn.res[0], k) for k in range(2)]
        if v is None or (isinstance(v, ast.Constant) and v.value is None):
            return [pad + '(Res.mk codeNone %s %s)' % (r0, r1)]
        if isinstance(v, ast.Constant) and isinstance(v.value, int) \
                and not isinstance(v.value, bool):
            return [pad + '(Res.mk (%d : Int) %s %s)' % (v.value, r0, r1)]
        if isinstance(v, ast.Call) and isinstance(v.func, ast.Name) \
                and v.func.id in self.funcs and self.funcs[v.func.id].res:
            g = self.funcs[v.func.id]
            if v.keywords or len(v.args) != len(g.params):
                err(s, 'bad call of %s' % g.name)
            last = v.args[-1]
            if not (isinstance(last, ast.Name) and last.id == self.fn.res[0]):
                err(s, 'tail call must pass the result list on')
            a = [self.ex(e, pt) for (pn, pt), e in zip(g.params[:-1], v.args[:-1])]
            return [pad + '(%s o %s %s %s)' % (g.name, ' '.join(a), r0, r1)]
        err(s, 'unsupported return value')

    def tr(self, stmts, ind, k, in_loop=False, before=()):
        """lines of a Lean term executing stmts and then k"""
        before = list(before)
        lines = []
        pad = ' ' * ind
        for j, s in enumerate(stmts):
            rest = stmts[j + 1:]
            if isinstance(s, ast.Return):
                if in_loop:
                    err(s, 'return inside loop')
                return lines + self.tr_return(s, ind)
            if isinstance(s, ast.Break):
                if not in_loop:
                    err(s, 'break outside loop')
                return lines + [pad + self.brk_expr]
            if isinstance(s, ast.If):
                c = self.cond(s.test)
                if self.has_jump([s]):
                    a = self.tr(list(s.body) + rest, ind + 2, k, in_loop, before)
                    b = self.tr(list(s.orelse) + rest, ind + 2, k, in_loop, before)
                    return lines + [pad + 'if %s then' % c] + a + [pad + 'else'] + b
                live = sorted(self.assigned([s]) & self.live_in(rest, k.live, k.brk))
                for v in live:
                    kv = _KVar(v)
                    a = self.tr(list(s.body), ind + 4, kv, in_loop)
                    b = self.tr(list(s.orelse), ind + 4, kv, in_loop)
                    lines += [pad + 'let %s__j : %s :=' % (v, self.lty(self.vt[v])),
                              pad + '  if %s then' % c] + a + [pad + '  else'] + b
                for v in live:
                    lines.append(pad + 'let %s := %s__j' % (lname(v), v))
                before.append(s)
                continue
            if isinstance(s, (ast.While, ast.For)):
                if in_loop:
                    err(s, 'nested loop')
                lines += self.tr_loop(s, before, rest, ind, k)
                before.append(s)
                continue
            du = self.defs_uses(s)
            if du is not None and du[0] and not (
                    du[0] & self.live_in(rest, k.live, k.brk)):
                # pure assignment whose targets are never read again (e.g. the
                # zero initialisation by `declare`): no effect on any result
                before.append(s)
                continue
            lines += self.tr_simple(s, ind)
            before.append(s)
        return lines + k(ind)

    def translate(self):
        fn = self
        f = self.fn

        class KEnd:
            live = set(self.res_elems())
            brk = None

            def __call__(self_, ind):
                if f.res is None:
                    raise TErr('%s: a float function may fall off its end' % f.name)
                return [' ' * ind + '(Res.mk codeNone %s_0 %s_1)' % (f.res[0], f.res[0])]
        k = KEnd()
        entry = self.live_in(f.body, k.live)
        undefined = entry - {n for n, _ in f.scalar_params()}
        if undefined:
            raise TErr('%s: possibly read before assignment: %s'
                       % (f.name, sorted(undefined)))
        lines = self.tr(list(f.body), 2, k)
        params = ''.join(' (%s : %s)' % (lname(n), self.lty(t))
                         for n, t in f.scalar_params())
        ret = 'Res α' if f.res else 'α'
        head = '/-- `%s`, riemann_solver.py line %d -/\n' % (f.name, f.node.lineno)
        head += 'def %s (o : Ops α)%s : %s :=\n' % (f.name, params, ret)
        return ''.join(a + '\n' for a in self.aux) + head + '\n'.join(lines) + '\n'


class _KVar:
    """continuation `value of variable v` for the per-variable if-join"""
    brk = None

    def __init__(self, v):
        self.v = v
        self.live = {v}

    def __call__(self, ind):
        return [' ' * ind + lname(self.v)]


def called(fn_node, names):
    return {n.func.id for n in ast.walk(fn_node)
            if isinstance(n, ast.Call) and isinstance(n.func, ast.Name)
            and n.func.id in names}


def generate(src_text):
    tree = ast.parse(src_text)
    defs = {n.name: n for n in tree.body if isinstance(n, ast.FunctionDef)}
    helpers = None
    for n in tree.body:
        if isinstance(n, ast.Assign) and isinstance(n.targets[0], ast.Name) \
                and n.targets[0].id == 'HELPERS':
            if not (isinstance(n.value, ast.List)
                    and all(isinstance(e, ast.Name) for e in n.value.elts)):
                raise TErr('HELPERS is not a plain list of names')
            helpers = [e.id for e in n.value.elts]
    if helpers is None:
        raise TErr('no HELPERS list in the module')
    for h in helpers:
        if h not in defs:
            raise TErr('HELPERS names %s which is not defined in the module' % h)
    funcs = {h: Func(defs[h]) for h in helpers}
    # every module function a helper calls must itself be a helper (or a no-op)
    for h in helpers:
        for c in called(defs[h], set(defs)):
            if c not in funcs and c not in NOOP_CALLS:
                raise TErr('%s calls %s which is not in HELPERS' % (h, c))
    # order: callees first
    order = []
    visiting = set()

    def visit(h):
        if h in order:
            return
        if h in visiting:
            raise TErr('recursion through %s' % h)
        visiting.add(h)
        for c in sorted(called(defs[h], set(funcs))):
            if c != h:
                visit(c)
        visiting.discard(h)
        order.append(h)
    for h in sorted(helpers, key=lambda x: defs[x].lineno):
        visit(h)
    solver_sig = ('f',) * 7 + ('i', 'f', 'arr2')
    solvers = [h for h in sorted(helpers, key=lambda x: defs[x].lineno)
               if funcs[h].sig() == solver_sig
               and [p for p, _ in funcs[h].params] ==
               ['rhol', 'rhor', 'pl', 'pr', 'ul', 'ur', 'gamma', 'niter', 'tol', 'result']]
    out = []
    out.append('''/-
GENERATED by translate/riemann2lean.py from
pysph/sph/gas_dynamics/riemann_solver.py — do not edit; rewritten on every
`./check C15`.  One definition per function of the module's HELPERS list
(%s), statement by statement, in source order of
evaluation.  Dropped because they cannot influence a result: docstrings and
`printf(...)` calls.  `declare(...)` gives 0.0 / 0 / zero lists (compyle's
behaviour under CPython).  Loops are recursions on fuel `niter.toNat`.
-/
import PysphVerif.Model.RiemannPrelude
set_option linter.unusedVariables false
namespace PysphVerif.Gen.Riemann
open PysphVerif.Riemann

section
variable {α : Type} [Add α] [Sub α] [Mul α] [Div α] [Neg α] [NatCast α]
  [LT α] [LE α] [DecidableLT α] [DecidableLE α]
''' % ', '.join(helpers))
    for h in order:
        out.append(Tr(funcs[h], funcs).translate())
    # table of the functions with the common solver signature
    out.append('/-- the functions with the solver signature, in source order -/')
    out.append('def solverNames : List String := [%s]\n' % ', '.join('"%s"' % s for s in solvers))
    out.append('/-- call a solver by name (driver, dispatch theorems) -/')
    out.append('def runSolver (o : Ops α) (name : String) (rhol rhor pl pr ul ur gamma : α) '
               '(niter : Int) (tol result_0 result_1 : α) : Option (Res α) :=')
    for s in solvers:
        out.append('  if name = "%s" then some (%s o rhol rhor pl pr ul ur gamma niter tol '
                   'result_0 result_1) else' % (s, s))
    out.append('  none\n')
    out.append('end\nend PysphVerif.Gen.Riemann\n')
    return '\n'.join(out), dict(helpers=helpers, solvers=solvers, order=order)


def main():
    ap = argparse.ArgumentParser()
    ap.add_argument('--repo', required=True)
    ap.add_argument('--out', required=True)
    a = ap.parse_args()
    path = os.path.join(a.repo, SRC)
    try:
        text, info = generate(open(path).read())
    except TErr as e:
        print('riemann2lean: cannot translate %s: %s' % (path, e))
        return 1
    except SyntaxError as e:
        print('riemann2lean: %s does not parse: %s' % (path, e))
        return 1
    changed = vlib.write_if_changed(os.path.join(a.out, 'Riemann.lean'), text)
    print('riemann2lean: %d functions (%d solvers) -> Gen/Riemann.lean%s'
          % (len(info['order']), len(info['solvers']), ' (changed)' if changed else ''))
    return 0


if __name__ == '__main__':
    sys.exit(main())
