"""precomp2lean — regenerate lean/PysphVerif/Gen/Precomp.lean  (property C02).

    python translate/precomp2lean.py --repo <repo> --out lean/PysphVerif/Gen

Reads
  * pysph/sph/equation.py :: precomputed_symbols()  — by AST, the code strings
    and the defaults of every `c.NAME = BasicCodeBlock(code=..., NAME=...)`;
  * docs/source/design/equations.rst — the bullet list "The following
    precomputed quantites are available": every ``...`` literal that is a
    statement of the code-block language.
and emits, as data for Model/Codegen.lean,
  codeTable    symbol ↦ block, from the code strings (source order)
  docTable     symbol ↦ block, from the documentation
  convTable    symbol ↦ block for the symbols the property statement names but
               equations.rst does not list (WDP, GHI/GHJ/GHIJ, WDASHI/J/IJ):
               the naming convention of the documented W*/DW* family
               (suffix I ↦ d_h[d_idx], J ↦ s_h[s_idx], IJ ↦ HIJ; W = KERNEL(XIJ,
               RIJ, h), GH = GRADH(XIJ, RIJ, h), WDASH = DWDQ(RIJ, h),
               WDP = KERNEL(XIJ, DELTAP*HIJ, HIJ)).  A table key that is neither
               documented nor covered by the convention makes the translator
               FAIL.
  symbolsTable symbol ↦ sorted ast.Name ids of its code (what compyle's
               get_symbols returns; checked against the real one by the harness)
  defaults     symbol ↦ 0 (scalar 0.0) | n (list of n zeros)

Code-block language (anything else raises, exit 1 — nothing is skipped):
  statements  NAME = e | NAME[k] = e | F(a, b, c, OUT)
  expressions float/int literals (exact value of their decimal text),
              d_p[d_idx], s_p[s_idx], NAME, NAME[k], + - * /, unary -, F(a),
              F(a, b), F(a, b, c); a bare NAME whose default is a list is a
              vector argument.
"""
import argparse
import ast
import os
import re
import sys
from fractions import Fraction
from textwrap import dedent

sys.path.insert(0, os.path.join(os.path.dirname(os.path.abspath(__file__)),
                                '..', 'lib'))
import vlib  # noqa: E402

SRC = os.path.join('pysph', 'sph', 'equation.py')
DOC = os.path.join('docs', 'source', 'design', 'equations.rst')


class TErr(Exception):
    pass


# ---------------------------------------------------------------------------
# code-block language -> tuples
#   expr : ('lit', num, den) ('dref', p) ('sref', p) ('var', s) ('vec', s)
#          ('comp', s, k) ('add'|'sub'|'mul'|'div', a, b) ('neg', a)
#          ('call1', f, a) ('call2', f, a, b) ('call3', f, a, b, c)
#   stmt : ('assign', s, e) ('assignComp', s, k, e) ('callOut', f, a, b, c, out)

BIN = {ast.Add: 'add', ast.Sub: 'sub', ast.Mult: 'mul', ast.Div: 'div'}


def p_expr(n, vectors):
    if isinstance(n, ast.Constant):
        if isinstance(n.value, bool) or not isinstance(n.value, (int, float)):
            raise TErr('literal %r' % (n.value,))
        f = Fraction(repr(n.value))
        if f < 0:
            raise TErr('negative literal')
        return ('lit', f.numerator, f.denominator)
    if isinstance(n, ast.Name):
        return ('vec', n.id) if n.id in vectors else ('var', n.id)
    if isinstance(n, ast.Subscript):
        if not isinstance(n.value, ast.Name):
            raise TErr('subscript of a non-name')
        base = n.value.id
        idx = n.slice
        if isinstance(idx, ast.Name):
            if base.startswith('d_') and idx.id == 'd_idx':
                return ('dref', base[2:])
            if base.startswith('s_') and idx.id == 's_idx':
                return ('sref', base[2:])
            raise TErr('%s[%s]: destination arrays are indexed by d_idx, '
                       'source arrays by s_idx' % (base, idx.id))
        if isinstance(idx, ast.Constant) and isinstance(idx.value, int) \
                and idx.value >= 0:
            return ('comp', base, idx.value)
        raise TErr('index of %s' % base)
    if isinstance(n, ast.BinOp) and type(n.op) in BIN:
        return (BIN[type(n.op)], p_expr(n.left, vectors),
                p_expr(n.right, vectors))
    if isinstance(n, ast.UnaryOp) and isinstance(n.op, ast.USub):
        return ('neg', p_expr(n.operand, vectors))
    if isinstance(n, ast.Call) and isinstance(n.func, ast.Name) \
            and not n.keywords and 1 <= len(n.args) <= 3:
        return ('call%d' % len(n.args), n.func.id) + tuple(
            p_expr(a, vectors) for a in n.args)
    raise TErr('expression %s' % ast.dump(n)[:80])


def p_stmt(n, vectors):
    if isinstance(n, ast.Assign) and len(n.targets) == 1:
        t = n.targets[0]
        if isinstance(t, ast.Name):
            return ('assign', t.id, p_expr(n.value, vectors))
        if isinstance(t, ast.Subscript) and isinstance(t.value, ast.Name) \
                and isinstance(t.slice, ast.Constant) \
                and isinstance(t.slice.value, int):
            return ('assignComp', t.value.id, t.slice.value,
                    p_expr(n.value, vectors))
        raise TErr('assignment target')
    if isinstance(n, ast.Expr) and isinstance(n.value, ast.Call) \
            and isinstance(n.value.func, ast.Name) \
            and len(n.value.args) == 4 and not n.value.keywords \
            and isinstance(n.value.args[3], ast.Name):
        a = n.value.args
        return ('callOut', n.value.func.id, p_expr(a[0], vectors),
                p_expr(a[1], vectors), p_expr(a[2], vectors), a[3].id)
    raise TErr('statement %s' % ast.dump(n)[:80])


def p_block(code, vectors):
    tree = ast.parse(dedent(code))
    return [p_stmt(s, vectors) for s in tree.body]


def target(stmt):
    return stmt[-1] if stmt[0] == 'callOut' else stmt[1]


def names_of(code):
    """every ast.Name id (what compyle.get_symbols collects)"""
    return sorted({n.id for n in ast.walk(ast.parse(dedent(code)))
                   if isinstance(n, ast.Name)})


# ---------------------------------------------------------------------------
# equation.py

def const_str(n):
    """a string constant or dedent(<string constant>)"""
    if isinstance(n, ast.Constant) and isinstance(n.value, str):
        return n.value
    if isinstance(n, ast.Call) and isinstance(n.func, ast.Name) \
            and n.func.id == 'dedent' and len(n.args) == 1 and not n.keywords:
        return dedent(const_str(n.args[0]))
    raise TErr('line %d: code is not a string literal' % n.lineno)


def read_code_table(src):
    tree = ast.parse(src)
    fn = [n for n in tree.body
          if isinstance(n, ast.FunctionDef) and n.name == 'precomputed_symbols']
    if len(fn) != 1:
        raise TErr('precomputed_symbols() not found')
    body = list(fn[0].body)
    if body and isinstance(body[0], ast.Expr) and \
            isinstance(body[0].value, ast.Constant):
        body = body[1:]
    raw = []     # (name, code, default)
    ctx = None
    for st in body:
        if isinstance(st, ast.Assign) and len(st.targets) == 1 and \
                isinstance(st.targets[0], ast.Name) and \
                isinstance(st.value, ast.Call) and \
                getattr(st.value.func, 'id', None) == 'Context' and \
                not st.value.args and not st.value.keywords:
            ctx = st.targets[0].id
            continue
        if isinstance(st, ast.Return):
            if not (isinstance(st.value, ast.Name) and st.value.id == ctx):
                raise TErr('line %d: unexpected return' % st.lineno)
            continue
        ok = (isinstance(st, ast.Assign) and len(st.targets) == 1 and
              isinstance(st.targets[0], ast.Attribute) and
              isinstance(st.targets[0].value, ast.Name) and
              st.targets[0].value.id == ctx and
              isinstance(st.value, ast.Call) and
              getattr(st.value.func, 'id', None) == 'BasicCodeBlock' and
              not st.value.args)
        if not ok:
            raise TErr('line %d: statement outside the subset in '
                       'precomputed_symbols()' % st.lineno)
        name = st.targets[0].attr
        kw = {k.arg: k.value for k in st.value.keywords}
        if set(kw) != {'code', name}:
            raise TErr('line %d: BasicCodeBlock keywords %s' % (
                st.lineno, sorted(map(str, kw))))
        dv = kw[name]
        if isinstance(dv, ast.Constant) and isinstance(dv.value, float) \
                and dv.value == 0.0:
            default = 0
        elif isinstance(dv, ast.List) and dv.elts and all(
                isinstance(e, ast.Constant) and isinstance(e.value, float)
                and e.value == 0.0 for e in dv.elts):
            default = len(dv.elts)
        else:
            raise TErr('line %d: default of %s' % (st.lineno, name))
        raw.append((name, const_str(kw['code']), default))
    names = [r[0] for r in raw]
    if len(set(names)) != len(names):
        raise TErr('a symbol is defined twice')
    return raw


# ---------------------------------------------------------------------------
# equations.rst

def read_doc_table(rst, vectors):
    lines = rst.split('\n')
    try:
        a = next(i for i, l in enumerate(lines)
                 if l.startswith('The following precomputed'))
    except StopIteration:
        raise TErr('equations.rst: list of precomputed quantities not found')
    bullets = []
    cur = None
    for l in lines[a + 1:]:
        if l.startswith('In addition') or (l.strip() and not l.startswith(' ')
                                           and cur is not None):
            break
        m = re.match(r'^\s+- (.*)$', l)
        if m:
            cur = [m.group(1)]
            bullets.append(cur)
        elif cur is not None and l.strip():
            cur.append(l.strip())
        elif cur is not None and not l.strip():
            pass
    table = []
    for b in bullets:
        text = ' '.join(b)
        segs = re.findall(r'``(.+?)``', text)
        if segs and segs[0] == 'SPH_KERNEL':
            continue
        stmts = []
        for s in segs:
            if re.fullmatch(r'[A-Za-z_]\w*', s):
                continue          # a bare name introducing the entry
            try:
                stmts += p_block(s, vectors)
            except (TErr, SyntaxError) as e:
                raise TErr('equations.rst: cannot read ``%s``: %s' % (s, e))
        if not stmts:
            raise TErr('equations.rst: bullet without a formula: %s' % text)
        tg = {target(s) for s in stmts}
        if len(tg) != 1:
            raise TErr('equations.rst: bullet defines %s' % sorted(tg))
        table.append((tg.pop(), stmts))
    names = [t[0] for t in table]
    if len(set(names)) != len(names):
        raise TErr('equations.rst documents a symbol twice')
    return table


def convention(sym, vectors):
    """formula by the naming convention of the documented W*/DW* family"""
    def h_of(suffix):
        return {'I': 'd_h[d_idx]', 'J': 's_h[s_idx]', 'IJ': 'HIJ'}.get(suffix)
    if sym == 'WDP':
        code = 'WDP = KERNEL(XIJ, DELTAP*HIJ, HIJ)'
    elif sym.startswith('WDASH') and h_of(sym[5:]):
        code = '%s = DWDQ(RIJ, %s)' % (sym, h_of(sym[5:]))
    elif sym.startswith('GH') and h_of(sym[2:]):
        code = '%s = GRADH(XIJ, RIJ, %s)' % (sym, h_of(sym[2:]))
    else:
        return None
    return p_block(code, vectors)


# ---------------------------------------------------------------------------
# emit

def lstr(s):
    if not re.fullmatch(r'[A-Za-z0-9_]*', s):
        raise TErr('name %r' % s)
    return '"%s"' % s


def l_expr(e):
    k = e[0]
    if k == 'lit':
        return '(.lit %d %d)' % (e[1], e[2])
    if k in ('dref', 'sref', 'var', 'vec'):
        return '(.%s %s)' % (k, lstr(e[1]))
    if k == 'comp':
        return '(.comp %s %d)' % (lstr(e[1]), e[2])
    if k in ('add', 'sub', 'mul', 'div'):
        return '(.%s %s %s)' % (k, l_expr(e[1]), l_expr(e[2]))
    if k == 'neg':
        return '(.neg %s)' % l_expr(e[1])
    if k in ('call1', 'call2', 'call3'):
        return '(.%s %s %s)' % (k, lstr(e[1]), ' '.join(l_expr(a) for a in e[2:]))
    raise TErr('internal: %r' % (e,))


def l_stmt(s):
    if s[0] == 'assign':
        return '.assign %s %s' % (lstr(s[1]), l_expr(s[2]))
    if s[0] == 'assignComp':
        return '.assignComp %s %d %s' % (lstr(s[1]), s[2], l_expr(s[3]))
    return '.callOut %s %s %s %s %s' % (lstr(s[1]), l_expr(s[2]), l_expr(s[3]),
                                        l_expr(s[4]), lstr(s[5]))


def l_block(b):
    return '[' + ',\n   '.join(l_stmt(s) for s in b) + ']'


def l_table(name, prefix, entries, doc):
    out = []
    for sym, b in entries:
        out.append('def %s_%s : Block :=\n  %s\n' % (prefix, sym, l_block(b)))
    out.append('/-- %s -/\ndef %s : List (String × Block) :=\n  [%s]\n' % (
        doc, name, ',\n   '.join('(%s, %s_%s)' % (lstr(s), prefix, s)
                                 for s, _ in entries)))
    return '\n'.join(out)


def generate(src, rst):
    raw = read_code_table(src)
    vectors = {n for n, _, d in raw if d > 0}
    code = []
    for name, text, default in raw:
        try:
            b = p_block(text, vectors)
        except (TErr, SyntaxError) as e:
            raise TErr('code of %s: %s' % (name, e))
        tg = {target(s) for s in b}
        if tg != {name}:
            raise TErr('code of %s assigns %s' % (name, sorted(tg)))
        code.append((name, b))
    doc = read_doc_table(rst, vectors)
    documented = {s for s, _ in doc}
    conv = []
    for name, _, _ in raw:
        if name in documented:
            continue
        b = convention(name, vectors)
        if b is None:
            raise TErr('symbol %s has no documented formula (equations.rst) '
                       'and is outside the naming convention' % name)
        conv.append((name, b))
    for s in documented:
        if s not in {n for n, _, _ in raw}:
            raise TErr('equations.rst documents %s, which precomputed_symbols() '
                       'does not define' % s)
    out = [
        '/- GENERATED by translate/precomp2lean.py from pysph/sph/equation.py',
        '   (precomputed_symbols) and docs/source/design/equations.rst.',
        '   Rewritten on every run of ./check C02; do not edit. -/',
        'import PysphVerif.Model.Codegen',
        'namespace PysphVerif.Gen.Precomp',
        'open PysphVerif.Codegen',
        '',
        l_table('codeTable', 'code', code,
                'the code blocks of `precomputed_symbols()`, in source order'),
        l_table('docTable', 'doc', doc,
                'the formulas documented in docs/source/design/equations.rst'),
        l_table('convTable', 'conv', conv,
                'naming-convention formulas of the symbols the documentation '
                'does not list'),
        '/-- symbol ↦ sorted `ast.Name` ids of its code (compyle `get_symbols`) -/',
        'def symbolsTable : Table String :=\n  [%s]\n' % ',\n   '.join(
            '(%s, [%s])' % (lstr(n), ', '.join(lstr(x) for x in names_of(t)))
            for n, t, _ in raw),
        '/-- default value in the context: 0 = `0.0`, n = list of n zeros -/',
        'def defaults : List (String × Nat) :=\n  [%s]\n' % ', '.join(
            '(%s, %d)' % (lstr(n), d) for n, _, d in raw),
        'end PysphVerif.Gen.Precomp',
        '',
    ]
    info = {'symbols': [n for n, _, _ in raw], 'documented': sorted(documented),
            'convention': [n for n, _ in conv]}
    return '\n'.join(out), info


def main():
    ap = argparse.ArgumentParser()
    ap.add_argument('--repo', required=True)
    ap.add_argument('--out', required=True)
    a = ap.parse_args()
    try:
        text, info = generate(open(os.path.join(a.repo, SRC)).read(),
                              open(os.path.join(a.repo, DOC)).read())
    except TErr as e:
        print('precomp2lean: cannot translate: %s' % e)
        return 1
    except SyntaxError as e:
        print('precomp2lean: source does not parse: %s' % e)
        return 1
    changed = vlib.write_if_changed(os.path.join(a.out, 'Precomp.lean'), text)
    print('precomp2lean: %d symbols (%d documented, %d by convention) -> '
          'Gen/Precomp.lean%s' % (len(info['symbols']), len(info['documented']),
                                  len(info['convention']),
                                  ' (changed)' if changed else ''))
    return 0


if __name__ == '__main__':
    sys.exit(main())
