"""c09_equations2lean — regenerate lean/PysphVerif/Gen/C09Equations.lean from
the current source of the pair-symmetric momentum equations (property C09).

    python translate/c09_equations2lean.py --repo <repo> --out lean/PysphVerif/Gen

Reads (Python `ast`, nothing is imported or executed):

  * `pysph/sph/equation.py::precomputed_symbols()` — the code strings of the
    precomputed symbols (HIJ, XIJ, VIJ, R2IJ, RIJ, RHOIJ, RHOIJ1, EPS, WIJ, WDP,
    DWIJ, DWI, DWJ, ...) become `pre_<SYM>` definitions over a destination
    particle `a`, a source particle `b` and an abstract kernel `k`;
  * the `loop` method of every equation in `EQUATIONS` below — it becomes
    `loop_<Tag>` (the body, statement by statement, as a function of the
    scalars it reads: `self.*`, `d_*[d_idx]`, `s_*[s_idx]`, `d_*[0]`, the
    precomputed symbols; result: the `d_*[d_idx]` values it leaves behind) and
    `pair_<Tag>` (precomputed symbols + body = one step of the neighbour loop
    for the pair (a, b), an accumulator transformer);
  * the `initialize` method of the same classes — only checked to be of the
    form `d_X[d_idx] = 0.0` (recorded as `initZero_<Tag>`).

Everything is polymorphic in the number type (see Model/PairSym.lean): the
same text runs at `Float` in the driver (bit-exact against the Python bodies)
and is reasoned about over a linearly ordered field in Props/C09.lean.

Subset handled in a `loop` body (anything else raises, the equation is
reported as FAILED and the translator exits non-zero — nothing is skipped
silently):

  * `x = e`, `x op= e` (op in + - * /) with targets: a local name,
    `d_X[d_idx]`, `VEC[k]` (k a literal 0..2, VEC a precomputed vector);
  * `if / elif / else` whose test is a comparison (`< <= > >=`) of two
    arithmetic expressions, `and`/`or` of such, or a bare `self.flag`;
    translated as ONE tuple-valued `if` per statement carrying every variable
    assigned in it that is defined afterwards on both paths; a variable
    assigned on one path only and not defined before is local to that path
    and any later use of it is an error;
  * expressions: float / int literals, names, `d_X[d_idx]`, `s_X[s_idx]`,
    `d_X[0]` (array constant), `VEC[k]`, `self.attr`, `+ - * /`, unary `-`/`+`,
    `abs sqrt pow max min` (max/min with two arguments);
  * docstrings / bare string statements are dropped.

Float arithmetic is emitted in source order, parenthesised exactly as the
AST.  Literals are emitted as `((n : Nat) : α)` or a quotient of two such whose
IEEE quotient is checked to be the literal's double (so `Float` execution is
bit-exact and the field reading is the decimal the source shows).

Every class in the anchored files whose `loop` writes `d_au` must be listed
either in `EQUATIONS` (handled) or in `OUT_OF_SCOPE` (with the reason);
an unlisted one is an error, so a newly added momentum equation cannot go
unnoticed.
"""
import argparse
import ast
import json
import os
import sys
import textwrap
from fractions import Fraction

sys.path.insert(0, os.path.join(os.path.dirname(os.path.abspath(__file__)),
                                '..', 'lib'))
import vlib  # noqa: E402

ANCHOR_FILES = [
    'pysph/sph/wc/basic.py', 'pysph/sph/basic_equations.py',
    'pysph/sph/wc/transport_velocity.py', 'pysph/sph/wc/edac.py',
    'pysph/sph/wc/viscosity.py', 'pysph/sph/gas_dynamics/basic.py',
    'pysph/sph/solid_mech/basic.py',
]
EQUATION_PY = 'pysph/sph/equation.py'

# tag, file, class, kind, central (force along XIJ: angular momentum claimed)
EQUATIONS = [
    ('WC_MomentumEquation', 'pysph/sph/wc/basic.py', 'MomentumEquation', 'momentum', True),
    ('WC_MomentumEquationDeltaSPH', 'pysph/sph/wc/basic.py', 'MomentumEquationDeltaSPH', 'momentum', True),
    ('WC_PressureGradientUsingNumberDensity', 'pysph/sph/wc/basic.py', 'PressureGradientUsingNumberDensity', 'momentum', True),
    ('BE_MonaghanArtificialViscosity', 'pysph/sph/basic_equations.py', 'MonaghanArtificialViscosity', 'momentum', True),
    ('BE_SummationDensity', 'pysph/sph/basic_equations.py', 'SummationDensity', 'density', False),
    ('TV_SummationDensity', 'pysph/sph/wc/transport_velocity.py', 'SummationDensity', 'density', False),
    ('TV_MomentumEquationPressureGradient', 'pysph/sph/wc/transport_velocity.py', 'MomentumEquationPressureGradient', 'momentum', True),
    ('TV_MomentumEquationViscosity', 'pysph/sph/wc/transport_velocity.py', 'MomentumEquationViscosity', 'momentum', False),
    ('TV_MomentumEquationArtificialViscosity', 'pysph/sph/wc/transport_velocity.py', 'MomentumEquationArtificialViscosity', 'momentum', True),
    ('TV_MomentumEquationArtificialStress', 'pysph/sph/wc/transport_velocity.py', 'MomentumEquationArtificialStress', 'momentum', False),
    ('ED_MomentumEquation', 'pysph/sph/wc/edac.py', 'MomentumEquation', 'momentum', True),
    ('ED_MomentumEquationPressureGradient', 'pysph/sph/wc/edac.py', 'MomentumEquationPressureGradient', 'momentum-if-uniform-pavg', True),
    ('VI_LaminarViscosity', 'pysph/sph/wc/viscosity.py', 'LaminarViscosity', 'momentum', False),
    ('VI_MonaghanSignalViscosityFluids', 'pysph/sph/wc/viscosity.py', 'MonaghanSignalViscosityFluids', 'momentum', True),
    ('VI_ClearyArtificialViscosity', 'pysph/sph/wc/viscosity.py', 'ClearyArtificialViscosity', 'momentum', True),
    ('VI_LaminarViscosityDeltaSPH', 'pysph/sph/wc/viscosity.py', 'LaminarViscosityDeltaSPH', 'momentum', True),
    ('GD_Monaghan92Accelerations', 'pysph/sph/gas_dynamics/basic.py', 'Monaghan92Accelerations', 'momentum', True),
    ('GD_ADKEAccelerations', 'pysph/sph/gas_dynamics/basic.py', 'ADKEAccelerations', 'momentum', True),
    ('GD_MPMAccelerations', 'pysph/sph/gas_dynamics/basic.py', 'MPMAccelerations', 'momentum', True),
    ('SM_MomentumEquationWithStress', 'pysph/sph/solid_mech/basic.py', 'MomentumEquationWithStress', 'momentum', False),
]

# classes of the anchored files that write d_au in `loop` but are NOT claimed
OUT_OF_SCOPE = [
    ('pysph/sph/basic_equations.py', 'BodyForce',
     'a body force (the property is stated with body forces off)'),
    ('pysph/sph/wc/transport_velocity.py', 'SolidWallNoSlipBC',
     'one-sided wall boundary term (fluid destination, wall source with '
     'prescribed ghost velocities): not a closed pair-symmetric interaction'),
]

VEC_SYMS = ('XIJ', 'VIJ', 'DWIJ', 'DWI', 'DWJ')
LEAN_KEYWORDS = set('''at in end from show have fun let do then else if match with where
def theorem lemma structure class instance open namespace section variable by calc
this to for mut return break continue import o k a b acc z α'''.split())


class TErr(Exception):
    pass


def err(node, msg):
    raise TErr('line %s: %s' % (getattr(node, 'lineno', '?'), msg))


def mangle(name):
    if name.startswith('_'):
        name = 'u' + name
    if name in LEAN_KEYWORDS:
        name = 'v_' + name
    return name


# --------------------------------------------------------------------------
# literals

def nat(n):
    return '((%d : Nat) : α)' % n


def lit(node, v):
    if isinstance(v, bool) or not isinstance(v, (int, float)):
        err(node, 'unsupported literal %r' % (v,))
    if isinstance(v, int):
        if v < 0 or v >= 2 ** 53:
            err(node, 'integer literal out of range')
        return nat(v)
    if v != v or v in (float('inf'), float('-inf')) or v < 0:
        err(node, 'unsupported float literal %r' % v)
    if v == int(v) and v < 2 ** 53:
        return nat(int(v))
    fr = Fraction(repr(v))
    p, q = fr.numerator, fr.denominator
    if p >= 2 ** 53 or q >= 2 ** 53 or float(p) / float(q) != v:
        err(node, 'float literal %r is not the IEEE quotient of two small '
            'integers' % v)
    return '(%s / %s)' % (nat(p), nat(q))


# --------------------------------------------------------------------------
# precomputed symbols (equation.py)

def read_precomputed(repo):
    """{SYM: [ast statements]} from the code strings of precomputed_symbols()"""
    src = open(os.path.join(repo, EQUATION_PY)).read()
    tree = ast.parse(src)
    fn = [n for n in tree.body if isinstance(n, ast.FunctionDef)
          and n.name == 'precomputed_symbols']
    if len(fn) != 1:
        raise TErr('equation.py: precomputed_symbols() not found')
    out = {}
    order = []
    for st in fn[0].body:
        if isinstance(st, ast.Expr) and isinstance(st.value, ast.Constant):
            continue
        if isinstance(st, ast.Assign) and isinstance(st.targets[0], ast.Name) \
                and st.targets[0].id == 'c':
            continue
        if isinstance(st, ast.Return):
            continue
        if not (isinstance(st, ast.Assign) and len(st.targets) == 1 and
                isinstance(st.targets[0], ast.Attribute) and
                isinstance(st.targets[0].value, ast.Name) and
                st.targets[0].value.id == 'c' and
                isinstance(st.value, ast.Call) and
                getattr(st.value.func, 'id', None) == 'BasicCodeBlock'):
            err(st, 'precomputed_symbols(): statement outside the subset')
        sym = st.targets[0].attr
        code = None
        for kw in st.value.keywords:
            if kw.arg == 'code':
                v = kw.value
                if isinstance(v, ast.Call) and getattr(v.func, 'id', '') == 'dedent':
                    v = v.args[0]
                if not (isinstance(v, ast.Constant) and isinstance(v.value, str)):
                    err(st, 'code of %s is not a string literal' % sym)
                code = textwrap.dedent(v.value)
        if code is None:
            err(st, 'no code= for %s' % sym)
        out[sym] = ast.parse(code).body
        order.append(sym)
    return out, order


class PreTr:
    """translate the precomputed code blocks into pre_<SYM> definitions"""

    def __init__(self, blocks, order):
        self.blocks = blocks
        self.order = order
        self.defs = {}        # lean name -> (expr string, deps set of SYM)
        self.sym_deps = {}
        self.pfields = set()
        self.comp = {}        # SYM -> list of lean def names (1 or 3)

    def ref(self, sym, k=None):
        nm = 'pre_%s' % sym if k is None else 'pre_%s_%d' % (sym, k)
        return '(%s o k a b)' % nm

    def E(self, n, deps):
        if isinstance(n, ast.Constant):
            return lit(n, n.value)
        if isinstance(n, ast.Name):
            if n.id == 'DELTAP':
                return 'k.deltap'
            if n.id in self.blocks and n.id not in VEC_SYMS:
                deps.add(n.id)
                return self.ref(n.id)
            err(n, 'precomputed code refers to unknown name %s' % n.id)
        if isinstance(n, ast.Subscript):
            base = n.value.id if isinstance(n.value, ast.Name) else None
            sl = n.slice
            if base and base.startswith('d_') and isinstance(sl, ast.Name) \
                    and sl.id == 'd_idx':
                self.pfields.add(base[2:])
                return 'a.%s' % base[2:]
            if base and base.startswith('s_') and isinstance(sl, ast.Name) \
                    and sl.id == 's_idx':
                self.pfields.add(base[2:])
                return 'b.%s' % base[2:]
            if base in VEC_SYMS and isinstance(sl, ast.Constant) \
                    and sl.value in (0, 1, 2):
                deps.add(base)
                return self.ref(base, sl.value)
            err(n, 'unsupported subscript in precomputed code')
        if isinstance(n, ast.BinOp):
            op = {ast.Add: '+', ast.Sub: '-', ast.Mult: '*', ast.Div: '/'}.get(type(n.op))
            if op is None:
                err(n, 'unsupported operator')
            return '(%s %s %s)' % (self.E(n.left, deps), op, self.E(n.right, deps))
        if isinstance(n, ast.UnaryOp) and isinstance(n.op, ast.USub):
            return '(-%s)' % self.E(n.operand, deps)
        if isinstance(n, ast.Call) and isinstance(n.func, ast.Name):
            f = n.func.id
            if f == 'sqrt' and len(n.args) == 1:
                return '(o.sqrt %s)' % self.E(n.args[0], deps)
            if f in ('KERNEL', 'GRADH') and len(n.args) == 3:
                v = self.vec(n.args[0], deps)
                return '(k.%s %s %s %s)' % (
                    'kernel' if f == 'KERNEL' else 'gradh', v,
                    self.E(n.args[1], deps), self.E(n.args[2], deps))
            if f == 'DWDQ' and len(n.args) == 2:
                return '(k.dwdq %s %s)' % (self.E(n.args[0], deps),
                                            self.E(n.args[1], deps))
        err(n, 'unsupported expression in precomputed code: %s' % ast.dump(n)[:80])

    def vec(self, n, deps):
        if not (isinstance(n, ast.Name) and n.id in VEC_SYMS):
            err(n, 'vector argument expected')
        deps.add(n.id)
        return ' '.join(self.ref(n.id, i) for i in range(3))

    def run(self):
        for sym in self.order:
            deps = set()
            names = []
            for st in self.blocks[sym]:
                if isinstance(st, ast.Assign) and len(st.targets) == 1:
                    t = st.targets[0]
                    if isinstance(t, ast.Name) and t.id == sym:
                        nm = 'pre_%s' % sym
                    elif isinstance(t, ast.Subscript) and \
                            isinstance(t.value, ast.Name) and t.value.id == sym \
                            and isinstance(t.slice, ast.Constant) \
                            and t.slice.value in (0, 1, 2):
                        nm = 'pre_%s_%d' % (sym, t.slice.value)
                    else:
                        err(st, 'precomputed %s assigns something else' % sym)
                    self.defs[nm] = self.E(st.value, deps)
                    names.append(nm)
                elif isinstance(st, ast.Expr) and isinstance(st.value, ast.Call) \
                        and getattr(st.value.func, 'id', '') == 'GRADIENT' \
                        and len(st.value.args) == 4 \
                        and isinstance(st.value.args[3], ast.Name) \
                        and st.value.args[3].id == sym:
                    c = st.value
                    v = self.vec(c.args[0], deps)
                    r = self.E(c.args[1], deps)
                    h = self.E(c.args[2], deps)
                    for i, g in enumerate(('gx', 'gy', 'gz')):
                        nm = 'pre_%s_%d' % (sym, i)
                        self.defs[nm] = '(k.%s %s %s %s)' % (g, v, r, h)
                        names.append(nm)
                else:
                    err(st, 'precomputed %s: statement outside the subset' % sym)
            deps.discard(sym)
            if sym in VEC_SYMS and sorted(names) != ['pre_%s_%d' % (sym, i) for i in range(3)]:
                raise TErr('precomputed vector %s does not define 3 components' % sym)
            if sym not in VEC_SYMS and names != ['pre_%s' % sym]:
                raise TErr('precomputed scalar %s is not a single assignment' % sym)
            self.sym_deps[sym] = deps
            self.comp[sym] = names
        # topological order
        done, out = set(), []

        def visit(s, stack=()):
            if s in done:
                return
            if s in stack:
                raise TErr('cyclic precomputed symbols at %s' % s)
            for d in sorted(self.sym_deps[s]):
                visit(d, stack + (s,))
            done.add(s)
            out.append(s)
        for s in self.order:
            visit(s)
        self.topo = out


# --------------------------------------------------------------------------
# loop bodies

class LoopTr:
    def __init__(self, tag, fn, pre):
        self.tag = tag
        self.fn = fn
        self.pre = pre
        self.args = [a.arg for a in fn.args.args]
        if self.args[0] != 'self':
            err(fn, 'loop is not a method')
        if fn.args.vararg or fn.args.kwarg or fn.args.kwonlyargs or fn.args.defaults:
            err(fn, 'loop has non-positional parameters')
        self.self_f, self.self_b = set(), set()
        self.dconst = set()
        self.written = []
        self.tmpn = 0
        self.uses = {'sqrt': False, 'pow': False, 'abs': False}
        for a in self.args[1:]:
            if a in ('d_idx', 's_idx') or a.startswith('d_') or a.startswith('s_'):
                continue
            if a in pre.blocks:
                continue
            err(fn, 'loop parameter %s is neither an array nor a precomputed '
                'symbol' % a)

    # ---- name resolution
    def target(self, t):
        """lean variable name for an assignment target"""
        if isinstance(t, ast.Name):
            if t.id in self.args:
                err(t, 'assignment to parameter %s' % t.id)
            return mangle(t.id)
        if isinstance(t, ast.Subscript) and isinstance(t.value, ast.Name):
            base, sl = t.value.id, t.slice
            if base.startswith('d_') and base in self.args and \
                    isinstance(sl, ast.Name) and sl.id == 'd_idx':
                if base not in self.written:
                    self.written.append(base)
                return base
            if base in VEC_SYMS and base in self.args and \
                    isinstance(sl, ast.Constant) and sl.value in (0, 1, 2):
                return '%s_%d' % (base, sl.value)
        err(t, 'unsupported assignment target')

    def E(self, n, env):
        if isinstance(n, ast.Constant):
            return lit(n, n.value)
        if isinstance(n, ast.Name):
            if n.id in self.args:
                if n.id in self.pre.blocks and n.id not in VEC_SYMS:
                    return n.id
                err(n, 'bare use of %s' % n.id)
            m = mangle(n.id)
            if m in env['defined']:
                return m
            if m in env['maybe']:
                err(n, 'variable %s may be unbound here (assigned on one '
                    'path only)' % n.id)
            err(n, 'unknown name %s' % n.id)
        if isinstance(n, ast.Attribute):
            if isinstance(n.value, ast.Name) and n.value.id == 'self':
                self.self_f.add(n.attr)
                return 'self_%s' % n.attr
            err(n, 'unsupported attribute access')
        if isinstance(n, ast.Subscript) and isinstance(n.value, ast.Name):
            base, sl = n.value.id, n.slice
            if base not in self.args:
                err(n, '%s is not a parameter of loop' % base)
            if base.startswith('d_') and isinstance(sl, ast.Name) and sl.id == 'd_idx':
                return base
            if base.startswith('s_') and isinstance(sl, ast.Name) and sl.id == 's_idx':
                return base
            if base.startswith('d_') and isinstance(sl, ast.Constant) and sl.value == 0 \
                    and not isinstance(sl.value, bool):
                self.dconst.add(base)
                return 'dc_%s' % base[2:]
            if base in VEC_SYMS and isinstance(sl, ast.Constant) and sl.value in (0, 1, 2):
                return '%s_%d' % (base, sl.value)
            err(n, 'unsupported subscript %s[...]' % base)
        if isinstance(n, ast.BinOp):
            op = {ast.Add: '+', ast.Sub: '-', ast.Mult: '*', ast.Div: '/'}.get(type(n.op))
            if op is None:
                err(n, 'unsupported operator %s' % type(n.op).__name__)
            if op == '/' and isinstance(n.left, ast.Constant) and \
                    isinstance(n.right, ast.Constant) and \
                    isinstance(n.left.value, int) and isinstance(n.right.value, int):
                err(n, 'int/int literal division (differs between Python and C)')
            return '(%s %s %s)' % (self.E(n.left, env), op, self.E(n.right, env))
        if isinstance(n, ast.UnaryOp):
            if isinstance(n.op, ast.USub):
                return '(-%s)' % self.E(n.operand, env)
            if isinstance(n.op, ast.UAdd):
                return self.E(n.operand, env)
            err(n, 'unsupported unary operator')
        if isinstance(n, ast.Call) and isinstance(n.func, ast.Name) and not n.keywords:
            f, a = n.func.id, n.args
            if f in ('sqrt', 'abs') and len(a) == 1:
                self.uses[f] = True
                return '(o.%s %s)' % (f, self.E(a[0], env))
            if f == 'pow' and len(a) == 2:
                self.uses['pow'] = True
                return '(o.pow %s %s)' % (self.E(a[0], env), self.E(a[1], env))
            if f in ('max', 'min') and len(a) == 2:
                return '(py%s %s %s)' % (f, self.E(a[0], env), self.E(a[1], env))
        err(n, 'unsupported expression: %s' % ast.dump(n)[:100])

    def C(self, n, env):
        """condition"""
        if isinstance(n, ast.Compare) and len(n.ops) == 1:
            l, r = self.E(n.left, env), self.E(n.comparators[0], env)
            op = type(n.ops[0])
            if op is ast.Lt:
                return '(%s < %s)' % (l, r)
            if op is ast.Gt:
                return '(%s < %s)' % (r, l)
            if op is ast.LtE:
                return '(%s ≤ %s)' % (l, r)
            if op is ast.GtE:
                return '(%s ≤ %s)' % (r, l)
            err(n, 'unsupported comparison')
        if isinstance(n, ast.BoolOp):
            j = ' ∧ ' if isinstance(n.op, ast.And) else ' ∨ '
            return '(' + j.join(self.C(v, env) for v in n.values) + ')'
        if isinstance(n, ast.Attribute) and isinstance(n.value, ast.Name) \
                and n.value.id == 'self':
            self.self_b.add(n.attr)
            return '(self_%s = true)' % n.attr
        err(n, 'unsupported condition: %s' % ast.dump(n)[:100])

    # ---- statements
    def assigned(self, stmts):
        out = []
        for st in stmts:
            if isinstance(st, (ast.Assign, ast.AugAssign)):
                ts = st.targets if isinstance(st, ast.Assign) else [st.target]
                if len(ts) != 1:
                    err(st, 'multiple assignment targets')
                v = self.target(ts[0])
                if v not in out:
                    out.append(v)
            elif isinstance(st, ast.If):
                for v in self.assigned(st.body) + self.assigned(st.orelse):
                    if v not in out:
                        out.append(v)
        return out

    def block(self, stmts, env, ind):
        """returns lean lines; env = {'defined': set, 'maybe': set} updated"""
        pad = ' ' * ind
        lines = []
        for st in stmts:
            if isinstance(st, ast.Expr) and isinstance(st.value, ast.Constant) \
                    and isinstance(st.value.value, str):
                continue
            if isinstance(st, ast.Assign):
                if len(st.targets) != 1:
                    err(st, 'multiple assignment targets')
                rhs = self.E(st.value, env)
                v = self.target(st.targets[0])
                lines.append('%slet %s : α := %s' % (pad, v, rhs))
                env['defined'].add(v)
                env['maybe'].discard(v)
            elif isinstance(st, ast.AugAssign):
                op = {ast.Add: '+', ast.Sub: '-', ast.Mult: '*', ast.Div: '/'}.get(type(st.op))
                if op is None:
                    err(st, 'unsupported augmented assignment')
                v = self.target(st.target)
                if v not in env['defined']:
                    err(st, 'augmented assignment to undefined %s' % v)
                # Python evaluates  target op value  with the old target first
                rhs = self.E(st.value, env)
                lines.append('%slet %s : α := (%s %s %s)' % (pad, v, v, op, rhs))
            elif isinstance(st, ast.If):
                cond = self.C(st.test, env)
                e1 = {'defined': set(env['defined']), 'maybe': set(env['maybe'])}
                e2 = {'defined': set(env['defined']), 'maybe': set(env['maybe'])}
                l1 = self.block(st.body, e1, ind + 4)
                l2 = self.block(st.orelse, e2, ind + 4)
                W = self.assigned(st.body)
                for v in self.assigned(st.orelse):
                    if v not in W:
                        W.append(v)
                exp = [v for v in W if v in e1['defined'] and v in e2['defined']]
                for v in W:
                    if v not in exp:
                        env['maybe'].add(v)
                for v in e1['maybe'] | e2['maybe']:
                    if v not in exp and v not in env['defined']:
                        env['maybe'].add(v)
                if not exp:
                    # no effect on anything defined afterwards
                    continue
                tup = '(' + ', '.join(exp) + ')' if len(exp) > 1 else exp[0]
                ty = ' × '.join(['α'] * len(exp))
                if len(exp) == 1:
                    tv = exp[0]
                else:
                    self.tmpn += 1
                    tv = 't%d' % self.tmpn
                lines.append('%slet %s : %s :=' % (pad, tv, ty))
                lines.append('%s  if %s then' % (pad, cond))
                lines += l1
                lines.append('%s    %s' % (pad, tup))
                lines.append('%s  else' % pad)
                lines += l2
                lines.append('%s    %s' % (pad, tup))
                if len(exp) > 1:
                    for i, v in enumerate(exp):
                        proj = '.2' * i + ('.1' if i < len(exp) - 1 else '')
                        lines.append('%slet %s : α := %s%s' % (pad, v, tv, proj))
                for v in exp:
                    env['defined'].add(v)
                    env['maybe'].discard(v)
            elif isinstance(st, ast.Pass):
                continue
            else:
                err(st, 'statement outside the subset: %s' % type(st).__name__)
        return lines

    def run(self):
        # parameters visible as variables from the start
        defined = set()
        for a in self.args[1:]:
            if a.startswith('d_') or a.startswith('s_'):
                defined.add(a)
            elif a in VEC_SYMS:
                defined.update('%s_%d' % (a, i) for i in range(3))
        env = {'defined': defined, 'maybe': set()}
        # the names d_X / s_X are only reachable through subscripts (E checks)
        self.lines = self.block(self.fn.body, env, 2)
        both = self.self_f & self.self_b
        if both:
            raise TErr('self.%s used both as a number and as a flag' % sorted(both)[0])
        if not self.written:
            raise TErr('loop writes no destination property')
        for w in self.written:
            if w in self.dconst:
                raise TErr('%s used both per particle and as array constant' % w)
        self.acc = list(self.written)
        self.d_ro = [a for a in self.args if a.startswith('d_') and a != 'd_idx'
                     and a not in self.written and a not in self.dconst]
        self.dc = [a for a in self.args if a in self.dconst]
        self.s = [a for a in self.args if a.startswith('s_') and a != 's_idx']
        self.pre_s = [a for a in self.args if a in self.pre.blocks and a not in VEC_SYMS]
        self.pre_v = [a for a in self.args if a in VEC_SYMS]
        self.sf = sorted(self.self_f)
        self.sb = sorted(self.self_b)


def check_initialize(cls, acc):
    """initialize must be `d_X[d_idx] = 0.0` statements; returns the list of
    zeroed props or None when the class has no initialize"""
    fn = [n for n in cls.body if isinstance(n, ast.FunctionDef) and n.name == 'initialize']
    if not fn:
        return None
    z = []
    for st in fn[0].body:
        if isinstance(st, ast.Expr) and isinstance(st.value, ast.Constant):
            continue
        ok = (isinstance(st, ast.Assign) and len(st.targets) == 1 and
              isinstance(st.targets[0], ast.Subscript) and
              isinstance(st.targets[0].value, ast.Name) and
              isinstance(st.targets[0].slice, ast.Name) and
              st.targets[0].slice.id == 'd_idx' and
              isinstance(st.value, ast.Constant) and st.value.value == 0.0)
        if not ok:
            err(st, 'initialize is not of the form d_X[d_idx] = 0.0')
        z.append(st.targets[0].value.id)
    return z


# --------------------------------------------------------------------------

def find_class(tree, name):
    for n in tree.body:
        if isinstance(n, ast.ClassDef) and n.name == name:
            return n
    return None


def _writes_d_au(fn):
    for n in ast.walk(fn):
        if isinstance(n, (ast.Assign, ast.AugAssign)):
            ts = n.targets if isinstance(n, ast.Assign) else [n.target]
            for t in ts:
                if isinstance(t, ast.Subscript) and isinstance(t.value, ast.Name) \
                        and t.value.id == 'd_au':
                    return True
    return False


def analyse(repo):
    """returns dict: pre (PreTr), eqs (list of dict), failed (list), scan"""
    blocks, order = read_precomputed(repo)
    pre = PreTr(blocks, order)
    pre.run()
    trees = {}
    for f in ANCHOR_FILES:
        trees[f] = ast.parse(open(os.path.join(repo, f)).read())
    eqs, failed = [], []
    for tag, f, cname, kind, central in EQUATIONS:
        try:
            cls = find_class(trees[f], cname)
            if cls is None:
                raise TErr('class %s not found in %s' % (cname, f))
            fn = [n for n in cls.body if isinstance(n, ast.FunctionDef) and n.name == 'loop']
            if len(fn) != 1:
                raise TErr('%s.%s has no loop' % (f, cname))
            tr = LoopTr(tag, fn[0], pre)
            tr.run()
            iz = check_initialize(cls, tr.acc)
            eqs.append({
                'tag': tag, 'file': f, 'cls': cname, 'kind': kind,
                'central': central, 'line': fn[0].lineno, 'tr': tr,
                'sf': tr.sf, 'sb': tr.sb, 'acc': tr.acc, 'd_ro': tr.d_ro,
                'dc': tr.dc, 's': tr.s, 'pre_s': tr.pre_s, 'pre_v': tr.pre_v,
                'init_zero': iz, 'uses': dict(tr.uses),
                'args': tr.args[1:],
            })
        except TErr as e:
            failed.append((tag, f, cname, str(e)))
    # completeness scan: every class whose loop takes d_au is classified
    listed = {(f, c) for _, f, c, _, _ in EQUATIONS} | {(f, c) for f, c, _ in OUT_OF_SCOPE}
    unlisted = []
    for f, tree in trees.items():
        for n in tree.body:
            if not isinstance(n, ast.ClassDef):
                continue
            for m in n.body:
                if isinstance(m, ast.FunctionDef) and m.name == 'loop' and \
                        _writes_d_au(m):
                    if (f, n.name) not in listed:
                        unlisted.append((f, n.name))
    for f, c in unlisted:
        failed.append(('-', f, c, 'momentum equation (loop writes d_au) is neither '
                       'in EQUATIONS nor in OUT_OF_SCOPE'))
    # particle record fields
    pf = set(pre.pfields)
    for e in eqs:
        for a in e['d_ro'] + e['s']:
            pf.add(a[2:])
        for a in e['dc']:
            pf.add('c_' + a[2:])
    return {'pre': pre, 'eqs': eqs, 'failed': failed,
            'pfields': sorted(pf), 'out_of_scope': OUT_OF_SCOPE}


def public_meta(info):
    """JSON-able description for the harness / evidence"""
    return {
        'pfields': info['pfields'],
        'handled': [{k: e[k] for k in ('tag', 'file', 'cls', 'kind', 'central',
                                       'sf', 'sb', 'acc', 'd_ro', 'dc', 's',
                                       'pre_s', 'pre_v', 'init_zero', 'uses',
                                       'args', 'line')}
                    for e in info['eqs']],
        'failed': [list(x) for x in info['failed']],
        'out_of_scope': [list(x) for x in info['out_of_scope']],
        'precomputed': info['pre'].topo,
    }


def pfield_of(a):
    return a[2:]


def generate(info):
    pre = info['pre']
    L = []
    A = L.append
    A('/-')
    A('GENERATED by translate/c09_equations2lean.py from the `loop` bodies of')
    for e in info['eqs']:
        A('  %s.%s (line %d) as %s' % (e['file'], e['cls'], e['line'], e['tag']))
    A('and the code strings of pysph/sph/equation.py::precomputed_symbols() — do not')
    A('edit; rewritten on every `./check C09`.  Statement by statement, float')
    A('arithmetic in source order.  Dropped: docstrings.  Classified as out of scope')
    A('(not translated): ' + '; '.join('%s.%s (%s)' % x for x in info['out_of_scope']))
    A('-/')
    A('import PysphVerif.Model.PairSym')
    A('set_option linter.unusedVariables false')
    A('namespace PysphVerif.Gen.C09')
    A('open PysphVerif.PairSym')
    A('')
    A('/-- one particle: every property / array constant (`c_*`) that a precomputed')
    A('symbol or a handled `loop` reads -/')
    A('structure P (α : Type) where')
    for f in info['pfields']:
        A('  %s : α' % f)
    A('')
    A('def P.nfields : Nat := %d' % len(info['pfields']))
    A('def P.fieldNames : List String := [%s]' % ', '.join('"%s"' % f for f in info['pfields']))
    A('def P.ofList {α : Type} (z : α) (l : List α) : P α :=')
    A('  ⟨' + ', '.join('nth z l %d' % i for i in range(len(info['pfields']))) + '⟩')
    A('')
    A('section')
    A('variable {α : Type} [Add α] [Sub α] [Mul α] [Div α] [Neg α] [NatCast α]')
    A('  [LT α] [LE α] [DecidableLT α] [DecidableLE α]')
    A('')
    A('/-! ## precomputed symbols (equation.py) for destination `a`, source `b` -/')
    for sym in pre.topo:
        for nm in pre.comp[sym]:
            A('/-- `%s` -/' % nm[4:])
            A('def %s (o : Ops α) (k : Kern α) (a b : P α) : α :=' % nm)
            A('  %s' % pre.defs[nm])
    A('')
    for e in info['eqs']:
        tr = e['tr']
        tag = e['tag']
        A('/-! ## %s.%s -/' % (e['file'], e['cls']))
        A('structure Out_%s (α : Type) where' % tag)
        for w in e['acc']:
            A('  %s : α' % w)
        A('def Out_%s.toList {α : Type} (r : Out_%s α) : List α := [%s]'
          % (tag, tag, ', '.join('r.%s' % w for w in e['acc'])))
        A('def Out_%s.ofList {α : Type} (z : α) (l : List α) : Out_%s α := ⟨%s⟩'
          % (tag, tag, ', '.join('nth z l %d' % i for i in range(len(e['acc'])))))
        params = []
        params += ['(self_%s : α)' % s for s in e['sf']]
        params += ['(self_%s : Bool)' % s for s in e['sb']]
        params += ['(%s : α)' % w for w in e['acc']]
        params += ['(%s : α)' % w for w in e['d_ro']]
        params += ['(dc_%s : α)' % w[2:] for w in e['dc']]
        params += ['(%s : α)' % w for w in e['s']]
        params += ['(%s : α)' % w for w in e['pre_s']]
        params += ['(%s_%d : α)' % (w, i) for w in e['pre_v'] for i in range(3)]
        A('/-- `%s.loop`, %s line %d -/' % (e['cls'], e['file'], e['line']))
        A('def loop_%s (o : Ops α) %s : Out_%s α :=' % (tag, ' '.join(params), tag))
        L.extend(tr.lines)
        A('  ⟨' + ', '.join(e['acc']) + '⟩')
        A('/-- one neighbour-loop step of `%s` for the pair (destination `a`, source `b`) -/' % e['cls'])
        sp = ' '.join(['(self_%s : α)' % s for s in e['sf']] +
                      ['(self_%s : Bool)' % s for s in e['sb']])
        A('def pair_%s (o : Ops α) (k : Kern α) %s (acc : Out_%s α) (a b : P α) : Out_%s α :='
          % (tag, sp, tag, tag))
        call = ['self_%s' % s for s in e['sf'] + e['sb']]
        call += ['acc.%s' % w for w in e['acc']]
        call += ['a.%s' % w[2:] for w in e['d_ro']]
        call += ['a.c_%s' % w[2:] for w in e['dc']]
        call += ['b.%s' % w[2:] for w in e['s']]
        call += ['(pre_%s o k a b)' % w for w in e['pre_s']]
        call += ['(pre_%s_%d o k a b)' % (w, i) for w in e['pre_v'] for i in range(3)]
        A('  loop_%s o %s' % (tag, ' '.join(call)))
        iz = e['init_zero']
        A('/-- properties `initialize` sets to 0.0 (`none`: the class has no initialize) -/')
        A('def initZero_%s : Option (List String) := %s' % (
            tag, 'none' if iz is None else 'some [%s]' % ', '.join('"%s"' % x for x in iz)))
        A('')
    # dispatchers
    A('/-! ## dispatchers for the driver (lengths are checked, `z` is never observed) -/')
    A('def runLoop (o : Ops α) (z : α) (tag : String) (sf : List α) (sb : List Bool)')
    A('    (acc d dc s pre : List α) : Option (List α) :=')
    for e in info['eqs']:
        tag = e['tag']
        npre = len(e['pre_s']) + 3 * len(e['pre_v'])
        A('  if tag = "%s" then' % tag)
        A('    if sf.length = %d ∧ sb.length = %d ∧ acc.length = %d ∧ d.length = %d ∧ dc.length = %d ∧ s.length = %d ∧ pre.length = %d then'
          % (len(e['sf']), len(e['sb']), len(e['acc']), len(e['d_ro']),
             len(e['dc']), len(e['s']), npre))
        call = ['(nth z sf %d)' % i for i in range(len(e['sf']))]
        call += ['(sb.getD %d false)' % i for i in range(len(e['sb']))]
        call += ['(nth z acc %d)' % i for i in range(len(e['acc']))]
        call += ['(nth z d %d)' % i for i in range(len(e['d_ro']))]
        call += ['(nth z dc %d)' % i for i in range(len(e['dc']))]
        call += ['(nth z s %d)' % i for i in range(len(e['s']))]
        call += ['(nth z pre %d)' % i for i in range(npre)]
        A('      some (loop_%s o %s).toList' % (tag, ' '.join(call)))
        A('    else none')
        A('  else')
    A('  none')
    A('')
    A('def runPair (o : Ops α) (k : Kern α) (z : α) (tag : String) (sf : List α) (sb : List Bool)')
    A('    (acc pa pb : List α) : Option (List α) :=')
    A('  if pa.length ≠ P.nfields ∨ pb.length ≠ P.nfields then none else')
    for e in info['eqs']:
        tag = e['tag']
        A('  if tag = "%s" then' % tag)
        A('    if sf.length = %d ∧ sb.length = %d ∧ acc.length = %d then'
          % (len(e['sf']), len(e['sb']), len(e['acc'])))
        call = ['(nth z sf %d)' % i for i in range(len(e['sf']))]
        call += ['(sb.getD %d false)' % i for i in range(len(e['sb']))]
        A('      some (pair_%s o k %s (Out_%s.ofList z acc) (P.ofList z pa) (P.ofList z pb)).toList'
          % (tag, ' '.join(call), tag))
        A('    else none')
        A('  else')
    A('  none')
    A('')
    A('/-- value of every precomputed symbol for the pair, in `preNames` order -/')
    names = [nm for sym in pre.topo for nm in pre.comp[sym]]
    A('def preNames : List String := [%s]' % ', '.join('"%s"' % n[4:] for n in names))
    A('def runPre (o : Ops α) (k : Kern α) (z : α) (pa pb : List α) : Option (List α) :=')
    A('  if pa.length ≠ P.nfields ∨ pb.length ≠ P.nfields then none else')
    A('  some [%s]' % ', '.join('%s o k (P.ofList z pa) (P.ofList z pb)' % n for n in names))
    A('')
    A('end')
    A('')
    A('def handledTags : List String := [%s]' % ', '.join('"%s"' % e['tag'] for e in info['eqs']))
    A('')
    A('end PysphVerif.Gen.C09')
    return '\n'.join(L) + '\n'


def main():
    ap = argparse.ArgumentParser()
    ap.add_argument('--repo', required=True)
    ap.add_argument('--out', required=True)
    ap.add_argument('--meta', action='store_true')
    a = ap.parse_args()
    try:
        info = analyse(a.repo)
    except TErr as e:
        print('c09_equations2lean: FAILED: %s' % e)
        return 1
    if a.meta:
        print(json.dumps(public_meta(info), indent=1))
        return 0
    text = generate(info)
    changed = vlib.write_if_changed(os.path.join(a.out, 'C09Equations.lean'), text)
    print('c09_equations2lean: %d equations handled (%s), %d out of scope, '
          '%d precomputed symbols -> Gen/C09Equations.lean%s'
          % (len(info['eqs']), ' '.join(e['tag'] for e in info['eqs']),
             len(info['out_of_scope']), len(info['pre'].topo),
             ' (changed)' if changed else ''))
    for tag, f, c, why in info['failed']:
        print('c09_equations2lean: FAILED %s %s.%s: %s' % (tag, f, c, why))
    return 1 if info['failed'] else 0


if __name__ == '__main__':
    sys.exit(main())
