"""c05_rw_sets — regenerate lean/PysphVerif/Gen/C05Discipline.lean from the
sources of every shipped `Equation` subclass under pysph/sph  (property C05).

    python translate/c05_rw_sets.py --repo <repo> --out lean/PysphVerif/Gen

For every class that (transitively, by base-class name inside pysph/sph)
derives from `pysph.sph.equation.Equation`, and for each of the per-particle
hooks the generated code runs inside a `prange` over `d_idx`
(`initialize`, `initialize_pair`, `loop_all`, `loop`, `post_loop`; the nearest
definition along the bases), the Python `ast` of the hook gives

  * dWritesOwn   destination properties assigned at `[d_idx]`, at
                 `[k*d_idx + ...]` (the strided row of d_idx) or at a local that
                 was computed that way;
  * dWritesOther destination properties assigned at any other index
                 (`d_idx + 1`, a loop counter, `s_idx`, an unrecognised form);
  * sWrites      source properties assigned (any index);
  * sReads       source properties read (any index);
  * dReadsOther  destination properties read at an index that is not the own row;
  * escapes      d_*/s_* arrays used other than subscripted (handed to a helper).

The rule itself (`hookOk`, Model/Determinism.lean) is evaluated by Lean, not
here.  Classes that break the rule for a reason are listed in EXCEPTIONS below
with that reason; a class that breaks it and is not listed makes the theorem
`own_row_discipline_table` fail, a listed class that no longer breaks it makes
`exceptions_are_real` fail.

Outside the subset (translator exits non-zero, nothing is skipped): a d_*/s_*
argument that is re-bound, deleted, or assigned through anything but a plain
subscript; a hook that uses `global`/`nonlocal`/`exec`/`eval`.
"""
import argparse
import ast
import os
import sys

sys.path.insert(0, os.path.join(os.path.dirname(os.path.abspath(__file__)),
                                '..', 'lib'))
import vlib  # noqa: E402

HOOKS = ['initialize', 'initialize_pair', 'loop_all', 'loop', 'post_loop']
SERIAL_HOOKS = ['reduce', 'converged', 'py_initialize']

# class -> why it may break the syntactic rule.  Keep in step with the source:
# both directions are checked by Lean.
_A = ('extrapolation onto a boundary/ghost array: used with dest != source (sources are the fluid arrays, dest a solid/inlet/outlet/bed array), so the source rows read are not written by this loop; same-array use would be schedule dependent')
_B = ('ghost copy: writes only rows guarded by tag == ghost and reads the row d_orig_idx of the original real particle, which this hook never writes')
_C = ('own strided row with an offset the translator cannot classify (data dependent counter or shifted history buffer inside the row of d_idx)')
_D = ('writes the SOURCE array (reaction force accumulated on the other body): several destinations share a source row - a data race under OpenMP, results are NOT schedule independent; outside the discipline (finding, see report)')
_E = ('reads rows of the same array that this hook writes concurrently when dest == source (particle shifting): schedule dependent under OpenMP; outside the discipline (finding, see report)')
_F = ('whole-array maximum kept in slot 0 of a destination property and updated from every row (benign max race); not an own-row write')
_G = ('pairwise merge protocol: reads the partner row of a mutually closest pair, writes guarded by d_idx < partner; not covered by the syntactic rule')
EXCEPTIONS = {
    'pysph.sph.bc.characteristic.simple_inlet_outlet.ShepardInterpolateCharacteristics': _A,
    'pysph.sph.bc.hybrid.simple_inlet_outlet.CopyTimeValues': _C,
    'pysph.sph.bc.hybrid.simple_inlet_outlet.ShepardInterpolateCharacteristics': _A,
    'pysph.sph.bc.inlet_outlet_manager.CopyNormalsandDistances': _A,
    'pysph.sph.bc.interpolate.CopyPFromGhost': _A,
    'pysph.sph.bc.interpolate.CopyUFromGhost': _A,
    'pysph.sph.bc.interpolate.CopyUhatFromGhost': _A,
    'pysph.sph.gas_dynamics.basic.ADKEUpdateGhostProps': _B,
    'pysph.sph.gas_dynamics.basic.MPMUpdateGhostProps': _B,
    'pysph.sph.gas_dynamics.boundary_equations.WallBoundary': _A,
    'pysph.sph.gas_dynamics.gsph.GSPHUpdateGhostProps': _B,
    'pysph.sph.gas_dynamics.magma2.UpdateGhostProps': _B,
    'pysph.sph.gas_dynamics.magma2.WallBoundary': _A,
    'pysph.sph.gas_dynamics.psph.GradientKinsfolkC1': _C,
    'pysph.sph.gas_dynamics.psph.UpdateGhostProps': _B,
    'pysph.sph.gas_dynamics.psph.WallBoundary': _A,
    'pysph.sph.gas_dynamics.tsph.UpdateGhostProps': _B,
    'pysph.sph.gas_dynamics.tsph.WallBoundary': _A,
    'pysph.sph.iisph.UpdateGhostPressure': _B,
    'pysph.sph.iisph.UpdateGhostProps': _B,
    'pysph.sph.isph.isph.PressureCoeffMatrix': _C,
    'pysph.sph.isph.sisph.PPESolve': _F,
    'pysph.sph.isph.sisph.SetPressureSolid': _A,
    'pysph.sph.isph.sisph.UpdateGhostPressure': _B,
    'pysph.sph.rigid_body.AkinciRigidFluidCoupling': _D,
    'pysph.sph.rigid_body.LiuFluidForce': _D,
    'pysph.sph.rigid_body.PressureRigidBody': _D,
    'pysph.sph.rigid_body.ViscosityRigidBody': _D,
    'pysph.sph.surface_tension.SolidWallPressureBCnoDensity': _A,
    'pysph.sph.swe.basic.BedFrictionSourceEval': _A,
    'pysph.sph.swe.basic.FindMergeable': _G,
    'pysph.sph.swe.basic.FluidBottomCurvature': _A,
    'pysph.sph.swe.basic.FluidBottomElevation': _A,
    'pysph.sph.swe.basic.FluidBottomGradient': _A,
    'pysph.sph.swe.basic.ParticleAcceleration': _D,
    'pysph.sph.wc.crksph.CRKSPHUpdateGhostProps': _B,
    'pysph.sph.wc.edac.NoSlipAdvVelocityExtrapolation': _A,
    'pysph.sph.wc.edac.NoSlipVelocityExtrapolation': _A,
    'pysph.sph.wc.edac.SolidWallPressureBC': _A,
    'pysph.sph.wc.shift.FickianShift': _E,
    'pysph.sph.wc.shift.SimpleShift': _E,
    'pysph.sph.wc.transport_velocity.SolidWallPressureBC': _A,
}


class TErr(Exception):
    pass


def iter_sources(repo):
    root = os.path.join(repo, 'pysph', 'sph')
    for d, dirs, files in os.walk(root):
        dirs[:] = sorted(x for x in dirs if x not in ('tests', '__pycache__'))
        for f in sorted(files):
            if f.endswith('.py'):
                yield os.path.join(d, f)


def modname(repo, path):
    rel = os.path.relpath(path, repo)[:-3]
    return rel.replace(os.sep, '.')


def base_name(b):
    if isinstance(b, ast.Name):
        return b.id
    if isinstance(b, ast.Attribute):
        return b.attr
    return None


def collect_classes(repo):
    classes = {}      # qualified name -> dict(bases=[simple], methods={}, mod=)
    for path in iter_sources(repo):
        src = open(path).read()
        try:
            tree = ast.parse(src)
        except SyntaxError as e:
            raise TErr('%s does not parse: %s' % (path, e))
        mod = modname(repo, path)
        for node in tree.body:
            if isinstance(node, ast.ClassDef):
                meths = {n.name: n for n in node.body
                         if isinstance(n, ast.FunctionDef)}
                classes['%s.%s' % (mod, node.name)] = dict(
                    name=node.name, mod=mod, path=path,
                    bases=[base_name(b) for b in node.bases], methods=meths)
    return classes


def resolve(classes, mod, simple):
    """qualified name of the class a base-class name refers to"""
    q = '%s.%s' % (mod, simple)
    if q in classes:
        return q
    cands = sorted(k for k, v in classes.items() if v['name'] == simple)
    return cands[0] if cands else None


def equation_classes(classes):
    root = 'pysph.sph.equation.Equation'
    if root not in classes:
        raise TErr('pysph/sph/equation.py has no class Equation')
    eq = {root}
    changed = True
    while changed:
        changed = False
        for q, c in classes.items():
            if q in eq:
                continue
            for b in c['bases']:
                if b is None:
                    continue
                r = resolve(classes, c['mod'], b)
                if r in eq:
                    eq.add(q)
                    changed = True
                    break
    eq.discard(root)
    return sorted(eq)


def effective(classes, q, hook, seen=None):
    seen = seen or set()
    if q in seen or q not in classes:
        return None
    seen.add(q)
    c = classes[q]
    if hook in c['methods']:
        return c['methods'][hook], q
    for b in c['bases']:
        if b is None:
            continue
        r = resolve(classes, c['mod'], b)
        if r:
            got = effective(classes, r, hook, seen)
            if got:
                return got
    return None


# --------------------------------------------------------------------------
# index classification

def names_in(e):
    return {n.id for n in ast.walk(e) if isinstance(n, ast.Name)}


class HookAnalysis:
    def __init__(self, fn, where):
        self.fn = fn
        self.where = where
        self.args = [a.arg for a in fn.args.args]
        self.darr = {a for a in self.args if a.startswith('d_') and a != 'd_idx'}
        self.sarr = {a for a in self.args if a.startswith('s_') and a != 's_idx'}
        self.counters = set()
        self.kind = {}        # local name -> kind
        self._scan_locals()

    # kinds: 'didx' exactly d_idx; 'scaled' k*d_idx (+ offsets);
    # 'offset' d_idx + something (unscaled); 'free' no d_idx, no foreign;
    # 'foreign' mentions s_idx / NBRS / unknown locals
    def classify(self, e):
        if isinstance(e, ast.Constant):
            return 'free'
        if isinstance(e, ast.Attribute):
            return 'free'                 # self.attr: a constant of the equation
        if isinstance(e, ast.Name):
            if e.id == 'd_idx':
                return 'didx'
            if e.id in self.kind:
                return self.kind[e.id]
            if e.id in self.counters:
                return 'free'
            return 'foreign'
        if isinstance(e, ast.UnaryOp):
            k = self.classify(e.operand)
            return 'free' if k == 'free' else 'foreign'
        if isinstance(e, ast.BinOp):
            a, b = self.classify(e.left), self.classify(e.right)
            if 'foreign' in (a, b):
                return 'foreign'
            if a == 'free' and b == 'free':
                return 'free'
            if isinstance(e.op, ast.Mult):
                if (a in ('didx', 'scaled') and b == 'free') or \
                        (b in ('didx', 'scaled') and a == 'free'):
                    return 'scaled'
                return 'foreign'
            if isinstance(e.op, (ast.Add, ast.Sub)):
                own, oth = (a, b) if a != 'free' else (b, a)
                if oth != 'free':
                    return 'foreign'
                if isinstance(e.op, ast.Sub) and a == 'free':
                    return 'foreign'
                if own == 'scaled':
                    return 'scaled'
                zero = (b if a != 'free' else a)
                rhs = e.right if a != 'free' else e.left
                if isinstance(rhs, ast.Constant) and rhs.value == 0:
                    return own
                return 'offset'
            return 'foreign'
        if isinstance(e, ast.Call) and isinstance(e.func, ast.Name) and \
                e.func.id in ('int', 'long') and len(e.args) == 1:
            return self.classify(e.args[0])
        return 'foreign'

    def _scan_locals(self):
        fn = self.fn
        for n in ast.walk(fn):
            if isinstance(n, (ast.Global, ast.Nonlocal)):
                raise TErr('%s: global/nonlocal in a hook' % self.where)
            if isinstance(n, ast.Call) and isinstance(n.func, ast.Name) and \
                    n.func.id in ('exec', 'eval'):
                raise TErr('%s: exec/eval in a hook' % self.where)
            if isinstance(n, ast.For) and isinstance(n.target, ast.Name):
                self.counters.add(n.target.id)
        # locals assigned from d_idx-derived expressions; a local assigned
        # twice with different kinds becomes foreign
        assigns = []
        for n in ast.walk(fn):
            if isinstance(n, ast.Assign) and len(n.targets) == 1 and \
                    isinstance(n.targets[0], ast.Name):
                assigns.append((n.targets[0].id, n.value))
            elif isinstance(n, ast.AugAssign) and isinstance(n.target, ast.Name):
                assigns.append((n.target.id, ast.BinOp(
                    left=ast.Name(id=n.target.id, ctx=ast.Load()), op=n.op,
                    right=n.value)))
        for _ in range(6):
            new = {}
            for name, val in assigns:
                if isinstance(val, ast.Call) and isinstance(val.func, ast.Name) \
                        and val.func.id == 'declare':
                    continue
                k = self.classify(val)
                if name in self.counters and k == 'free':
                    continue
                if name in new and new[name] != k:
                    new[name] = 'foreign'
                else:
                    new[name] = k
            new = {k: v for k, v in new.items() if v != 'free' or True}
            if new == self.kind:
                break
            self.kind = new
        # locals that only ever hold d_idx-free, foreign-free values are 'free'

    def run(self):
        fn = self.fn
        arrs = self.darr | self.sarr
        res = dict(dWritesOwn=set(), dWritesOther=set(), sWrites=set(),
                   sReads=set(), dReadsOther=set(), escapes=set())
        sub_values = set()

        def target(t):
            if isinstance(t, (ast.Tuple, ast.List)):
                for x in t.elts:
                    target(x)
                return
            if isinstance(t, ast.Name):
                if t.id in arrs:
                    raise TErr('%s: particle array %s is re-bound'
                               % (self.where, t.id))
                return
            if isinstance(t, ast.Subscript):
                v = t.value
                if isinstance(v, ast.Name) and v.id in arrs:
                    sub_values.add(id(v))
                    k = self.classify(t.slice)
                    if v.id in self.darr:
                        if k in ('didx', 'scaled'):
                            res['dWritesOwn'].add(v.id[2:])
                        else:
                            res['dWritesOther'].add(v.id[2:])
                    else:
                        res['sWrites'].add(v.id[2:])
                return
            if isinstance(t, ast.Starred):
                target(t.value)
                return
            if isinstance(t, ast.Attribute):
                return
            raise TErr('%s: unsupported assignment target %s'
                       % (self.where, ast.dump(t)[:80]))

        for n in ast.walk(fn):
            if isinstance(n, ast.Assign):
                for t in n.targets:
                    target(t)
            elif isinstance(n, ast.AugAssign):
                target(n.target)
            elif isinstance(n, ast.AnnAssign):
                target(n.target)
            elif isinstance(n, ast.Delete):
                for t in n.targets:
                    if names_in(t) & arrs:
                        raise TErr('%s: del of a particle array' % self.where)
        for n in ast.walk(fn):
            if isinstance(n, ast.Subscript) and isinstance(n.value, ast.Name) \
                    and n.value.id in arrs:
                sub_values.add(id(n.value))
                is_load = isinstance(n.ctx, ast.Load)
                if n.value.id in self.sarr:
                    if is_load:
                        res['sReads'].add(n.value.id[2:])
                else:
                    k = self.classify(n.slice)
                    if is_load and k not in ('didx', 'scaled'):
                        res['dReadsOther'].add(n.value.id[2:])
        # an augmented assignment reads its target too (own row or not: the
        # write classification already covers it; a source target is a read)
        for n in ast.walk(fn):
            if isinstance(n, ast.AugAssign) and isinstance(n.target, ast.Subscript):
                v = n.target.value
                if isinstance(v, ast.Name) and v.id in self.sarr:
                    res['sReads'].add(v.id[2:])
        for n in ast.walk(fn):
            if isinstance(n, ast.Name) and n.id in arrs and id(n) not in sub_values:
                res['escapes'].add(n.id[2:])
        return res


def main():
    ap = argparse.ArgumentParser()
    ap.add_argument('--repo', required=True)
    ap.add_argument('--out', required=True)
    ap.add_argument('--report', action='store_true')
    a = ap.parse_args()
    try:
        classes = collect_classes(a.repo)
        eqs = equation_classes(classes)
        rows = []
        props = {}
        nserial = 0

        def pid(p):
            return props.setdefault(p, len(props))
        for q in eqs:
            hooks = []
            for hi, h in enumerate(HOOKS):
                got = effective(classes, q, h)
                if not got:
                    continue
                fn, owner = got
                if owner == 'pysph.sph.equation.Equation':
                    continue
                r = HookAnalysis(fn, '%s.%s (defined in %s, line %d)'
                                 % (q, h, owner, fn.lineno)).run()
                hooks.append((hi, {k: sorted(v) for k, v in r.items()}))
            for h in SERIAL_HOOKS:
                got = effective(classes, q, h)
                if got and got[1] != 'pysph.sph.equation.Equation':
                    nserial += 1
            rows.append((q, hooks))
        for q, hooks in rows:
            for hi, r in hooks:
                for k in ('dWritesOwn', 'dWritesOther', 'sWrites', 'sReads',
                          'dReadsOther', 'escapes'):
                    for p in r[k]:
                        pid(p)
        unknown = sorted(set(EXCEPTIONS) - set(eqs))
        if unknown:
            raise TErr('EXCEPTIONS names classes that do not exist: %s' % unknown)
    except TErr as e:
        print('c05_rw_sets: ' + str(e))
        sys.exit(1)

    def nl(xs):
        return '[' + ', '.join(str(props[x]) for x in xs) + ']'

    def bad(r):
        w = set(r['dWritesOwn'])
        return bool(r['dWritesOther'] or r['sWrites'] or r['escapes'] or
                    (w & set(r['sReads'])) or (w & set(r['dReadsOther'])))
    out = []
    out.append('import PysphVerif.Model.Determinism')
    out.append('/-!')
    out.append('GENERATED by translate/c05_rw_sets.py from pysph/sph/**/*.py — do not edit.')
    out.append('%d Equation subclasses, %d per-particle hooks, %d serial hooks '
               '(reduce/converged/py_initialize, not run inside prange).'
               % (len(rows), sum(len(h) for _, h in rows), nserial))
    out.append('')
    out.append('property ids: ' + ', '.join(
        '%d=%s' % (i, p) for p, i in sorted(props.items(), key=lambda x: x[1])))
    out.append('-/')
    out.append('namespace PysphVerif.Gen.C05Discipline')
    out.append('open PysphVerif.Determinism')
    out.append('')
    out.append('def table : List EqRW := [')
    lines = []
    nviol = 0
    for i, (q, hooks) in enumerate(rows):
        hs = []
        for hi, r in hooks:
            hs.append('⟨%d, %s, %s, %s, %s, %s, %s⟩' % (
                hi, nl(r['dWritesOwn']), nl(r['dWritesOther']),
                nl(r['sWrites']), nl(r['sReads']), nl(r['dReadsOther']),
                nl(r['escapes'])))
        v = any(bad(r) for _, r in hooks)
        nviol += v
        lines.append('  -- %d %s%s\n  ⟨%d, [%s]⟩' % (
            i, q, '   (exception)' if v else '', i,
            (',\n      ' if len(hs) > 1 else ', ').join(hs)))
        if a.report and v:
            for hi, r in hooks:
                if bad(r):
                    print('VIOLATES', q, HOOKS[hi],
                          {k: x for k, x in r.items() if x})
    out.append(',\n'.join(lines))
    out.append(']')
    out.append('')
    out.append('/-- classes allowed to break the syntactic rule, each with its reason -/')
    out.append('def exceptions : List Nat := [')
    idx = {q: i for i, (q, _) in enumerate(rows)}
    ex = []
    for q in sorted(EXCEPTIONS):
        ex.append('  -- %s: %s\n  %d' % (q, EXCEPTIONS[q].replace('\n', ' '), idx[q]))
    out.append(',\n'.join(ex))
    out.append(']')
    out.append('')
    out.append('def rowOk (e : EqRW) : Bool := eqOk e || exceptions.contains e.eqId')
    out.append('')
    out.append('def exceptionIsReal (x : Nat) : Bool :=')
    out.append('  table.any (fun e => e.eqId == x && !eqOk e)')
    out.append('')
    out.append('end PysphVerif.Gen.C05Discipline')
    text = '\n'.join(out) + '\n'
    path = os.path.join(a.out, 'C05Discipline.lean')
    ch = vlib.write_if_changed(path, text)
    print('c05_rw_sets: %d equations, %d hooks, %d break the rule, %d listed '
          'exceptions; %s %s' % (len(rows), sum(len(h) for _, h in rows), nviol,
                                 len(EXCEPTIONS),
                                 'wrote' if ch else 'unchanged', path))


if __name__ == '__main__':
    main()
