"""timestep2lean: `one_timestep` of every Integrator subclass -> Gen/Timesteps.lean

Reads (Python `ast`, nothing is imported or executed) every `*.py` under
<repo>/pysph and emits

  * for every class that derives (transitively) from
    pysph.sph.integrator.Integrator the body of the `one_timestep` it uses, as
    a `Program` over {initialize, stage k, computeAccelerations i upd,
    updateDomain, doPostStage e k}  (PysphVerif.Model.Stepper);
  * for every class that derives from
    pysph.sph.integrator_step.IntegratorStep what `hasattr` answers for
    `initialize`, `stage<k>`, `py_initialize`, `py_stage<k>` (`StepperSig`).

Subset of `one_timestep` bodies handled: a docstring, `pass`, statements
`self.<call>(...)` with <call> one of initialize / stage<k> /
compute_accelerations(index=<int>, update_nnps=<bool>) / update_domain /
do_post_stage(<expr>, <int>) where <expr> is arithmetic (+ - * / unary -)
over `t`, `dt` and numeric literals, and `for <v> in range(<int>)` loops over
such statements that do not mention <v> (unrolled).  Anything else makes the
translator FAIL (exit 1); nothing is skipped.

The module is also imported by harness/c04.py (`parse_one_timestep`,
`wire_program`, `scan`) so that generated integrators go through the same
translation as the shipped ones.
"""
import argparse
import ast
import os
import re
import sys
import warnings
from fractions import Fraction

ROOT_INTEGRATOR = 'pysph.sph.integrator.Integrator'
ROOT_STEP = 'pysph.sph.integrator_step.IntegratorStep'
STAGE_RE = re.compile(r'^stage(\d+)$')


class Unsupported(Exception):
    pass


# --------------------------------------------------------------------------
# expressions and programs (plain Python data)
#   expr : ('dt',) | ('t',) | ('lit', num, den) | (op, a, b) | ('neg', a)
#   cmd  : ('I',) | ('S', k) | ('A', index, upd) | ('D',) | ('P', expr, k)

def _lit(v):
    if isinstance(v, bool) or not isinstance(v, (int, float)):
        raise Unsupported('literal %r' % (v,))
    f = Fraction(float(v))
    if float(v) != v:
        raise Unsupported('integer literal %r is not a double' % (v,))
    return ('lit', f.numerator, f.denominator)


def _is_int_lit(node):
    return isinstance(node, ast.Constant) and isinstance(node.value, int) \
        and not isinstance(node.value, bool)


def conv_expr(node, where):
    if isinstance(node, ast.Name):
        if node.id == 'dt':
            return ('dt',)
        if node.id == 't':
            return ('t',)
        raise Unsupported('%s: name %r in a stage_dt expression' % (where, node.id))
    if isinstance(node, ast.Constant):
        return _lit(node.value)
    if isinstance(node, ast.UnaryOp):
        if isinstance(node.op, ast.USub):
            return ('neg', conv_expr(node.operand, where))
        if isinstance(node.op, ast.UAdd):
            return conv_expr(node.operand, where)
    if isinstance(node, ast.BinOp):
        ops = {ast.Add: 'add', ast.Sub: 'sub', ast.Mult: 'mul', ast.Div: 'div'}
        for k, v in ops.items():
            if isinstance(node.op, k):
                if v == 'div' and _is_int_lit(node.left) and _is_int_lit(node.right):
                    raise Unsupported('%s: int/int division in a stage_dt '
                                      'expression (C and Python differ)' % where)
                return (v, conv_expr(node.left, where), conv_expr(node.right, where))
    raise Unsupported('%s: expression %s' % (where, ast.dump(node)))


def _const(node, types, where):
    if isinstance(node, ast.Constant) and isinstance(node.value, types):
        if types is int and isinstance(node.value, bool):
            raise Unsupported('%s: bool where an int is expected' % where)
        return node.value
    raise Unsupported('%s: constant of type %s expected, got %s'
                      % (where, types, ast.dump(node)))


def _mentions(node, name):
    return any(isinstance(n, ast.Name) and n.id == name for n in ast.walk(node))


def conv_stmt(st, where, selfname):
    """-> list of cmds"""
    loc = '%s:%d' % (where, getattr(st, 'lineno', 0))
    if isinstance(st, ast.Pass):
        return []
    if isinstance(st, ast.Expr) and isinstance(st.value, ast.Constant) \
            and isinstance(st.value.value, str):
        return []                       # docstring / string statement
    if isinstance(st, ast.For):
        if st.orelse or not isinstance(st.target, ast.Name):
            raise Unsupported('%s: for/else or tuple target' % loc)
        it = st.iter
        if not (isinstance(it, ast.Call) and isinstance(it.func, ast.Name)
                and it.func.id == 'range' and len(it.args) == 1
                and not it.keywords):
            raise Unsupported('%s: loop is not `for v in range(<int>)`' % loc)
        n = _const(it.args[0], int, loc)
        if n < 0 or n > 64:
            raise Unsupported('%s: range bound %d' % (loc, n))
        body = []
        for b in st.body:
            if _mentions(b, st.target.id):
                raise Unsupported('%s: loop variable used in the body' % loc)
            body += conv_stmt(b, where, selfname)
        return body * n
    if not (isinstance(st, ast.Expr) and isinstance(st.value, ast.Call)):
        raise Unsupported('%s: statement %s' % (loc, type(st).__name__))
    call = st.value
    f = call.func
    if not (isinstance(f, ast.Attribute) and isinstance(f.value, ast.Name)
            and f.value.id == selfname):
        raise Unsupported('%s: call is not self.<method>(...)' % loc)
    name = f.attr
    if any(k.arg is None for k in call.keywords) or \
            any(isinstance(a, ast.Starred) for a in call.args):
        raise Unsupported('%s: * / ** arguments' % loc)
    kw = {k.arg: k.value for k in call.keywords}

    def bind(params):
        """positional + keyword binding as Python does it"""
        if len(call.args) > len(params):
            raise Unsupported('%s: too many arguments to %s' % (loc, name))
        out = {}
        for p, a in zip(params, call.args):
            out[p] = a
        for k, v in kw.items():
            if k not in params or k in out:
                raise Unsupported('%s: bad keyword %r for %s' % (loc, k, name))
            out[k] = v
        return out

    m = STAGE_RE.match(name)
    if name == 'initialize' or m:
        if call.args or kw:
            raise Unsupported('%s: %s takes no arguments' % (loc, name))
        return [('I',)] if name == 'initialize' else [('S', int(m.group(1)))]
    if name == 'update_domain':
        if call.args or kw:
            raise Unsupported('%s: update_domain takes no arguments' % loc)
        return [('D',)]
    if name == 'compute_accelerations':
        b = bind(['index', 'update_nnps'])
        idx = _const(b['index'], int, loc) if 'index' in b else 0
        upd = _const(b['update_nnps'], bool, loc) if 'update_nnps' in b else True
        if idx < 0:
            raise Unsupported('%s: negative evaluator index' % loc)
        return [('A', idx, upd)]
    if name == 'do_post_stage':
        b = bind(['stage_dt', 'stage'])
        if 'stage_dt' not in b or 'stage' not in b:
            raise Unsupported('%s: do_post_stage needs (stage_dt, stage)' % loc)
        k = _const(b['stage'], int, loc)
        if k < 0:
            raise Unsupported('%s: negative stage' % loc)
        return [('P', conv_expr(b['stage_dt'], loc), k)]
    raise Unsupported('%s: call to self.%s' % (loc, name))


def conv_function(fn, where):
    a = fn.args
    names = [x.arg for x in a.args]
    if a.vararg or a.kwarg or a.kwonlyargs or a.posonlyargs or a.defaults \
            or len(names) != 3 or names[1:] != ['t', 'dt']:
        raise Unsupported('%s: signature must be one_timestep(self, t, dt), is %r'
                          % (where, names))
    if fn.decorator_list:
        raise Unsupported('%s: decorated one_timestep' % where)
    prog = []
    for st in fn.body:
        prog += conv_stmt(st, where, names[0])
    return prog


def parse_one_timestep(src, where='<generated>'):
    """source text of a (dedented or not) `def one_timestep` -> program"""
    import textwrap
    tree = ast.parse(textwrap.dedent(src))
    fns = [n for n in tree.body if isinstance(n, ast.FunctionDef)]
    if len(fns) != 1 or fns[0].name != 'one_timestep':
        raise Unsupported('%s: expected exactly one def one_timestep' % where)
    return conv_function(fns[0], where)


# --------------------------------------------------------------------------
# wire format (harness -> Lean driver) and Lean text

def wire_expr(e):
    if e[0] in ('dt', 't'):
        return e[0]
    if e[0] == 'lit':
        return 'lit:%d:%d' % (e[1], e[2])
    if e[0] == 'neg':
        return 'neg,' + wire_expr(e[1])
    return '%s,%s,%s' % (e[0], wire_expr(e[1]), wire_expr(e[2]))


def wire_cmd(c):
    if c[0] == 'I':
        return 'I'
    if c[0] == 'S':
        return 'S%d' % c[1]
    if c[0] == 'A':
        return 'A%d:%d' % (c[1], 1 if c[2] else 0)
    if c[0] == 'D':
        return 'D'
    if c[0] == 'P':
        return 'P%d:%s' % (c[2], wire_expr(c[1]))
    raise ValueError(c)


def wire_program(prog):
    return ';'.join(wire_cmd(c) for c in prog) if prog else '_'


def lean_expr(e):
    if e[0] == 'dt':
        return '.dt'
    if e[0] == 't':
        return '.t'
    if e[0] == 'lit':
        n = str(e[1]) if e[1] >= 0 else '(%d)' % e[1]
        return '(.lit %s %d)' % (n, e[2])
    if e[0] == 'neg':
        return '(.neg %s)' % lean_expr(e[1])
    return '(.%s %s %s)' % (e[0], lean_expr(e[1]), lean_expr(e[2]))


def lean_cmd(c):
    if c[0] == 'I':
        return '.initialize'
    if c[0] == 'S':
        return '.stage %d' % c[1]
    if c[0] == 'A':
        return '.computeAccelerations %d %s' % (c[1], 'true' if c[2] else 'false')
    if c[0] == 'D':
        return '.updateDomain'
    if c[0] == 'P':
        return '.doPostStage %s %d' % (lean_expr(c[1]), c[2])
    raise ValueError(c)


def lean_meth(m):
    return '.initialize' if m == 'initialize' else '.stage %d' % int(m[5:])


# --------------------------------------------------------------------------
# scanning the repository

class Cls(object):
    def __init__(self, module, node, path, imports):
        self.module = module
        self.name = node.name
        self.qual = module + '.' + node.name
        self.node = node
        self.path = path
        self.imports = imports
        self.bases = []
        for b in node.bases:
            if isinstance(b, ast.Name):
                self.bases.append(('name', b.id))
            elif isinstance(b, ast.Attribute):
                self.bases.append(('attr', b.attr))
            else:
                self.bases.append(('other', ast.dump(b)))
        self.methods = {n.name: n for n in node.body
                        if isinstance(n, ast.FunctionDef)}
        self.class_attrs = set()
        for n in node.body:
            if isinstance(n, ast.Assign):
                for tg in n.targets:
                    for x in ast.walk(tg):
                        if isinstance(x, ast.Name):
                            self.class_attrs.add(x.id)
            elif isinstance(n, (ast.AnnAssign, ast.AugAssign)) and \
                    isinstance(n.target, ast.Name):
                self.class_attrs.add(n.target.id)
        # self.<attr> = ... anywhere in the methods
        self.inst_attrs = set()
        for fn in self.methods.values():
            if not fn.args.args:
                continue
            s = fn.args.args[0].arg
            for x in ast.walk(fn):
                if isinstance(x, ast.Attribute) and isinstance(x.ctx, ast.Store) \
                        and isinstance(x.value, ast.Name) and x.value.id == s:
                    self.inst_attrs.add(x.attr)


def _module_name(repo, path):
    rel = os.path.relpath(path, repo)[:-3]
    parts = rel.split(os.sep)
    if parts[-1] == '__init__':
        parts = parts[:-1]
    return '.'.join(parts)


def _imports(tree, module):
    out = {}
    pkg = module.split('.')[:-1]
    for n in ast.walk(tree):
        if isinstance(n, ast.ImportFrom):
            if n.level:
                base = pkg[:len(pkg) - (n.level - 1)]
                mod = '.'.join(base + ([n.module] if n.module else []))
            else:
                mod = n.module or ''
            for a in n.names:
                out[a.asname or a.name] = (mod, a.name)
    return out


def load_classes(repo):
    classes = {}
    top = os.path.join(repo, 'pysph')
    if not os.path.isdir(top):
        raise Unsupported('no pysph package under %s' % repo)
    for dp, dn, fn in os.walk(top):
        dn.sort()
        for f in sorted(fn):
            if not f.endswith('.py'):
                continue
            path = os.path.join(dp, f)
            try:
                src = open(path, encoding='utf-8').read()
            except UnicodeDecodeError:
                src = open(path, encoding='latin-1').read()
            if 'Integrator' not in src and 'IntegratorStep' not in src \
                    and 'Step' not in src:
                continue
            try:
                with warnings.catch_warnings():
                    warnings.simplefilter('ignore')
                    tree = ast.parse(src, path)
            except SyntaxError as e:
                raise Unsupported('cannot parse %s: %s' % (path, e))
            module = _module_name(repo, path)
            imps = _imports(tree, module)
            for n in tree.body:
                if isinstance(n, ast.ClassDef):
                    c = Cls(module, n, path, imps)
                    classes[c.qual] = c
    return classes


def resolve_base(c, kind, name, classes, by_name):
    """-> qualified name of a known class, or None (a class we do not know:
    object, unittest.TestCase, Equation, ...)"""
    if kind == 'other':
        return None
    q = c.module + '.' + name
    if kind == 'name' and q in classes and q != c.qual:
        return q
    if kind == 'name' and name in c.imports:
        mod, nm = c.imports[name]
        q = mod + '.' + nm
        if q in classes:
            return q
        # re-exported through a package __init__: fall back to unique name
        cands = by_name.get(nm, [])
        if len(cands) == 1:
            return cands[0]
        if len(cands) > 1:
            fam = [x for x in cands if x.startswith('pysph.sph.')
                   and '.tests.' not in x]
            if len(fam) == 1:
                return fam[0]
            return ('ambiguous', nm, cands)
        return None
    cands = by_name.get(name, [])
    if kind == 'attr':
        fam = [x for x in cands if '.tests.' not in x]
        if len(fam) == 1:
            return fam[0]
        if len(fam) > 1:
            return ('ambiguous', name, fam)
    return None


def family(classes, root):
    """qualified names of all classes deriving from root -> linearised chain
    [self, base, base-of-base, ..., root]"""
    by_name = {}
    for q, c in classes.items():
        by_name.setdefault(c.name, []).append(q)
    parents = {}
    for q, c in classes.items():
        ps = []
        for kind, nm in c.bases:
            r = resolve_base(c, kind, nm, classes, by_name)
            ps.append(r)
        parents[q] = ps
    if root not in classes:
        raise Unsupported('root class %s not found' % root)
    member = {root: True}

    def is_member(q, seen=()):
        if q in member:
            return member[q]
        if q in seen:
            return False
        res = False
        for p in parents[q]:
            if isinstance(p, tuple):
                continue
            if p is not None and is_member(p, seen + (q,)):
                res = True
        member[q] = res
        return res

    fam = {}
    for q in sorted(classes):
        if not is_member(q):
            continue
        chain = [q]
        cur = q
        while cur != root:
            ps = parents[cur]
            amb = [p for p in ps if isinstance(p, tuple)]
            if amb:
                raise Unsupported('%s: ambiguous base class %r' % (cur, amb[0]))
            inside = [p for p in ps if p is not None and is_member(p)]
            if len(inside) != 1 or ps[0] != inside[0]:
                # mixins before the family base could override methods
                known_other = [p for p in ps if p is not None and p not in inside]
                if len(inside) != 1 or known_other:
                    raise Unsupported('%s: multiple inheritance inside the '
                                      'family (%r)' % (cur, ps))
            cur = inside[0]
            if cur in chain:
                raise Unsupported('%s: inheritance cycle' % q)
            chain.append(cur)
        fam[q] = chain
    # a class with an ambiguous base anywhere might belong to the family
    for q, ps in parents.items():
        for p in ps:
            if isinstance(p, tuple) and any(x in member and member[x] for x in p[2]):
                raise Unsupported('%s: ambiguous base %s (candidates %s)'
                                  % (q, p[1], p[2]))
    return fam


HOOKABLE = re.compile(r'^(py_)?(initialize|stage\d+)$')


def stepper_sig(chain, classes):
    """hasattr table of a stepper class from its inheritance chain"""
    names = set()
    for q in chain:
        c = classes[q]
        for n in list(c.methods) + sorted(c.class_attrs) + sorted(c.inst_attrs):
            names.add((n, n in c.methods, q))
    meths, hooks = set(), set()
    for n, is_fn, q in sorted(names):
        if n.startswith('stage') or n.startswith('py_stage') or \
                n in ('initialize', 'py_initialize'):
            if not HOOKABLE.match(n):
                raise Unsupported(
                    '%s: attribute %r starts with stage/py_stage but is not '
                    'stage<k>: get_stepper_method_wrapper_names would wrap it'
                    % (q, n))
            if not is_fn:
                raise Unsupported('%s: %r is not a method' % (q, n))
            (hooks if n.startswith('py_') else meths).add(
                n[3:] if n.startswith('py_') else n)

    def key(m):
        return -1 if m == 'initialize' else int(m[5:])
    return sorted(meths, key=key), sorted(hooks, key=key)


def scan(repo):
    classes = load_classes(repo)
    ifam = family(classes, ROOT_INTEGRATOR)
    sfam = family(classes, ROOT_STEP)
    integrators = {}
    for q, chain in ifam.items():
        owner = None
        for b in chain:
            if 'one_timestep' in classes[b].methods:
                owner = b
                break
        if owner is None:
            raise Unsupported('%s: no one_timestep in its chain' % q)
        # attributes that would shadow the wrappers / shadow one_timestep
        for b in chain:
            c = classes[b]
            bad = [n for n in (c.class_attrs | c.inst_attrs)
                   if n == 'one_timestep']
            if bad:
                raise Unsupported('%s: one_timestep assigned as attribute' % b)
        integrators[q] = owner
    programs = {}
    for owner in sorted(set(integrators.values())):
        c = classes[owner]
        fn = c.methods['one_timestep']
        programs[owner] = (conv_function(
            fn, '%s %s.one_timestep' % (os.path.relpath(c.path, repo), c.name)),
            os.path.relpath(c.path, repo), fn.lineno)
    steppers = {}
    for q, chain in sfam.items():
        steppers[q] = stepper_sig(chain, classes)
    return {'integrators': integrators, 'programs': programs,
            'steppers': steppers}


def ident(q):
    return re.sub(r'[^A-Za-z0-9]', '_', q)


def emit(tab):
    L = []
    L.append('import PysphVerif.Model.Stepper')
    L.append('/-!')
    L.append('GENERATED by translate/timestep2lean.py from the `one_timestep` methods and the')
    L.append('IntegratorStep classes under pysph/ — do not edit; rewritten on every check run.')
    L.append('-/')
    L.append('namespace PysphVerif.Gen.Timesteps')
    L.append('open PysphVerif.Stepper')
    L.append('')
    for owner in sorted(tab['programs']):
        prog, path, line = tab['programs'][owner]
        L.append('/-- %s:%d  %s.one_timestep -/' % (path, line, owner.split('.')[-1]))
        L.append('def prog_%s : Program := [' % ident(owner))
        L.append(',\n'.join('  ' + lean_cmd(c) for c in prog))
        L.append(']')
        L.append('')
    L.append('/-- (integrator class, class whose `one_timestep` it runs, program) -/')
    L.append('def programs : List (String × String × Program) := [')
    rows = []
    for q in sorted(tab['integrators']):
        o = tab['integrators'][q]
        rows.append('  ("%s", "%s", prog_%s)' % (q, o, ident(o)))
    L.append(',\n'.join(rows))
    L.append(']')
    L.append('')
    L.append('/-- what `hasattr` answers for every shipped IntegratorStep class -/')
    L.append('def steppers : List (String × StepperSig) := [')
    rows = []
    for q in sorted(tab['steppers']):
        ms, hs = tab['steppers'][q]
        rows.append('  ("%s", { methods := [%s], hooks := [%s] })' % (
            q, ', '.join(lean_meth(m) for m in ms),
            ', '.join(lean_meth(m) for m in hs)))
    L.append(',\n'.join(rows))
    L.append(']')
    L.append('')
    L.append('end PysphVerif.Gen.Timesteps')
    return '\n'.join(L) + '\n'


def main():
    ap = argparse.ArgumentParser()
    ap.add_argument('--repo', required=True)
    ap.add_argument('--out', required=True)
    a = ap.parse_args()
    sys.path.insert(0, os.path.join(os.path.dirname(os.path.abspath(__file__)),
                                    '..', 'lib'))
    import vlib
    try:
        tab = scan(a.repo)
    except Unsupported as e:
        print('timestep2lean: UNSUPPORTED construct: %s' % e)
        sys.exit(1)
    text = emit(tab)
    changed = vlib.write_if_changed(os.path.join(a.out, 'Timesteps.lean'), text)
    print('timestep2lean: %d integrator classes (%d distinct one_timestep bodies), '
          '%d stepper classes; Timesteps.lean %s' % (
              len(tab['integrators']), len(tab['programs']), len(tab['steppers']),
              'rewritten' if changed else 'unchanged'))


if __name__ == '__main__':
    main()
