PID = 'C08'
PROPS = ['PysphVerif.Props.C08']
TRANSLATORS = ['kernels2lean.py']
HARNESS = 'harness/c08.py'
TRUSTED_BASE = [
    'Lean 4.33 kernel + Mathlib; axioms propext, Classical.choice, Quot.sound only (audited per theorem each run)',
    'translate/kernels2lean.py (symbolic execution of kernels.py into coefficient tables; regenerated every run and '
    'validated every run: the generated tables are evaluated exactly in Lean and compared with the Python classes)',
    'exact real arithmetic stands in for IEEE doubles in the theorems (float literals mean their decimal text)',
    'normalisation is proved in radial form: S_d * integral of q^(d-1) w(q); the polar-coordinate step in R^d is not mechanised',
    'Cython/g++/libm for the compiled twins (compared numerically with the Python classes every run)',
]
ASSUMPTIONS = [
    'h > 0, r >= 0, no NaN/inf',
    'dimensions 1, 2, 3 (the only ones any kernel class accepts)',
    'Gaussian family: unit mass is that of the untruncated kernel; the truncation at q = 3 is a stated downward jump',
]
READY = False
DESIGN_REF = '6/C08'
TECHNIQUE = 'Lean 4 proof over tables regenerated from kernels.py by a translator + translator validation + oracle on the real code'
LEVEL_TEXT = ''
LEVEL_NOTE = ''
TIMEOUT = {'quick': 900, 'thorough': 3600}
