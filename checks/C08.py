PID = 'C08'
PROPS = ['PysphVerif.Props.C08']
TRANSLATORS = ['kernels2lean.py', 'kwrapper2lean.py']
HARNESS = 'harness/c08.py'
TRUSTED_BASE = [
    'Lean 4.33 kernel + Mathlib; axioms propext, Classical.choice, Quot.sound only (audited per theorem each run)',
    'translate/kernels2lean.py (symbolic execution of kernels.py into coefficient tables; regenerated every run and '
    'validated every run: the generated tables are evaluated exactly in Lean and compared with the Python classes)',
    'exact real arithmetic stands in for IEEE doubles in the theorems (float literals mean their decimal text)',
    'normalisation is proved in radial form: S_d * integral of q^(d-1) w(q); the polar-coordinate step in R^d is not mechanised',
    'Cython/g++/libm for the compiled twins (compared numerically with the Python classes every run)',
    'translate/kwrapper2lean.py (statement-by-statement transcription of the ${classname}Wrapper template of c_kernels.pyx.mako; '
    'anything outside its subset fails loudly; validated every run: the generated code is run on doubles over whole call '
    'histories and compared bit for bit with real wrappers); Cython semantics of `return a, b, c` (new floats) vs a typed '
    'memoryview cast (a view) as classified by the translator',
]
ASSUMPTIONS = [
    'h > 0, r >= 0, no NaN/inf',
    'dimensions 1, 2, 3 (the only ones any kernel class accepts)',
    'Gaussian family: unit mass is that of the untruncated kernel; the truncation at q = 3 is a stated downward jump',
]
READY = True
DESIGN_REF = '6/C08'
TECHNIQUE = 'Lean 4 proof over tables regenerated from kernels.py by a translator + translator validation + oracle on the real code'
LEVEL_TEXT = ("Lean 4 theorems over ALL 21 kernel tables (10 classes x admissible dimensions), every h > 0 and every real r, "
              "about coefficient tables regenerated on every run from pysph/base/kernels.py by symbolic execution "
              "(translate/kernels2lean.py): support (kernel, dwdq, gradient vanish for r >= radius_scale*h), dwdq = derivative of "
              "the shape function and = h*dW/dr, gradient_h = dW/dh (HasDerivAt over the reals; at every q for the C1 spline/Wendland "
              "tables, away from the truncation edge for the Gaussian family), kernel non-increasing and non-negative (Moebius sign "
              "certificate; super-Gaussian exempt), gradient = dwdq/h * xij/r and zero within the 1e-12 guard, normalisation in radial "
              "form S_d*int_0^{R h} r^(d-1) W(r,h) dr = 1 as an interval integral of the piece-wise function for every h, Gaussian family "
              "fac = pi^(-d/2) with unit mass of the untruncated Gaussian.  General lemmas (formal derivative = derivative, certificate "
              "soundness, piece-wise antitonicity, C1 junctions, FTC per piece) are proved once; per-table facts are closed by "
              "decide +kernel on the generated rationals, so they are re-checked against whatever the source says today.  The translator "
              "is validated on every run (exact evaluation of the tables in Lean vs the Python classes on r across and exactly on every "
              "breakpoint, h over 12 decades), the compiled twins are compared with the Python classes and with the mako rendering, and "
              "the property's own predicate is evaluated on the real code (Python and compiled) to produce replays -- including "
              "kernel, dwdq, gradient and gradient_h with r EXACTLY on every knot and on the support edge (r*(1/h) == knot in "
              "doubles; powers of two over 30 binades, decimals and random h): agreement with both one-sided values at "
              "q(1 -+ 2^-20) to the accuracy continuity implies and with centred finite differences of kernel() in r and h.  A value "
              "of q that the source treats unlike both neighbouring intervals becomes a degenerate piece [b, b] of the table, so "
              "table_wellformed (lo < hi on every piece) and the per-piece obligations break instead of the translator deciding.  "
              "The compiled convenience wrappers are modelled as a state machine over their two scratch members (Model/KernelWrapper.lean, "
              "code regenerated from the template on every run): for EVERY history of kernel/gradient calls on one wrapper, from any scratch "
              "contents, every result the caller kept reads after the last call what it read at its return (wrapper_retained_results_unchanged: "
              "no method returns an object over the wrapper's own storage) and is the pure function of its own arguments "
              "(wrapper_history_independent), over the reals on every table W(|xi-xj|, h) and gradient_i(xi-xj, |xi-xj|, h) "
              "(wrapper_returns_kernel_values), hence dW/dr times the unit vector and zero outside the support.  The oracle runs call "
              "histories (2-8 calls: inside / beyond the support / on a knot / r = 0 / at the guard, one or varying h, one or two interleaved "
              "live objects, out-buffers re-used or pre-filled with garbage, keyword calls) on Wrapper, compiled class and Python class: "
              "every result is retained and must still read the same after every later call, equal the same call made first on a new "
              "object (in this process and in a second process that makes all calls in a shuffled order), equal the Python class, and "
              "leave its inputs untouched.")
LEVEL_NOTE = ("Trusted: Lean kernel + Mathlib, axioms propext/Classical.choice/Quot.sound; translate/kernels2lean.py (validated each run, "
              "~12k points quick); exact real arithmetic in place of IEEE doubles (float literals read as decimals); the polar-coordinate "
              "identity int_{R^d} f(|x|) dx = S_d int r^(d-1) f(r) dr is not mechanised (normalisation is claimed in radial form); "
              "super-Gaussian unit mass is checked numerically only (its fac = pi^(-d/2) is proved); Cython/g++/libm for the compiled twins; "
              "translate/kwrapper2lean.py for the wrapper template (validated each run on whole call histories, bit for bit); thread-safety of "
              "a wrapper shared between threads is out of scope (its scratch members are per object, not per call).")
TIMEOUT = {'quick': 900, 'thorough': 3600}
