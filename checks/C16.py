PID = 'C16'
PROPS = ['PysphVerif.Props.C16']
TRANSLATORS = []
HARNESS = 'harness/c16.py'
TRUSTED_BASE = [
    'Lean 4.33 kernel; axioms propext, Classical.choice, Quot.sound only (audited per theorem each run)',
    'hand-written model lean/PysphVerif/Model/InletOutlet.lean (the three distinct update bodies, IOEvaluate, and the ParticleArray/cyarray pieces they call), tied to the code by differential execution of whole histories against the real Inlet/Outlet classes: bit-exact at Float, exact at Rat for dyadic geometry (harness/c16.py)',
    'a particle is modelled as a record of the properties the bookkeeping touches (x y z u disp ioid tag) plus two passive integer properties standing for all others; the tie copies real arrays with six more properties and checks that they travel with the particle',
    'theorems about the zone decision are over exact arithmetic (any type with the listed operations; ordered-field lemmas where stated), not IEEE doubles: decisions within rounding distance of a zone boundary are outside their reach',
]
ASSUMPTIONS = [
    'serial CPU path (pa.gpu is None)',
    'every array is aligned when update() is called (num_real_particles current; all ParticleArray mutators guarantee it, C06); only Local particles are subject to the bookkeeping, as in the code',
    'the ghost arrays, when present, are index-aligned with their inlet/outlet (ghost_aligned); the inlet update raises IndexError otherwise, which the model reproduces',
    'no NaN among coordinates',
]
READY = True
DESIGN_REF = '6/C16'
TECHNIQUE = 'Lean 4 proof over a hand-written model + exact correspondence check over histories'
LEVEL_TEXT = ("Lean 4 theorems for every state, zone geometry, props_to_copy mask, number type and history of "
              "arbitrary moves and update calls (inlet_copy_exactly_once_per_crossing, inlet_recycled_one_length, "
              "inlet_count_constant, inlet_ghost_recycled, outlet_move_exactly_once(_fluid), outlet_delete_far, "
              "outlet_deletes_exactly_far_local, inlet/outlet_nothing_else_changes, hybrid_inlet_same_bookkeeping, "
              "mirror_outlet_move_exactly_once(_fluid), mirror_ghost_stays_aligned (the mirror outlet's ghost array "
              "stays index-aligned with the outlet: one index list removed from both, removeRows commutes with "
              "map/zip), count_conservation, inlet_size_invariant, label uniqueness over histories "
              "(outlet_creates_no_label, mirror_outlet_creates_no_label, inlet_adds_crossing_labels, "
              "labels_never_duplicated, outlet_history_never_duplicates), and over ordered "
              "fields zoneId_eq_zero/one/two_iff, recycled_back_inside, overshoot_still_outside, "
              "ghost_stays_mirror_image) about a hand-written model transcribing InletBase/OutletBase.update, hybrid "
              "Inlet.update, mirror Outlet.update, IOEvaluate and the ParticleArray/cyarray operations they use "
              "(np.where on the real-particle view, extract_particles, swap-remove, align_particles — proved to be a "
              "Local-first permutation); the model is tied to the code on every run by executing whole histories on "
              "the real classes of all five shipped families (real SPHEvaluator) and on the model, bit-exactly at "
              "Float and exactly at Rat, and the property's own predicate is evaluated on the real arrays with exact "
              "rationals to produce replays.")
LEVEL_NOTE = ("Trusted: Lean kernel, axioms propext/Classical.choice/Quot.sound; the hand-written model (checked by the "
              "correspondence, ~1300 update calls quick); exact arithmetic in place of IEEE doubles for zone decisions; "
              "record abstraction of a particle; serial CPU path; arrays aligned on entry. 42 theorems. "
              "mirror_ghost_stays_aligned is proved for states whose fluid/outlet/ghost particles are all Local "
              "(the shipped usage). History-level label uniqueness (labels_never_duplicated) is proved for the "
              "labels of fluid+outlet under the side condition FreshRun: moves do not relabel flow particles and "
              "every particle an inlet copies in carries a label new to the flow (the inlet original keeps its "
              "label, the harness relabels it after the call); outlet-side histories need no side condition.")
TIMEOUT = {'quick': 1500, 'thorough': 3 * 3600}
