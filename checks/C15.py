PID = 'C15'
PROPS = ['PysphVerif.Props.C15']
TRANSLATORS = ['riemann2lean.py']
HARNESS = 'harness/c15.py'
TRUSTED_BASE = [
    'Lean 4.33 kernel; axioms propext, Classical.choice, Quot.sound only (audited per theorem each run)',
    'translate/riemann2lean.py (Python ast -> Lean, explicit subset, fails loudly outside it); validated every '
    'run by executing the generated definitions at Float and the Python source on the same inputs, bit for bit',
    'exact ordered-field arithmetic with abstract sqrt / pow (only the stated facts about them are used) stands '
    'in for IEEE doubles in the theorems',
    'compyle.declare under CPython returns 0.0 / 0 / zero arrays (modelled, exercised by the tie)',
]
ASSUMPTIONS = [
    'pure-Python execution of riemann_solver.py (the transpiled C twin inside GSPH equations is not run)',
    'admissible data: positive densities and pressures, gamma > 1; niter >= 2 for the oracle',
    'rounding is outside the theorems; the oracle allows 1e-7 (+ the solver tolerance for exact / van_leer) '
    'relative to the problem scales on data spanning 6 decades',
]
READY = True
DESIGN_REF = '6/C15'
TECHNIQUE = 'Lean 4 proof over a model regenerated from the source by a validated translator'
LEVEL_TEXT = ("Lean 4 theorems over every linearly ordered field with abstract sqrt/pow, about definitions that "
              "translate/riemann2lean.py regenerates from riemann_solver.py on every run: reflect_<s> for non_diffusive, "
              "roe, llxf, hllsy, hlle, hll_ball, hllc_ball (no hypothesis), hllc, van_leer (admissible data, sqrt > 0), "
              "exact (pow positive, pow x^-1 g = (pow x g)^-1; induction over the Newton iteration) and "
              "reflect_ducowicz_partial (sqrt 0 = 0 and DucoLastBranchGuarded: the unguarded case D is reached only "
              "when its own guard holds); equal_states_<s> for all 11 solvers (ducowicz: sqrt(x*x) = x; exact: pow 1 g = 1, "
              "niter >= 2; van_leer: p >= smallp, niter >= 1, tol > 0); galilean_van_leer, galilean_exact; "
              "scaling_exact (sqrt(m*m*x) = m sqrt x only), scaling_van_leer (same, on runs where the smallp floor is "
              "inactive: VanLeerFloorInactive); success_imp_pos_van_leer (no hypothesis); vacuum_reported_exact; "
              "riemann_solve_dispatch / reflect_riemann_solve. All sqrt/pow hypotheses are shown to hold for Real.sqrt "
              "and the real power function. The translator is validated each run by bit-exact execution of the "
              "generated definitions at Float against the Python source (13 600+ compared calls quick), and every "
              "clause of the statement is evaluated on the real code.")
LEVEL_NOTE = ("Partial: the unconditional reflection symmetry of ducowicz (ReflectSymDucowicz) is stated, not proved: "
              "it needs 'a root strictly between umin and umax is found by case A or B', which fails where that formula "
              "is 0/0 (known finding C15:raises:ducowicz); the umin == umax asymmetry found while proving it is fixed "
              "(3912f12, corpus states under C15:reflect:ducowicz-umin-eq-umax). Positivity of a successful exact "
              "(SuccessImpPosExact; false for niter <= 0) and exact's pressure-function residual bound are checked on "
              "the real code only. Trusted: Lean kernel + 3 standard axioms; the translator (validated bit for bit every "
              "run); exact-field arithmetic with abstract sqrt/pow in place of IEEE doubles; pure-Python execution "
              "(printf replaced by a no-op, see notes).")
TIMEOUT = {'quick': 1500, 'thorough': 3 * 3600}
