PID = 'C15'
PROPS = ['PysphVerif.Props.C15']
TRANSLATORS = ['riemann2lean.py']
HARNESS = 'harness/c15.py'
TRUSTED_BASE = [
    'Lean 4.33 kernel; axioms propext, Classical.choice, Quot.sound only (audited per theorem each run)',
    'translate/riemann2lean.py (Python ast -> Lean, explicit subset, fails loudly outside it); validated every '
    'run by executing the generated definitions at Float and the Python source on the same inputs, bit for bit',
    'exact ordered-field arithmetic with abstract sqrt / pow (only the stated facts about them are used) stands '
    'in for IEEE doubles in the theorems',
    'compyle.declare under CPython returns 0.0 / 0 / zero arrays (modelled, exercised by the tie)',
]
ASSUMPTIONS = [
    'pure-Python execution of riemann_solver.py (the transpiled C twin inside GSPH equations is not run)',
    'admissible data: positive densities and pressures, gamma > 1; niter >= 2 for the oracle',
    'rounding is outside the theorems; the oracle allows 1e-7 (+ the solver tolerance for exact / van_leer) '
    'relative to the problem scales on data spanning 6 decades',
]
READY = False
DESIGN_REF = '6/C15'
TECHNIQUE = 'Lean 4 proof over a model regenerated from the source by a validated translator'
LEVEL_TEXT = ''
LEVEL_NOTE = ''
TIMEOUT = {'quick': 1500, 'thorough': 3 * 3600}
