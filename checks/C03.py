PID = 'C03'
PROPS = ['PysphVerif.Props.C03']
TRANSLATORS = []
HARNESS = 'harness/c03.py'
TRUSTED_BASE = [
    'Lean 4.33 kernel; axioms propext, Classical.choice, Quot.sound only (audited per theorem each run)',
    'hand-written model lean/PysphVerif/Model/Schedule.lean (implTrace transcribes MegaGroup._make_data, the mako '
    'template and the helper; specTrace transcribes the documented order), tied to the code on every run by tracer '
    'equations through the real AccelerationEval -> SPHCompiler -> compiled module pipeline (harness/c03.py)',
    'the tracer equations, the C-level call log injected through _cython_code_, the spying NNPS subclass and the '
    'event rendering of harness/c03.py',
    'compyle, Cython, g++ (third party) translate the tracer hooks faithfully; serial execution (prange = range)',
]
ASSUMPTIONS = [
    'serial CPU (Cython) backend without OpenMP: the order across destination particles inside one loop is the '
    'index order; under OpenMP only the per-particle order and the barriers between loops are specified',
    'programs are well formed (Program.WF): no equation object twice in one group, no source named twice in one '
    'equation, iterated groups have 1 <= max_iterations and min_iterations <= max_iterations, a top-level group '
    'without equations has no condition/pre/post/update_nnps; one level of sub-groups',
    'start_idx/stop_idx are non-negative and within the array',
]
READY = True
DESIGN_REF = '6/C03'
TECHNIQUE = 'Lean 4 proof over a hand-written model + trace correspondence through the real code-generation pipeline'
LEVEL_TEXT = ('Lean 4 theorems for every program, every history-dependent oracle (condition/convergence outcomes, '
              'array sizes, named indices, neighbour lists) about a model that transcribes MegaGroup._make_data, the '
              'mako template and its helper: implTrace_eq_specTrace (the generated evaluation performs exactly the '
              'documented sequence of calls), megagroup_preserves_order, np_dest, dest_range, explicit_stop_ignores_real, iteration_bounds, '
              'skipped_when_condition_false, pre_post_once_per_pass, src_particle_calls, group_name_irrelevant (groups are '
              'identified by their position in the group tree: programs that differ only in Group(name=...) labels, '
              'shared labels included, make the same calls) and the excluded-point '
              'theorems (iteration_unbounded_when_min_gt_max, empty_top_group_is_skipped); '
              'the model is tied to the code on every run by tracer equations compiled through the real pipeline, and '
              'the property statement is evaluated independently (Python transcription + brute-force neighbours) on '
              'the observed calls to produce replays.')
LEVEL_NOTE = ('Trusted: Lean kernel and the three standard axioms; the hand-written model (checked by the trace '
              'correspondence on random group trees, including explicit numeric/named stop_idx beyond the number of '
              'real particles over ghost/remote destinations, and iterated groups whose first neighbour loop is '
              'entered from a different (dest, source) pair on the first and on later passes, and groups / sub-groups that '
              'share one explicit name= while carrying their own condition/pre/post with different outcomes; the neighbour lists '
              'compared are the ones the generated loops iterate, the NNPS spy restores the context it found); '
              'the tracer instrumentation; compyle/Cython/g++. Not covered: '
              'OpenMP scheduling (order across destination particles inside one parallel loop is unspecified), data '
              'values computed by equations (C02), GPU back ends.')
TIMEOUT = {'quick': 900, 'thorough': 3 * 3600}
