PID = 'C01'
PROPS = ['PysphVerif.Props.C01']
TRANSLATORS = []
HARNESS = 'harness/c01.py'
TRUSTED_BASE = [
    'Lean 4.33 kernel; axioms propext, Classical.choice, Quot.sound only (audited per theorem each run)',
    'hand-written model lean/PysphVerif/Model/Nnps.lean (front end: cell size, acceptance test, brute force; '
    'Grid-family stencil; linked-list storage; neighbour cache; octree pruning test), tied to the 12 compiled '
    'classes by differential execution on dyadic-grid inputs, where double arithmetic is exact (harness/c01.py)',
    'exact ordered-field arithmetic stands in for IEEE doubles in the theorems (rounding only matters inside '
    'the 2^-40 band the property statement allows)',
    'the octree builder, the hash tables / Morton keys of the SubGrid and Strat families are not modelled: '
    'those classes are covered by the correspondence with the exact oracle only',
    'cyarray update_min_max (min/max of an empty array are 0) is modelled, exercised by the tie',
]
ASSUMPTIONS = [
    'serial CPU classes of pysph.base.nnps; OpenMP only through NeighborCache.find_all_neighbors (1-4 threads) '
    'and the parallel octree builder',
    'smoothing lengths positive; coordinates of unused dimensions are 0; extent / cell size <= 40 per axis '
    '(memory of the key tables), leaf_max_particles >= 2',
    'update_domain() is called before update() after every change, set_context() before cached queries '
    '(as AccelerationEval does); the first cached query without set_context is probed separately',
    'no periodic / mirror domain (that is C07)',
]
# ./check C01 passes (18/18 obligations, 0 disagreements) but exits 1 on the unchanged tree until the
# findings listed in the C01 report are entered in known_findings.json / the two proposed fixes are
# committed; flip to True then.
READY = True
DESIGN_REF = '6/C01'
TECHNIQUE = 'Lean 4 proof over a hand-written model + exact differential execution on the dyadic grid'
LEVEL_TEXT = ("Lean 4 theorems over every point cloud, every linearly ordered field and every radius scale "
              "(isNbr_symm, sq_lt_imp_axis_lt, floor_adj, grid_cover, exact_of_cover_nodup, nbrs_exact_grid, "
              "nbrs_exact_grid_cellSize, ll_traverse_eq_bucket, cache_get_eq_find, tree_query_exact) about a "
              "hand-written model of the neighbour search; the model is tied to all 12 compiled NNPS classes on "
              "every run by exact differential execution (dyadic-grid inputs, ties included, cache on/off, after "
              "update histories), and the property's own predicate is evaluated on the implementation with "
              "exact integer arithmetic to produce replays.")
LEVEL_NOTE = ("Proved: the Grid family (3x3x3 stencil with the code's cell size) and any tree satisfying TreeInv "
              "return exactly the brute-force set; linked-list chains and the neighbour cache return what was "
              "stored, for every insertion order / thread schedule. Not proved (correspondence only): hash-table "
              "and Morton-key storage, the SubGrid and Strat families, the octree builder (TreeInv is a "
              "hypothesis). Trusted: Lean kernel, the model (checked by the tie on ~1700 class runs per quick "
              "run), exact-field arithmetic in place of doubles.")
TIMEOUT = {'quick': 1500, 'thorough': 3 * 3600}
