PID = 'C01'
PROPS = ['PysphVerif.Props.C01']
TRANSLATORS = []
HARNESS = 'harness/c01.py'
TRUSTED_BASE = [
    'Lean 4.33 kernel; axioms propext, Classical.choice, Quot.sound only (audited per theorem each run)',
    'hand-written model lean/PysphVerif/Model/Nnps.lean (front end: cell size, acceptance test, brute force; '
    'Grid-family stencil; linked-list storage; neighbour cache; octree pruning test and executable TreeInv check), '
    'Model/NnpsStore.lean (flatten / valid-cell index, BoxSort std::map index, DictBoxSort dict, chained hash '
    'table of spatial_hash.h, CellIndexing packed sorted keys + run detection, ExtendedSpatialHash sub-cells / mask / '
    'per-box cut, Morton key), Model/NnpsZOrder.lean (ZOrder / ExtendedZOrder: sorted (key, pid) lists, key_to_idx, '
    'the cell ids shared by all arrays, both passes of _fill_nbr_boxes, lengths, per-cid hmax, _cell_hmax, the row '
    'walk) and Model/NnpsStrat.lean (StratifiedHash levels / per-level cell size / per-level mask / per-level tables; '
    'StratifiedSFC level keys, key_to_idx per level, _cell_hmax, the nbr_boxes segment table, the run walk), tied to '
    'the 12 compiled classes by differential execution on dyadic-grid inputs, where double arithmetic is exact '
    '(harness/c01.py); the z-order bookkeeping is additionally compared with the REAL objects through '
    'get_keys / get_cids / get_pids / get_nbr_boxes / max_cid, the level functions of the stratified classes through '
    'count_particles / get_number_of_particles, on every run',
    'exact ordered-field arithmetic stands in for IEEE doubles in the theorems (rounding only matters inside '
    'the 2^-40 band the property statement allows)',
    'the octree BUILDER is not modelled: the real tree of every sampled run is dumped through the Python API of '
    'pysph.base.octree (same builder, same particle array as OctreeNNPS._refresh) and the driver checks the '
    'hypotheses of tree_query_exact (TreeInv, every index exactly once) on it in exact rational arithmetic; '
    'OctreeNNPS.tree itself is not reachable from Python',
    'key_to_idx of the z-order / SFC classes is modelled as "first position of the key in the sorted key array" '
    '(what the run-start loop writes for sorted keys); a C array indexed by key or cell id is a function, memory '
    'safety of those arrays (key < max_key, cid < max_cid) is outside the model',
    'StratifiedSFCNNPS._get_level (log2 / ceil on doubles) is read in exact arithmetic (ceil(log2 r) = least m with '
    'r <= 2^m) in the model and in nbrs_exact_StratifiedSFCNNPS_code; that reading is compared with the per-level '
    'particle counts of the compiled class by the tie; '
    'the symmetric mode of StratifiedSFCNNPS is not modelled (the constructor cannot select it)',
    'std::sort / std::map / Python dict are taken at their specification (sorted permutation; ordered unique keys; '
    'finite map)',
    'cyarray update_min_max (min/max of an empty array are 0) is modelled, exercised by the tie',
    'Model/NnpsBounds.lean (NNPS._compute_bounds: min/max over the non-empty arrays, 1 % padding on both sides, '
    'half-cell padding of a cloud without extent; _get_number_of_cells; find_cell_id) is run at Float with the '
    'operations of the compiled code in the same order and must reproduce xmin / xmax of every real object and '
    'ncells_per_dim of LinkedList / BoxSort bit for bit on every state of every run; padded_bounds_valid is proved '
    'over ordered fields, its conclusion is evaluated in doubles on every state (driver `bounds`, valid=ok)',
    'Model/NnpsAlias.lean (UIntArray view / c_reset / length=0 / append, NeighborCache.get_neighbors_raw handing out '
    'views, get_nearest_particles_no_cache) models memory as lists per buffer; a realloc of a buffer that has views '
    '(cache buffer growing beyond its reservation) and reading an output array after a LATER call are outside the '
    'model and outside what the harness reads (every result is read right after its call)',
]
ASSUMPTIONS = [
    'serial CPU classes of pysph.base.nnps; OpenMP only through NeighborCache.find_all_neighbors (1-4 threads) '
    'and the parallel octree builder',
    'smoothing lengths positive; coordinates of unused dimensions are 0; extent / cell size <= 40 per axis '
    '(memory of the key tables; the round-number lattice stream has one axis up to 260 cells with at most 6000 '
    'cells in all and H / num_levels of the Morton-keyed classes capped), leaf_max_particles >= 2',
    'prealloc=True of get_nearest_particles_no_cache is only used on an output array that is not a view of a cache '
    '(the flag promises a caller-owned pre-allocated array); an output array is read right after its own call',
    'update_domain() is called before update() after every change, set_context() before cached queries '
    '(as AccelerationEval does); the first cached query without set_context is probed separately',
    'no periodic / mirror domain (that is C07)',
]
# ./check C01 passes (18/18 obligations, 0 disagreements) but exits 1 on the unchanged tree until the
# findings listed in the C01 report are entered in known_findings.json / the two proposed fixes are
# committed; flip to True then.
READY = True
DESIGN_REF = '6/C01'
TECHNIQUE = 'Lean 4 proof over a hand-written model + exact differential execution on the dyadic grid'
LEVEL_TEXT = ("Lean 4 theorems over every point cloud, every linearly ordered field and every radius scale "
              "(isNbr_symm, sq_lt_imp_axis_lt, floor_adj, grid_cover, exact_of_cover_nodup, nbrs_exact_grid, "
              "nbrs_exact_grid_cellSize, flatten_inj, stencil_enumerates_valid, cell_in_range, ll_traverse_eq_bucket, "
              "hash_get_eq_cell, pack_unpack, pack_inj, nbrs_exact_LinkedListNNPS / BoxSortNNPS / SpatialHashNNPS / "
              "DictBoxSortNNPS / CellIndexingNNPS (under the explicit no-overflow guard) / ExtendedSpatialHashNNPS, "
              "subgrid_cover, morton_key_bits, key_inj, cache_get_eq_find, tree_query_exact, tree_query_exact_checked, "
              "nbrs_exact_ZOrderNNPS, nbrs_exact_ExtendedZOrderNNPS_asym / _sym, strat_cover, "
              "nbrs_exact_StratifiedHashNNPS, sfc_cover, sfc_cell_nested, nbrs_exact_StratifiedSFCNNPS, nbrs_exact_StratifiedSFCNNPS_code (level hypothesis discharged by sfcLevelFixed_ok), "
              "sfc_level_eps_sliver, sfcLevelFixed_ok, padded_bounds_valid (every particle of every array lands in a valid "
              "cell of the box _get_number_of_cells builds from the padded bounds of _compute_bounds), "
              "nbrs_exact_LinkedListNNPS_bounds / nbrs_exact_BoxSortNNPS_bounds (validity hypothesis discharged), "
              "upper_pad_necessary, direct_query_never_writes_cache, prealloc_query_never_writes_cache, "
              "query_history_exact / query_history_exact_from (every history of cached / un-cached queries and resets on "
              "any objects with any sharing of output arrays returns find_nearest_neighbors' list at every call), "
              "detach_necessary) about a hand-written "
              "model of the neighbour search and of each class's storage; the model is tied to all 12 compiled NNPS "
              "classes on every run by exact differential execution (dyadic-grid inputs, ties included, cache on/off, "
              "after update histories), the real octree of every sampled run is dumped and the hypotheses of the tree "
              "theorem are checked on it, and the property's own predicate is evaluated on the implementation with "
              "exact integer arithmetic to produce replays.")
LEVEL_NOTE = ("Proved (all clouds, sizes, knobs): LinkedList (head/next chains over flatten_raw of the valid stencil "
              "cells), BoxSort (std::map dense index), DictBoxSort (dict keyed by the integer triple), SpatialHash "
              "(chained table, every hash function / table size >= 1, whatever collides), CellIndexing (sorted packed "
              "keys, run detection, std::map lookup; ONLY under the guard that every key fits its bit fields and 32 "
              "bits - ci_guard_necessary shows the aliasing without it), ExtendedSpatialHash exact mode (sub-cells c/H, "
              "+-H mask, per-box ceil cut with the box's h_max) return exactly the brute-force set, without duplicates, "
              "valid indices; the code's cell size covers every cut-off; any tree satisfying TreeInv is queried "
              "exactly, and TreeInv + exactly-once is CHECKED on the real tree of each sampled run (a failure is "
              "reported as a correspondence disagreement); linked-list chains and the neighbour cache return what was "
              "stored for every insertion order / thread schedule. "
              "Also proved, for every LIST of arrays (empty ones included), every sorting function (std::sort at its "
              "specification), every (src, dst) pair and destination particle: ZOrderNNPS (sorted keys, key_to_idx, the "
              "cell-id numbering shared by all arrays is a bijection key <-> cid, every row of nbr_boxes[src] that belongs "
              "to the cid of a particle of ANY array holds the boxes of that particle's cell whichever pass wrote it and "
              "however often, lengths[cid] is the run length, the row walk visits each stencil particle once), "
              "ExtendedZOrderNNPS asymmetric (sub-cells c/H, +-H mask) and symmetric (per-box cut with hmax_src[cid] and "
              "the largest h of all arrays in the destination's cell), under the decidable guard that every cell "
              "coordinate is >= 0 and < 2^21 - H and every key < max_key; StratifiedHashNNPS (every hash function, L, H "
              ">= 1, EPS > 0, any h of the destination) ; StratifiedSFCNNPS asymmetric (level keys, first-writer-wins "
              "segment table over own and foreign representatives, nested level grids) with the level function of the "
              "code read in exact arithmetic: nbrs_exact_StratifiedSFCNNPS_code needs only 0 < h and rs*h <= cell_size, its "
              "level hypothesis is discharged by sfcLevelFixed_ok. (Before fix: commit ac8e697 _get_level added an absolute "
              "EPS to cell_size and broke that hypothesis inside a relative EPS/cell_size sliver: sfc_level_eps_sliver is "
              "the kernel-checked counterexample on the pre-fix function, the same input is a pinned corpus scenario of "
              "the harness, key C01:StratifiedSFCNNPS:level-eps-sliver, and nbrs_exact_StratifiedSFCNNPS_prefix_code keeps "
              "the conditional statement.) Still tie-only (correspondence with the "
              "exact oracle): the approximate mode of ExtendedSpatialHash, the octree builders, the symmetric mode of "
              "StratifiedSFC (unreachable through the constructor), memory safety of the key / cid indexed C arrays, "
              "CellIndexing beyond the guard. The bounds computation that puts every particle into a valid cell is now "
              "modelled and proved (padded_bounds_valid; in doubles it is evaluated per state and the model's xmin / xmax / "
              "ncells are compared bit for bit with the real objects), and the ownership of the output array of the query "
              "API is modelled (views into the cache, detach on un-cached queries) with query_history_exact for all "
              "histories. Trusted: Lean kernel, "
              "the model (checked by the tie on ~1700 class runs, ~1000 real-tree checks and ~600 real z-order objects "
              "(keys, cids, pids, ~900 nbr_boxes tables) and ~600 real stratified objects (per-level particle counts "
              "against the model's level function) per quick run), "
              "exact-field arithmetic in place of doubles.")
TIMEOUT = {'quick': 1500, 'thorough': 3 * 3600}
