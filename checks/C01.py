PID = 'C01'
PROPS = ['PysphVerif.Props.C01']
TRANSLATORS = []
HARNESS = 'harness/c01.py'
TRUSTED_BASE = [
    'Lean 4.33 kernel; axioms propext, Classical.choice, Quot.sound only (audited per theorem each run)',
    'hand-written model lean/PysphVerif/Model/Nnps.lean (front end: cell size, acceptance test, brute force; '
    'Grid-family stencil; linked-list storage; neighbour cache; octree pruning test and executable TreeInv check) '
    'and Model/NnpsStore.lean (flatten / valid-cell index, BoxSort std::map index, DictBoxSort dict, chained hash '
    'table of spatial_hash.h, CellIndexing packed sorted keys + run detection, ExtendedSpatialHash sub-cells / mask / '
    'per-box cut, Morton key), tied to the 12 compiled classes by differential execution on dyadic-grid inputs, '
    'where double arithmetic is exact (harness/c01.py)',
    'exact ordered-field arithmetic stands in for IEEE doubles in the theorems (rounding only matters inside '
    'the 2^-40 band the property statement allows)',
    'the octree BUILDER is not modelled: the real tree of every sampled run is dumped through the Python API of '
    'pysph.base.octree (same builder, same particle array as OctreeNNPS._refresh) and the driver checks the '
    'hypotheses of tree_query_exact (TreeInv, every index exactly once) on it in exact rational arithmetic; '
    'OctreeNNPS.tree itself is not reachable from Python',
    'the cid / nbr_boxes bookkeeping of the z-order classes and the Strat family are not proved: those classes are covered by '
    'the correspondence with the exact oracle only',
    'std::sort / std::map / Python dict are taken at their specification (sorted permutation; ordered unique keys; '
    'finite map)',
    'cyarray update_min_max (min/max of an empty array are 0) is modelled, exercised by the tie',
]
ASSUMPTIONS = [
    'serial CPU classes of pysph.base.nnps; OpenMP only through NeighborCache.find_all_neighbors (1-4 threads) '
    'and the parallel octree builder',
    'smoothing lengths positive; coordinates of unused dimensions are 0; extent / cell size <= 40 per axis '
    '(memory of the key tables), leaf_max_particles >= 2',
    'update_domain() is called before update() after every change, set_context() before cached queries '
    '(as AccelerationEval does); the first cached query without set_context is probed separately',
    'no periodic / mirror domain (that is C07)',
]
# ./check C01 passes (18/18 obligations, 0 disagreements) but exits 1 on the unchanged tree until the
# findings listed in the C01 report are entered in known_findings.json / the two proposed fixes are
# committed; flip to True then.
READY = True
DESIGN_REF = '6/C01'
TECHNIQUE = 'Lean 4 proof over a hand-written model + exact differential execution on the dyadic grid'
LEVEL_TEXT = ("Lean 4 theorems over every point cloud, every linearly ordered field and every radius scale "
              "(isNbr_symm, sq_lt_imp_axis_lt, floor_adj, grid_cover, exact_of_cover_nodup, nbrs_exact_grid, "
              "nbrs_exact_grid_cellSize, flatten_inj, stencil_enumerates_valid, cell_in_range, ll_traverse_eq_bucket, "
              "hash_get_eq_cell, pack_unpack, pack_inj, nbrs_exact_LinkedListNNPS / BoxSortNNPS / SpatialHashNNPS / "
              "DictBoxSortNNPS / CellIndexingNNPS (under the explicit no-overflow guard) / ExtendedSpatialHashNNPS, "
              "subgrid_cover, morton_key_bits, key_inj, cache_get_eq_find, tree_query_exact, tree_query_exact_checked) about a hand-written "
              "model of the neighbour search and of each class's storage; the model is tied to all 12 compiled NNPS "
              "classes on every run by exact differential execution (dyadic-grid inputs, ties included, cache on/off, "
              "after update histories), the real octree of every sampled run is dumped and the hypotheses of the tree "
              "theorem are checked on it, and the property's own predicate is evaluated on the implementation with "
              "exact integer arithmetic to produce replays.")
LEVEL_NOTE = ("Proved (all clouds, sizes, knobs): LinkedList (head/next chains over flatten_raw of the valid stencil "
              "cells), BoxSort (std::map dense index), DictBoxSort (dict keyed by the integer triple), SpatialHash "
              "(chained table, every hash function / table size >= 1, whatever collides), CellIndexing (sorted packed "
              "keys, run detection, std::map lookup; ONLY under the guard that every key fits its bit fields and 32 "
              "bits - ci_guard_necessary shows the aliasing without it), ExtendedSpatialHash exact mode (sub-cells c/H, "
              "+-H mask, per-box ceil cut with the box's h_max) return exactly the brute-force set, without duplicates, "
              "valid indices; the code's cell size covers every cut-off; any tree satisfying TreeInv is queried "
              "exactly, and TreeInv + exactly-once is CHECKED on the real tree of each sampled run (a failure is "
              "reported as a correspondence disagreement); linked-list chains and the neighbour cache return what was "
              "stored for every insertion order / thread schedule. Still tie-only (correspondence with the exact "
              "oracle): ZOrder / ExtendedZOrder (their Morton key is proved injective below 2^21 - key_inj - but the cid / nbr_boxes bookkeeping is not modelled), "
              "StratifiedHash / StratifiedSFC, the approximate mode of ExtendedSpatialHash, the octree builders, "
              "CellIndexing beyond the guard, the bounds computation that puts every particle into a valid cell "
              "(cell_in_range proves the arithmetic step, the padded bounds are a hypothesis). Trusted: Lean kernel, "
              "the model (checked by the tie on ~1700 class runs and ~1000 real-tree checks per quick run), "
              "exact-field arithmetic in place of doubles.")
TIMEOUT = {'quick': 1500, 'thorough': 3 * 3600}
