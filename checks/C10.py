PID = 'C10'
PROPS = ['PysphVerif.Props.C10']
TRANSLATORS = []
HARNESS = 'harness/c10.py'
TRUSTED_BASE = [
    'Lean 4.33 kernel; axioms propext, Classical.choice, Quot.sound only (audited per theorem each run)',
    'hand-written model lean/PysphVerif/Model/SolverLoop.lean (Solver.solve, _get_timestep, _compute_timestep, '
    '_damp_timestep, _dump_output_if_needed, _land_on_output_time, _get_solver_data), tied to the code by bit-exact '
    'differential execution of whole event traces at Float (harness/c10.py)',
    'exact ordered-field arithmetic stands in for IEEE doubles in the theorems (rounding of t + dt is outside the proof; '
    'the harness evaluates the property predicate on every implementation trace with the statement\'s tolerances)',
    'the damping sine and the adaptive step sequence are oracles: universally quantified (positive) in the theorems, '
    'computed from the documented formula / scripted by the harness in the tie',
    'stub integrator, in-memory dump_output and recording callbacks of the harness',
]
ASSUMPTIONS = [
    'serial run (in_parallel False, no parallel manager), reorder_freq = 0, no command handler',
    'dt > 0, tf >= 0, pfreq >= 1, output_at_times sorted, damping factors > 0 (n_damp below ~1e8), adaptive steps > 0',
    'solver starts from t = 0, count = 0 (a fresh Solver)',
    'the fix of proposed_fixes/C10-output-time-landing.diff is applied (the pinned code violates the property in three ways)',
]
READY = True
DESIGN_REF = '6/C10'
TECHNIQUE = 'Lean 4 proof over a hand-written model + bit-exact correspondence check of whole traces'
LEVEL_TEXT = ("Lean 4 theorems over every linearly ordered field, every configuration (dt, tf, pfreq, sorted requested times, "
              "n_damp, max_steps) and every positive adaptive sequence (step_dt_pos, time_strictly_increases, time_advances_by_dt, "
              "step_le_current_dt, nom_is_current_step_size, lands_on_tf, lands_on_tf_exact, count_le_max_steps, "
              "never_past_requested_time, dump_at_start_and_end, dump_every_pfreq, dump_at_requested_time, recorded_dt_is_nominal, "
              "nominal_undamped, recorded_dt_fixed_mode, recorded_dt_adaptive_mode, callbacks_once_per_step, terminates) about a "
              "hand-written model that transcribes the (repaired) solver loop, plus three counterexample theorems showing that the "
              "pinned loop breaks the property in exact arithmetic; the model is tied to the code on every run by bit-exact comparison "
              "of whole event traces at Float against the scratch build, and the property's own predicate is evaluated on every "
              "implementation trace to produce replays.")
LEVEL_NOTE = ("Trusted: Lean kernel, axioms propext/Classical.choice/Quot.sound; the hand-written model (checked by the "
              "correspondence, 1500+ schedules / 140k events quick, 100k schedules thorough); exact-field arithmetic in place of IEEE "
              "doubles (rounding of t + dt is sampled by the harness oracle on every trace, not proved); damping sine and adaptive "
              "sequence are positive oracles (terminates / recorded_dt_*_mode additionally need lower bounds and a non-decreasing "
              "damping ramp); serial path only. dump_at_requested_time keeps one measure-zero corner (a step starting at exactly "
              "T - eps) as an explicit disjunct.")
TIMEOUT = {'quick': 900, 'thorough': 3600}
