PID = 'C17'
PROPS = ['PysphVerif.Props.C17']
TRANSLATORS = []
HARNESS = 'harness/c17.py'
TRUSTED_BASE = [
    'Lean 4.33 kernel; axioms propext, Classical.choice, Quot.sound only (audited per theorem each run)',
    'hand-written model lean/PysphVerif/Model/Reorder.lean, tied to the code by exact differential execution '
    '(index lists of all 8 classes, re-ordered arrays of all properties the array has at the time of each re-order) '
    'in harness/c17.py',
    'the map particle -> cell id / Morton key / packed key / octant digits is recomputed by the harness from the '
    'positions and the public geometry of the search structure (xmin, cell_size, ncells_per_dim, octree node boxes); '
    'the theorems hold for every such map within the stated ranges (geometry is C01\'s subject)',
    'cyarray c_align_array and std::sort are modelled (gather through a temp copy; any permutation sorting by key), '
    'exercised by the tie',
]
ASSUMPTIONS = [
    'serial CPU path (pa.gpu is None); GPU variants of spatially_order_particles are out of scope',
    'cell ids are inside the structure (cid < n_cells, octant < 8, n < 2^I): holds on every generated cloud, checked per run',
    'inputs the search structures are not defined for are skipped: >= leaf_max coincident points (octrees), '
    'zero x/y extent (CellIndexing), a zero-extent cloud in 1D/2D (linked list; finding C17:ll-coincident-lowdim)',
    'histories: after the particle count changed the structure is brought up to date with update_domain() + update() '
    '(the integrator\'s sequence) before the next re-order; arrays are never emptied; in a periodic box the Ghost tag '
    'belongs to the domain manager',
    'models spatially_order_particles as repaired by /repo commit a3ee3a5 (proposed_fixes/C17-reorder-align.diff); '
    'the pinned variant is kept as spatiallyOrderOrig with its counterexample theorem',
]
READY = True
DESIGN_REF = '6/C17'
TECHNIQUE = 'Lean 4 proof over a hand-written model + exact correspondence check'
LEVEL_TEXT = ("Lean 4 theorems over every cell/key/octant assignment, every particle array (any properties, strides, "
              "tags) and every history of re-orderings about a hand-written model that transcribes "
              "get_spatially_ordered_indices of the five traversal families, c_align_array, align_particles and "
              "spatially_order_particles; the model is tied to the code on every run by exact differential execution "
              "against the scratch build of /repo for all 8 classes, and the property's own predicate (permutation, "
              "whole-particle multiset, real-first, brute-force neighbours after the update) is evaluated on the "
              "implementation to produce replays. Half of the cases are histories on ONE search structure that add and "
              "remove particles (also ghosts made by a periodic DomainManager) and add and remove properties (scalar / "
              "strided, 5 C types) between the re-orderings; every particle carries a unique id in every property and "
              "all oracles apply after every re-order for the current count and the current property set.")
LEVEL_NOTE = ("Trusted: Lean kernel, axioms propext/Classical.choice/Quot.sound; the hand-written model (checked by the "
              "correspondence); the harness's recomputation of cell ids/keys/octants (it reproduces the implementation's "
              "index lists exactly, so it is checked too); cyarray and std::sort modelled. Neighbour exactness after the "
              "update is an oracle test on the real code (C01 proves it), not a theorem here; rounds where the search was "
              "already inexact before the re-ordering, or is just as inexact with a structure built from scratch on the re-ordered arrays "
              "(C01 findings F1/F2), are not counted against C17.")
