PID = 'C09'
PROPS = ['PysphVerif.Props.C09']
TRANSLATORS = ['c09_equations2lean.py']
HARNESS = 'harness/c09.py'
TRUSTED_BASE = [
    'Lean 4.33 kernel; axioms propext, Classical.choice, Quot.sound only (audited per theorem each run)',
    'translate/c09_equations2lean.py (Python ast -> Gen/C09Equations.lean: loop bodies of 20 equations + the '
    'precomputed-symbol code strings of equation.py); validated on every run by bit-exact differential execution '
    'of the generated Lean at Float against the Python loop bodies / code strings (harness part A)',
    'exact ordered-field arithmetic with abstract sqrt/abs/pow stands in for IEEE doubles in the theorems '
    '(the property allows rounding relative to sum m|a|; the system-level oracle measures it on the compiled code)',
    'the kernel is abstract in the theorems, constrained to the radial shape W = w(r,h), grad W = g(r,h) x '
    '(checked on the real kernel classes by harness part B; C08 is about w and g)',
    'symmetric duplicate-free neighbour lists are a hypothesis of the system-level theorems (C01 is about the '
    'searches); the system-level oracle runs the real NNPS classes: 11 classes x every value of their public '
    'options x cache on/off x histories (particles removed / added / moved between evaluations on the same NNPS '
    'and AccelerationEval objects), the property judged after every round',
    'the neighbour cache (NeighborCache.update / get_neighbors_raw / find_all_neighbors with the resize semantics of '
    'cyarray arrays) is modelled for the serial path (Model/NbrCacheHist.lean) and tied on every run to the real '
    'cache objects of every NNPS class over population-changing histories (lists handed out vs the search\'s own '
    'lists); the cell-mask geometry (Lemmas/NbrMask.lean) is proved, not tied (mask widths are C locals)',
    'periodic images (CPUDomainManager._compute_cell_size_for_binning / _create_ghosts_periodic) are modelled '
    '(Model/PeriodicGhosts.lean, run at Float) and tied bit for bit on every run to the images the real DomainManager '
    'appends to every array (which real particle, where), over 1-3 periodic axes, n_layers 1/1.5/2/3, 1-3 arrays with '
    'h ratios 1..8 and histories on the same manager; box-wrapping and the removal of the old images are exercised, not modelled',
    'compyle/Cython/g++ code generation of the loop bodies is exercised, not modelled (harness part C; C02)',
]
ASSUMPTIONS = [
    'closed system: every destination array lists every array as a source; all particles real, or a periodic box '
    '(DomainManager periodic in 1-3 axes) whose images belong to the system: the sums run over the real particles, '
    'no angular momentum on a torus; the search radius radius_scale*hmax does not exceed the period (one image per '
    'side is all a DomainManager makes); mirror domains are not closed (C07)',
    'body forces off (gx = gy = gz = 0); the same equation parameters for every destination array',
    'masses non-zero for the number-density forms that divide by the destination mass',
    'solid mechanics: the array constants wdeltap and n agree between mutually interacting arrays',
    'edac.MomentumEquationPressureGradient is pair-symmetric only for a uniform average pressure pavg '
    '(proved with that hypothesis, counterexample otherwise); it is measured with uniform pavg',
    'serial CPU path (no OpenMP, no GPU)',
    'not exercised: ExtendedSpatialHashNNPS(approximate=True) (documented approximation), octree test_parallel, '
    'DictBoxSortNNPS (does not implement the nogil search the compiled evaluator calls: AccelerationEval sees no '
    'neighbours with it)',
]
READY = True
DESIGN_REF = '6/C09'
TECHNIQUE = ('Lean 4 proof over a model regenerated from the equation sources on every run + bit-exact translator '
             'validation + neighbour-cache history model tied to the real cache objects + conservation oracle on the '
             'real compiled AccelerationEval over NNPS classes x options x cache x population histories x periodic '
             'domains with arrays of very different resolution + periodic-image model tied to the real DomainManager')
LEVEL_TEXT = ("Lean 4 theorems, for every linearly ordered field, every kernel of radial shape, every parameter "
              "value, every finite particle set and every symmetric duplicate-free neighbour relation: "
              "sum_pair_antisym_eq_zero, torque_zero_of_central, dwij_antisym, dwi_dwj_swap, and per equation "
              "additive_/pair_antisym_/central_/linear_momentum_/angular_momentum_ for 18 momentum equations "
              "(WCSPH, TVF, EDAC, viscosity, gas-dynamics incl. the grad-h MPM form, solid-mechanics stress form), "
              "summation_density_pos for two density equations; for the layer that hands the lists to the equations: "
              "cache_history_serves_search (any history of population sizes / searches / queries on one NeighborCache, "
              "any content of fresh memory), cache_lists_symmetric, linear_momentum_WC_MomentumEquation_through_cache, "
              "cache_keeping_flags_goes_stale (counterexample), cell_mask_covers_criterion, "
              "strat_hash_mask_reaches_both_ways, strat_hash_mask_needs_H (counterexample); for a periodic box: "
              "periodic_pair_seen_equally (with the common image depth n_layers*radius_scale*hmax, n_layers >= 1, i has j "
              "or an image of j as neighbour exactly as often as j has i or an image of i, for any two arrays), "
              "periodic_image_reaction_exists, own_h_image_depth_loses_reaction (counterexample: a depth sized from the "
              "array's own h).  The model (loop bodies and precomputed symbols) is "
              "re-emitted from /repo's source by a Python-ast translator on every run, so a code change changes the "
              "Lean text the fixed proofs are checked against; the translator is validated bit for bit against the "
              "Python bodies, and the property's own predicate (|sum m a| <= 1e-12 sum m|a|, angular analogue, "
              "rho > 0) is evaluated on the real compiled code over random closed systems - every NNPS class, every "
              "value of its options, cache on and off, after every round of remove/add/move histories on the "
              "same objects, and in periodic boxes (1-3 periodic axes, n_layers 1..3) with 2-3 arrays whose h differ "
              "by a ratio up to 8, where also the symmetry of the real+image neighbour relation is judged - to produce replays.")
LEVEL_NOTE = ("Trusted: Lean kernel and the three standard axioms; the translator (validated per run, ~3000 bit-exact "
              "comparisons quick); exact-field arithmetic in place of IEEE doubles; radial kernel shape and symmetric "
              "neighbour lists as hypotheses (checked on the real classes / exercised by the system-level oracle); "
              "run-time code generation exercised, not modelled.  Not claimed: BodyForce, SolidWallNoSlipBC "
              "(classified out of scope by the translator, which fails on any unclassified equation writing d_au).")
TIMEOUT = {'quick': 1500, 'thorough': 4 * 3600}
