PID = 'C07'
PROPS = ['PysphVerif.Props.C07']
TRANSLATORS = []
HARNESS = 'harness/c07.py'
TRUSTED_BASE = [
    'Lean 4.33 kernel; axioms propext, Classical.choice, Quot.sound only (audited per theorem each run)',
    'hand-written model lean/PysphVerif/Model/Domain.lean (wrap, layer membership, x/y/z image passes, '
    'copy-props restriction, tagging, mirror reflections of the repaired code, cell size), tied to the compiled '
    'CPUDomainManager by exact differential execution: Rat on dyadic inputs (<= ties included) and Float bit-exact '
    'on arbitrary doubles (harness/c07.py)',
    'exact ordered-field arithmetic stands in for IEEE doubles in the theorems (exact on the dyadic grid)',
    'cyarray remove/align (order of the surviving rows) and update_min_max are modelled abstractly, exercised by the tie',
]
ASSUMPTIONS = [
    'serial CPU path (in_parallel False, pa.gpu None)',
    'an axis is periodic or mirrored, not both; x, y, z are among the copied properties (the code requires it)',
    'mirror ghosts as in proposed_fixes/C07-mirror-ghosts.diff (the unrepaired code fails for a second array and '
    'for periodic+mirror mixes; the harness reports both on the real code)',
    'ghost layer thickness is n_layers*radius_scale*max(h) over every row present when update() starts '
    '(stale ghosts included), 1.0*n_layers when that product is below 1e-6',
    'no NaN among coordinates and smoothing lengths',
    'the model update has no memory (it takes the current rows); state the compiled manager caches between updates '
    '(its NNPSParticleArrayWrappers) is covered by the differential histories, not by the theorems',
]
READY = True
DESIGN_REF = '6/C07'
TECHNIQUE = 'Lean 4 proof over a hand-written model + exact (Rat / bit-exact Float) correspondence check'
LEVEL_TEXT = ("Lean 4 theorems over every ordered field, box, flag combination, layer thickness, copied-property "
              "subset, particle list and move-then-update history (wrap_inside, wrap_particle, "
              "periodic_ghosts_eq_image_set + periodic_images_explicit, mirror_ghosts_eq_image_set + mirror_images, "
              "update_structure, update_reals, no_accumulation, reals_of_runE + no_accumulation_changing_population for "
              "histories in which real particles are also appended and removed between updates, ghost-count bound, "
              "exact-copy lemmas) about a "
              "hand-written model that transcribes CPUDomainManager.update; the model is tied to the compiled code on "
              "every run by exact differential execution (Rat on dyadic inputs incl. <= ties, Float bit-exact "
              "otherwise) over histories on ONE manager object (move, rescale h, remove_particles, add_particles -- "
              "also into arrays that were empty when the manager was built -- then update), and the property's own "
              "predicate is evaluated with exact rationals on the implementation to produce replays.")
LEVEL_NOTE = ("Trusted: Lean kernel, axioms propext/Classical.choice/Quot.sound; the hand-written model (checked by the "
              "correspondence, ~900 cases / ~2300 updates quick); exact-field arithmetic in place of IEEE doubles "
              "(exact on the dyadic grid, bit-exact Float tie off it); cyarray remove/align modelled as an "
              "order-preserving filter. Mirror part models the repaired code (proposed_fixes/C07-mirror-ghosts.diff).")
TIMEOUT = {'quick': 1500, 'thorough': 3 * 3600}
