PID = 'C11'
PROPS = ['PysphVerif.Props.C11']
TRANSLATORS = []
HARNESS = 'harness/c11.py'
TRUSTED_BASE = [
    'Lean 4.33 kernel; axioms propext, Classical.choice, Quot.sound only (audited per theorem each run)',
    'hand-written model lean/PysphVerif/Model/DumpLoad.lean (get_particles_info, get_property_arrays, both writers, '
    'the three readers, ParticleArray construction incl. add_property and align_particles), tied to the code on every '
    'run by differential execution of load(dump(...)) on real files (harness/c11.py)',
    'numpy savez/pickle and h5py are taken to be faithful containers (the abstract file is a nested dictionary; '
    'compression does not change it; an HDF5 group iterates in name order) - exercised by the tie, not proved',
    'property values are opaque in the theorems; the tie runs them as exact rationals of the stored numbers',
]
ASSUMPTIONS = [
    'serial CPU path (no MPI gather, pa.gpu is None), h5py installed',
    'source arrays are coherent and aligned (C06): distinct property names, data length = particles x stride, '
    'stride >= 1, real particles first, num_real_particles = number of Local tags; tag/pid/gid are int/int/unsigned int '
    'with stride 1 (ParticleArray.clear creates them so)',
    'distinct, non-empty array names; output_property_arrays names only properties (set_output_arrays also admits '
    'constants, for which get_property_arrays raises KeyError in both formats)',
    'property names are not name/constants/backend/default_particle_tag (the npz reader passes properties as **kwargs '
    'to ParticleArray(), a property called "name" makes it raise TypeError; hdf5 is not affected)',
    'finite values (no NaN/inf) in the tie; hdf5 solver data restricted to what an HDF5 attribute can hold '
    '(numbers, bools, strings, numeric lists)',
    'version-1 files: stride-1 properties only (the format predates strides)',
    'num_real_particles of the LOADED array is outside the statement: the hdf5 reader never calls align_particles, so '
    'with only_real=False it counts ghosts as real (reported, compared as incidental detail only)',
]
READY = True
DESIGN_REF = '6/C11'
TECHNIQUE = 'Lean 4 proof over a hand-written model (abstract file) + correspondence check on real dump/load'
LEVEL_TEXT = ("Lean 4 theorems over every well-formed particle array, every option combination and both formats "
              "(readers_rebuild_in_any_order, hdf5_roundtrip, npz_roundtrip, roundtrip_meta_{hdf5,npz}, "
              "roundtrip_values_{hdf5,npz}, empty_array_roundtrip_{hdf5,npz}, compress_irrelevant, "
              "solver_data_roundtrip; for files holding any list of arrays with distinct names "
              "hdf5_roundtrip_many [loaded in name order] and npz_roundtrip_many [dump order]; for the version-1 "
              "reader v1_loads and v1_loads_many [stored stride-1 properties come back with the stored slice, all "
              "default properties exist, type/stride/default are functions of the name]; 15 theorems) about a hand-written model that transcribes the writers, the readers and the ParticleArray "
              "construction they drive; the model is tied to the code on every run by executing load(dump(...)) on "
              "real npz/hdf5/v1 files against the scratch build of /repo and comparing every property's type, stride, "
              "default and values, constants, output list and solver data; the property's own predicate is evaluated "
              "on the implementation to produce replays.")
LEVEL_NOTE = ("Partial: the file is an abstract nested dictionary, so numpy/pickle/h5py encodings (incl. compression) "
              "are trusted containers checked only by the tie; values are opaque; files with several arrays are covered for distinct "
              "array names only (equal names overwrite each other in the dictionaries; not stated); the version-1 theorems "
              "need every STORED property to have stride 1 (otherwise the reader raises or mis-sizes, shown by an example) "
              "and say nothing about the values of default properties that were not stored beyond their common length. Trusted: Lean kernel, the "
              "hand-written model (700+ cases quick), the stated well-formedness of source arrays.")
TIMEOUT = {'quick': 900, 'thorough': 3600}
