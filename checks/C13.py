PID = 'C13'
PROPS = ['PysphVerif.Props.C13']
TRANSLATORS = []
HARNESS = 'harness/c13.py'
TRUSTED_BASE = [
    'Lean 4.33 kernel + Mathlib (Matrix, det, mulVec, dotProduct, diagonal, Equiv.Perm, Real.sqrt); axioms propext, Classical.choice, Quot.sound only (audited per theorem each run)',
    'hand-written model lean/PysphVerif/Model/GaussJordan.lean (flat row-major arrays, the index arithmetic of the source), tied to pysph/sph/wc/linalg.py by bit-exact differential execution at Float (harness/c13.py), both for the plain Python functions and for the same functions transpiled by compyle/Cython inside a probe Equation',
    'hand-written model lean/PysphVerif/Model/Eigen3.lean (statement-by-statement transcription of eigen_decomposition, tred2, tql2, zero_matrix_case, the arithmetic part of get_eigenvalvec and transform_diag_inv of pysph/base/linalg3.pyx; while loops as fuel recursion, exhaustion reported as an error), tied to the compiled pysph.base.linalg3 by bit-exact comparison of V and d at Float (Float.sqrt and C sqrt are correctly rounded; only + - * / sqrt fabs and comparisons occur), for eigen_decomposition as a whole and for tred2 and tql2 separately (through a module that textually includes the tree\'s linalg3.pyx and is checked to reproduce the compiled module bit for bit on every case)',
    'the body of hypot2 is a parameter of the model; the harness reads the source to choose between the pinned sqrt(x*x+y*y) and the repaired overflow-safe body (any other text is reported as a disagreement); the theorems hold for every hypot2 with hyp >= 0 and hyp^2 = x^2+y^2, which both bodies are proved to satisfy',
    'the trigonometric get_eigenvalues (cos/acos/atan2/sin) is NOT modelled: in get_eigenvalvec it only decides the path (use_iter), and the model takes the eigenvalue triple returned by the real py_get_eigenvalues as an input; the closed-form eigenvector path (get_eigenvec_from_val, numpy fallback) is not modelled, only its eigenvalues are tied; neither is used by the solid-mechanics equations, which cimport eigen_decomposition',
    'Cython\'s checked division (ZeroDivisionError inside a noexcept function = "unraisable", the function returns early) is not modelled: the model divides as IEEE does; the theorems prove every divisor non-zero in exact arithmetic; the harness ties "the code reported ZeroDivisionError" to "the model result is not finite"',
    'exact ordered-field arithmetic stands in for IEEE doubles in the theorems; sqrt is abstract with 0 <= sqrt x and sqrt x * sqrt x = x for x >= 0 (satisfied by Real.sqrt: eig_hyps_satisfiable); the literal 1e-12 of gj_solve (both occurrences) is the parameter tol > 0, 2.0**-52.0 of tql2 the parameter eps >= 0, 1e8 of _nearly_diagonal the parameter big',
    'the ghost field TQ.drops of the model (the sub-diagonal entries tql2 replaces by 0.0, with V at that moment) is not in the C code; it is what the decomposition theorem is exact up to; its values are replayed against the real output by the harness',
    'the independent oracles of the harness (exact rational inverse, condition number, residual bound 64 n^2 eps cond |A| |x|; numpy evaluation of V^T V - I, A V - V diag d, V diag d V^T - A on what the real code returned)',
]
ASSUMPTIONS = [
    'arrays are large enough: n*(n+nb) <= len(m), n*nb <= len(result) (true at every call site)',
    'no NaN/inf among the inputs',
    'CPU paths (CPython, and compyle -> Cython -> g++ without -ffast-math; no FMA contraction in this build)',
    '"non-singular" in the return-code demand of the oracle means 1/|A^-1|_inf >= 1e-9 and cond_inf <= 1e8 (away from the absolute 1e-12 pivot guard); the theorems state the exact-arithmetic version (det A != 0 and no reduced column entirely below tol)',
    'eigen-decomposition: symmetric input (the code reads the lower triangle only); entries within 1e-290..1e290 of each other and of 1 (no denormals, sum |a_ij| does not overflow); the oracle tolerance is 1e-13 relative to max|a_ij| (orthonormality absolute)',
    'eigen-decomposition theorems are partial correctness: they say what holds IF the QL iteration returns (EigReturnsStatement is stated, not proved); the harness has never seen more than 7 sweeps per eigenvalue',
]
READY = True
DESIGN_REF = '6/C13'
TECHNIQUE = ('Lean 4 proof over hand-written models + bit-exact correspondence check '
             '(Gauss-Jordan and helpers; EISPACK tred2/tql2 eigen-decomposition), theorems replayed on the real outputs')
LEVEL_TEXT = ("Lean 4 theorems for every n, nb, every sufficiently large flat array and every linearly ordered "
              "field about a hand-written model that transcribes gj_solve (repaired: partial pivoting with a real "
              "row exchange), identity, dot, mat_mult, mat_vec_mult and augmented_matrix with their flat index "
              "arithmetic: gj_sound (det A != 0 and return 0 => A x_c = b_c for every right-hand side, also as "
              "Matrix.mulVec), gj_complete / gj_nonzero_only_if_singular_or_tiny (non-zero return only if det A = 0 "
              "or a column of the row-reduced matrix is entirely below tol), gj_pivot_is_column_max, "
              "gj_forward_triangular, row_ops_preserve_solutions, helpers = Mathlib's 1, *, mulVec, dotProduct, "
              "block row; orig_prepass_is_identity and orig_counterexample pin down defect F5 of the unrepaired "
              "code. "
              "Eigen-decomposition (linalg3.pyx): 15 theorems over every linearly ordered field with abstract sqrt/hypot2, "
              "for every symmetric 3x3 input of any magnitude, every branch combination and EVERY number of QL sweeps, "
              "about a model that transcribes eigen_decomposition = scaling + tred2 + tql2 + sort + zero_matrix_case: "
              "tred2_orthogonal_tridiagonal (V orthogonal, V T V^T = A, all four branch combinations, h > 0 and the "
              "sign choice proved), tql2_rotation_preserves_orthonormal and tql2_preserves_orthonormal (any fuel; the "
              "rotations are never degenerate because e[l..m-1] stay non-zero), tql2_sweep_is_similarity (the "
              "implicit-shift formulas incl. p = -s*s2*c3*el1*e[l]/dl1 are an exact orthogonal similarity of the "
              "shifted tridiagonal matrix), tql2_decomposition and eig_decomposition (if the routine returns then "
              "V^T V = I, d ascending and A = V diag(d) V^T + sum|a_ij| * sum_k W_k offM(j_k, x_k) W_k^T over the "
              "sub-diagonal entries x_k it replaced by 0.0), eig_decomposition_exact (A V = V diag d when the dropped "
              "entries are 0), eig_sort_permutes_and_sorts / eig_sort_preserves, eig_diag_fast_path, "
              "eig_zero_matrix_case (taken exactly for A = 0), eig_get_eigenvalvec_dispatch, eig_scaling "
              "(eigen_decomposition(c A) = (V, c d) for c > 0, same path), eig_hyps_satisfiable (Real.sqrt, both "
              "hypot2 bodies). "
              "The models are tied to the code on every run by bit-exact differential execution at Float "
              "against the scratch build (Python and transpiled paths; eigen_decomposition, tred2 alone, tql2 alone, "
              "get_eigenvalvec, transform_diag_inv), the theorems tred2_orthogonal_tridiagonal, tql2_decomposition and "
              "eig_scaling are replayed on the outputs of the real code, and the property's own predicate "
              "(exact rational oracle; orthonormality and residuals of the real eigen output) is evaluated on the "
              "implementation to produce replays.")
LEVEL_NOTE = ("Partial: (1) the eigen theorems are partial correctness - that the QL iteration stops "
              "(EigReturnsStatement) and that the dropped entries are below eps*tst1 is not proved (the model reports "
              "fuel exhaustion as an error; the harness compares the dropped values with the real residual); "
              "(2) rounding: every theorem is about exact field arithmetic; 'V orthonormal and A V = V diag d up to "
              "rounding' for doubles is checked by the oracle on 4000 (quick) / 60000 (thorough) matrices over 24 "
              "styles (random, diagonal, rank-deficient, repeated eigenvalues, hollow, sign-cancelling off-diagonals, "
              "tridiagonal, zero rows, 2x2 blocks, graded, scaled 1e-290..1e290), not proved; (3) get_eigenvalvec: "
              "only the dispatch and the diagonal fast path are modelled/proved, the trigonometric eigenvalues are an "
              "input and the closed-form eigenvector path is monitored only (it returns duplicated, non-orthogonal "
              "vectors for ~18% of the generated matrices; it is not used by the equations); (4) the 'residual "
              "bounded by the conditioning' clause of gj_solve is proved only in its exact-arithmetic form (residual 0), "
              "checked numerically by the oracle. Defect found by the tie and fixed in the tree (3ee427a): hypot2 = "
              "sqrt(x*x+y*y) overflowed/underflowed in tql2 for graded matrices (NaN output, ZeroDivisionError); key "
              "C13:eig:graded. Trusted: Lean kernel + Mathlib, the hand-written models (checked by the correspondence, "
              "~3800 gj + ~4000 eigen cases quick), exact-field arithmetic in place of IEEE doubles, "
              "compyle/Cython/g++ for the transpiled path.")
TIMEOUT = {'quick': 1200, 'thorough': 4 * 3600}
