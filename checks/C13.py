PID = 'C13'
PROPS = ['PysphVerif.Props.C13']
TRANSLATORS = []
HARNESS = 'harness/c13.py'
TRUSTED_BASE = [
    'Lean 4.33 kernel + Mathlib (Matrix.det, mulVec, dotProduct); axioms propext, Classical.choice, Quot.sound only (audited per theorem each run)',
    'hand-written model lean/PysphVerif/Model/GaussJordan.lean (flat row-major arrays, the index arithmetic of the source), tied to pysph/sph/wc/linalg.py by bit-exact differential execution at Float (harness/c13.py), both for the plain Python functions and for the same functions transpiled by compyle/Cython inside a probe Equation',
    'exact ordered-field arithmetic stands in for IEEE doubles in the theorems; the literal 1e-12 (both occurrences) is the parameter tol > 0',
    'the independent oracle of the harness (exact rational inverse, condition number, residual bound 64 n^2 eps cond |A| |x|)',
    'the eigen-decomposition of linalg3.pyx (tred2/tql2) is neither modelled nor proved: its statement (V^T V = I, A V = V diag d, V diag d V^T = A) is monitored by test on generated symmetric matrices',
]
ASSUMPTIONS = [
    'arrays are large enough: n*(n+nb) <= len(m), n*nb <= len(result) (true at every call site)',
    'no NaN/inf among the inputs',
    'CPU paths (CPython, and compyle -> Cython -> g++ without -ffast-math)',
    '"non-singular" in the return-code demand of the oracle means 1/|A^-1|_inf >= 1e-9 and cond_inf <= 1e8 (away from the absolute 1e-12 pivot guard); the theorems state the exact-arithmetic version (det A != 0 and no reduced column entirely below tol)',
]
READY = True
DESIGN_REF = '6/C13'
TECHNIQUE = ('Lean 4 proof over a hand-written model + bit-exact correspondence check '
             '(Gauss-Jordan and helpers); eigen-solver monitored by test')
LEVEL_TEXT = ("Lean 4 theorems for every n, nb, every sufficiently large flat array and every linearly ordered "
              "field about a hand-written model that transcribes gj_solve (repaired: partial pivoting with a real "
              "row exchange), identity, dot, mat_mult, mat_vec_mult and augmented_matrix with their flat index "
              "arithmetic: gj_sound (det A != 0 and return 0 => A x_c = b_c for every right-hand side, also as "
              "Matrix.mulVec), gj_complete / gj_nonzero_only_if_singular_or_tiny (non-zero return only if det A = 0 "
              "or a column of the row-reduced matrix is entirely below tol), gj_pivot_is_column_max, "
              "gj_forward_triangular, row_ops_preserve_solutions, helpers = Mathlib's 1, *, mulVec, dotProduct, "
              "block row; orig_prepass_is_identity and orig_counterexample pin down defect F5 of the unrepaired "
              "code. The model is tied to the code on every run by bit-exact differential execution at Float "
              "against the scratch build (Python and transpiled paths), and the property's own predicate "
              "(exact rational oracle) is evaluated on the implementation to produce replays.")
LEVEL_NOTE = ("Partial: the 3x3 symmetric eigen-decomposition (linalg3.pyx, EISPACK tred2/tql2) is an iterative "
              "floating-point algorithm and is only MONITORED by test (orthonormality, A V = V diag d, "
              "reconstruction; 2000 matrices quick / 40000 thorough over 11 styles and scales 1e-8..1e8), not "
              "proved. The 'residual bounded by the conditioning' clause is a floating-point statement: proved "
              "only in its exact-arithmetic form (residual 0), checked numerically by the oracle. Trusted: Lean "
              "kernel + Mathlib, the hand-written model (checked by the correspondence, ~3800 cases quick), "
              "exact-field arithmetic in place of IEEE doubles, compyle/Cython/g++ for the transpiled path.")
TIMEOUT = {'quick': 1200, 'thorough': 4 * 3600}
