PID = 'C13'
PROPS = ['PysphVerif.Props.C13']
TRANSLATORS = []
HARNESS = 'harness/c13.py'
TRUSTED_BASE = [
    'Lean 4.33 kernel; axioms propext, Classical.choice, Quot.sound only (audited per theorem each run)',
    'hand-written model lean/PysphVerif/Model/GaussJordan.lean, tied to pysph/sph/wc/linalg.py by bit-exact differential execution at Float (harness/c13.py), both for the Python functions and for the functions transpiled by compyle inside a probe equation',
    'exact ordered-field arithmetic stands in for IEEE doubles in the theorems; the literal 1e-12 is the parameter tol > 0',
    'the eigen-decomposition of linalg3.pyx is monitored by test only (not modelled, not proved)',
]
ASSUMPTIONS = [
    'arrays are large enough: n*(n+nb) <= len(m), n*nb <= len(result) (as at every call site)',
    'no NaN/inf among the inputs',
    'CPU path (Python and compyle/Cython transpiled)',
]
READY = False
DESIGN_REF = '6/C13'
TECHNIQUE = 'Lean 4 proof over a hand-written model + bit-exact correspondence check; eigen-solver monitored by test'
LEVEL_TEXT = ''
LEVEL_NOTE = ''
TIMEOUT = {'quick': 1200, 'thorough': 4 * 3600}
