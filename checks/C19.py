PID = 'C19'
PROPS = ['PysphVerif.Props.C19']
TRANSLATORS = []
HARNESS = 'harness/c19.py'
TRUSTED_BASE = [
    'Lean 4.33 kernel; axioms propext, Classical.choice, Quot.sound only (audited per theorem each run)',
    'hand-written model lean/PysphVerif/Model/AdaptDt.lean, tied to the code by bit-exact differential execution at Float (harness/c19.py)',
    'exact ordered-field arithmetic with an abstract monotone sqrt stands in for IEEE doubles in the theorems',
    'cyarray update_min_max (the `minimum` attribute) is modelled, exercised by the tie',
]
ASSUMPTIONS = [
    'serial, CPU path (pa.gpu is None, in_parallel False)',
    'h.minimum is current (update_min_max was called, as NNPS.update does)',
    'no NaN among property values',
]
