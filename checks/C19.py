PID = 'C19'
PROPS = ['PysphVerif.Props.C19']
TRANSLATORS = []
HARNESS = 'harness/c19.py'
TRUSTED_BASE = [
    'Lean 4.33 kernel; axioms propext, Classical.choice, Quot.sound only (audited per theorem each run)',
    'hand-written model lean/PysphVerif/Model/AdaptDt.lean, tied to the code by bit-exact differential execution at Float (harness/c19.py)',
    'exact ordered-field arithmetic with an abstract monotone sqrt stands in for IEEE doubles in the theorems',
    'cyarray update_min_max (the `minimum` attribute) is modelled, exercised by the tie',
]
ASSUMPTIONS = [
    'CPU path (pa.gpu is None); parallel runs are exercised through a stand-in for ParallelManager.update_time_steps (a min with the other ranks\' offers; mpi4py is not installed), each rank\'s local step being the documented formula on its local arrays',
    'h.minimum is current (update_min_max was called, as NNPS.update does)',
    'no NaN among property values',
]
READY = True
DESIGN_REF = '6/C19'
TECHNIQUE = 'Lean 4 proof over a hand-written model + bit-exact correspondence check'
LEVEL_TEXT = ("Lean 4 theorems over every list of particle arrays and every ordered field "
              "(hmin_is_smallest_h, explicit_spec, formula, factors_are_maxima, never_exceeds_any_particle, "
              "fallback_when_none; and over every history of set_fixed_h/compute_time_step calls on changing arrays: "
              "tracks_run, history_cts, history_cts_fresh, refix_refreshes; order independence hmin_multiset_only, hmin_array_order_independent, explicit_multiset_only, explicit_array_order_independent, factors_array_order_independent, compute_time_step_array_order_independent, hmin_antitone_in_particles: the values depend only on the multiset of particle values, not on the split into arrays or any order; and for the min-reduction of parallel runs par_is_min_or_fixed, par_no_rank_constrained_keeps_fixed) about a hand-written model that transcribes "
              "compute_time_step and friends and the state the integrator keeps between calls; "
              "the model is tied to the code on every run by bit-exact differential execution at Float against "
              "the scratch build of /repo, and the property's own predicate is evaluated on the implementation "
              "to produce replays.")
LEVEL_NOTE = ("Trusted: Lean kernel, axioms propext/Classical.choice/Quot.sound; the hand-written model (checked by "
              "the correspondence, 400+ cases and 200 op histories with state comparison after every op, quick); exact-field arithmetic with abstract monotone sqrt in place of "
              "IEEE doubles; cyarray's minimum attribute modelled; CPU path only, MPI reduction replaced by a stand-in min over given offers.")
